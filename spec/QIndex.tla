------------------------------- MODULE QIndex -------------------------------
(***************************************************************************)
(* Index arithmetic of quara (layer D): mixed-radix indices, the stacked   *)
(* and variable layouts of the four object types, the total layout of a    *)
(* set of operations, Kronecker layouts by ascending subsystem name.       *)
(* All indices are 0-based like the library's; sequences are 1-based TLA+. *)
(***************************************************************************)
EXTENDS Naturals, Integers, Sequences, FiniteSets

Types == {"state", "povm", "gate", "mprocess"}
Sq(d) == d * d

\* ---------------------------------------------------------------- mixed radix (row-major)
RECURSIVE Prod(_)
Prod(s) == IF Len(s) = 0 THEN 1 ELSE Head(s) * Prod(Tail(s))

RECURSIVE Serial(_, _)
\* Serial(shape, multi): row-major serial index of a multi-index
Serial(shape, multi) ==
    IF Len(shape) = 0 THEN 0
    ELSE Head(multi) * Prod(Tail(shape)) + Serial(Tail(shape), Tail(multi))

RECURSIVE Multi(_, _)
Multi(shape, n) ==
    IF Len(shape) = 0 THEN <<>>
    ELSE <<n \div Prod(Tail(shape))>> \o Multi(Tail(shape), n % Prod(Tail(shape)))

RECURSIVE AllMulti(_)
AllMulti(shape) ==
    IF Len(shape) = 0 THEN {<<>>}
    ELSE {<<a>> \o t : a \in 0..(Head(shape) - 1), t \in AllMulti(Tail(shape))}

\* ---------------------------------------------------------------- object layouts
\* A cell is <<x, r, c>>: outcome index, row, column (0-based).  States use r only, POVM
\* elements use (x, r), gates (r, c), measurement processes (x, r, c).
StackLen(T, d, m) == CASE T = "state"    -> Sq(d)
                       [] T = "povm"     -> m * Sq(d)
                       [] T = "gate"     -> Sq(d) * Sq(d)
                       [] T = "mprocess" -> m * Sq(d) * Sq(d)

StackCell(T, d, m, i) ==
    CASE T = "state"    -> <<0, i, 0>>
      [] T = "povm"     -> <<i \div Sq(d), i % Sq(d), 0>>
      [] T = "gate"     -> <<0, i \div Sq(d), i % Sq(d)>>
      [] T = "mprocess" -> <<i \div (Sq(d) * Sq(d)), (i % (Sq(d) * Sq(d))) \div Sq(d), i % Sq(d)>>

Cells(T, d, m) == {StackCell(T, d, m, i) : i \in 0..(StackLen(T, d, m) - 1)}

\* cells determined by the equality constraint when it is built into the parametrisation
IsImplied(T, d, m, cell) ==
    CASE T = "state"    -> cell[2] = 0
      [] T = "povm"     -> cell[1] = m - 1
      [] T = "gate"     -> cell[2] = 0
      [] T = "mprocess" -> cell[1] = m - 1 /\ cell[2] = 0

NumVar(T, d, m, para) ==
    IF ~para THEN StackLen(T, d, m)
    ELSE CASE T = "state"    -> Sq(d) - 1
           [] T = "povm"     -> (m - 1) * Sq(d)
           [] T = "gate"     -> Sq(d) * Sq(d) - Sq(d)
           [] T = "mprocess" -> m * Sq(d) * Sq(d) - Sq(d)

VarCell(T, d, m, para, v) ==
    IF ~para THEN StackCell(T, d, m, v)
    ELSE CASE T = "state"    -> <<0, v + 1, 0>>
           [] T = "povm"     -> <<v \div Sq(d), v % Sq(d), 0>>
           [] T = "gate"     -> <<0, (v \div Sq(d)) + 1, v % Sq(d)>>
           [] T = "mprocess" -> LET hs == Sq(d) * Sq(d)
                                    x == v \div hs
                                    rem == v % hs
                                IN IF x < m - 1 THEN <<x, rem \div Sq(d), rem % Sq(d)>>
                                   ELSE <<m - 1, (rem \div Sq(d)) + 1, rem % Sq(d)>>

\* inverse of VarCell as the library's convert_*_index_to_var_index is meant to compute it
CellVar(T, d, m, para, cell) ==
    IF ~para THEN
        CASE T = "state"    -> cell[2]
          [] T = "povm"     -> cell[1] * Sq(d) + cell[2]
          [] T = "gate"     -> cell[2] * Sq(d) + cell[3]
          [] T = "mprocess" -> cell[1] * Sq(d) * Sq(d) + cell[2] * Sq(d) + cell[3]
    ELSE
        CASE T = "state"    -> cell[2] - 1
          [] T = "povm"     -> cell[1] * Sq(d) + cell[2]
          [] T = "gate"     -> (cell[2] - 1) * Sq(d) + cell[3]
          [] T = "mprocess" -> cell[1] * Sq(d) * Sq(d) + cell[2] * Sq(d) + cell[3]
                               - (IF cell[1] = m - 1 THEN Sq(d) ELSE 0)

VarLayout(T, d, m, para) == [v \in 1..NumVar(T, d, m, para) |-> VarCell(T, d, m, para, v - 1)]
StackLayout(T, d, m) == [i \in 1..StackLen(T, d, m) |-> StackCell(T, d, m, i - 1)]

\* The implied value of a cell, as a symbolic affine form over the other cells:
\*   [const |-> c, minus |-> set of cells subtracted]   with c in {"0", "1", "INV_SQRT_D", "SQRT_D"}
ImpliedForm(T, d, m, cell) ==
    CASE T = "state"    -> [const |-> "INV_SQRT_D", minus |-> {}]
      [] T = "povm"     -> [const |-> IF cell[2] = 0 THEN "SQRT_D" ELSE "0",
                            minus |-> {<<x, cell[2], 0>> : x \in 0..(m - 2)}]
      [] T = "gate"     -> [const |-> IF cell[3] = 0 THEN "1" ELSE "0", minus |-> {}]
      [] T = "mprocess" -> [const |-> IF cell[3] = 0 THEN "1" ELSE "0",
                            minus |-> {<<x, 0, cell[3]>> : x \in 0..(m - 2)}]

\* the implied cells whose formula subtracts `cell`
SubtractedIn(T, d, m, cell) ==
    CASE T = "povm"     -> IF cell[1] < m - 1 THEN {<<m - 1, cell[2], 0>>} ELSE {}
      [] T = "mprocess" -> IF cell[1] < m - 1 /\ cell[2] = 0 THEN {<<m - 1, 0, cell[3]>>} ELSE {}
      [] OTHER -> {}
ImpliedCells(T, d, m) == {c \in Cells(T, d, m) : IsImplied(T, d, m, c)}

\* ---------------------------------------------------------------- sets of operations
\* An operation set is a record of four sequences of object descriptors [T, d, m, para];
\* the total variable vector concatenates states, gates, povms, mprocesses in that order.
ModeOrder == <<"state", "gate", "povm", "mprocess">>

RECURSIVE SumNumVar(_)
SumNumVar(objs) == IF Len(objs) = 0 THEN 0
                   ELSE NumVar(Head(objs).T, Head(objs).d, Head(objs).m, Head(objs).para) + SumNumVar(Tail(objs))

TotalSize(set) == SumNumVar(set["state"]) + SumNumVar(set["gate"]) + SumNumVar(set["povm"]) + SumNumVar(set["mprocess"])

ModeFirst(set, mode) ==
    CASE mode = "state"    -> 0
      [] mode = "gate"     -> SumNumVar(set["state"])
      [] mode = "povm"     -> SumNumVar(set["state"]) + SumNumVar(set["gate"])
      [] mode = "mprocess" -> SumNumVar(set["state"]) + SumNumVar(set["gate"]) + SumNumVar(set["povm"])

TotalIndex(set, mode, item, local) ==        \* item 0-based
    ModeFirst(set, mode) + SumNumVar(SubSeq(set[mode], 1, item)) + local

\* the sequence (mode, item, local) for every total index 0..TotalSize-1
RECURSIVE ObjEntries(_, _, _)
ObjEntries(mode, item, n) == [v \in 1..n |-> <<mode, item, v - 1>>]
RECURSIVE ModeEntries(_, _, _)
ModeEntries(mode, objs, item) ==
    IF Len(objs) = 0 THEN <<>>
    ELSE ObjEntries(mode, item, NumVar(Head(objs).T, Head(objs).d, Head(objs).m, Head(objs).para))
         \o ModeEntries(mode, Tail(objs), item + 1)
TotalLayout(set) ==
    ModeEntries("state", set["state"], 0) \o ModeEntries("gate", set["gate"], 0)
    \o ModeEntries("povm", set["povm"], 0) \o ModeEntries("mprocess", set["mprocess"], 0)

\* ---------------------------------------------------------------- subsystem (Kronecker) layout
\* names: sequence of pairwise distinct subsystem names in ASCENDING order, dims[name] its dimension.
\* digits[name] in 0..dims[name]^2-1 : coefficient index of the factor on that subsystem.
RECURSIVE KronIndex(_, _, _)
KronIndex(names, dims, digits) ==
    IF Len(names) = 0 THEN 0
    ELSE digits[Head(names)] * Prod([j \in 1..(Len(names) - 1) |-> Sq(dims[names[j + 1]])])
         + KronIndex(Tail(names), dims, digits)

RECURSIVE SortAsc(_)
MinSet(S) == CHOOSE x \in S : \A y \in S : x <= y
SortAsc(S) == IF S = {} THEN <<>> ELSE <<MinSet(S)>> \o SortAsc(S \ {MinSet(S)})

=============================================================================
