----------------------------- MODULE QCatalogue -----------------------------
(* The catalogues of "typical" objects: name grammars and textbook definitions in exact arithmetic.     *)
(*                                                                                                      *)
(* A name is a sequence of tokens (the library joins tokens with "_").  A pure state is a scaled        *)
(* Gaussian-integer vector  [v, s]  meaning v / sqrt(s); a unitary is a scaled Gaussian-integer matrix   *)
(* [u, s] meaning u / sqrt(s): conjugations and projectors are then Gaussian *rationals*, so every       *)
(* Clifford / stabiliser entry of the catalogue has an exact H-coordinate description.  Entries with    *)
(* irrational descriptions (state "a", pi/8 gates, 90-degree qutrit rotations, 2-qutrit exponentials)    *)
(* are part of the grammar here and are handled relationally by the binding.                             *)
EXTENDS Naturals, Integers, Sequences, FiniteSets, SequencesExt, TLC, QNum, QBasis

\* ---------------------------------------------------------------- systems
Systems == {"q", "qq", "qqq", "t", "tt"}
DimsOf(sys) == CASE sys = "q" -> <<2>> [] sys = "qq" -> <<2, 2>> [] sys = "qqq" -> <<2, 2, 2>>
                 [] sys = "t" -> <<3>> [] sys = "tt" -> <<3, 3>>
Dim(sys) == DimOf(DimsOf(sys))
BasisQ == BasisOf(<<2>>)
BasisQQ == BasisOf(<<2, 2>>)
BasisQQQ == BasisOf(<<2, 2, 2>>)
BasisT == BasisOf(<<3>>)
BasisTT == BasisOf(<<3, 3>>)
BasisFor(sys) == CASE sys = "q" -> BasisQ [] sys = "qq" -> BasisQQ [] sys = "qqq" -> BasisQQQ
                   [] sys = "t" -> BasisT [] sys = "tt" -> BasisTT
NuQ == NuOf(<<2>>)
NuQQ == NuOf(<<2, 2>>)
NuQQQ == NuOf(<<2, 2, 2>>)
NuT == NuOf(<<3>>)
NuTT == NuOf(<<3, 3>>)
NuFor(sys) == CASE sys = "q" -> NuQ [] sys = "qq" -> NuQQ [] sys = "qqq" -> NuQQQ [] sys = "t" -> NuT [] sys = "tt" -> NuTT

\* ---------------------------------------------------------------- grammar: states
Axes == {"x", "y", "z"}
Dirs == {"0", "1"}
Levels == {"01", "12", "02"}
Q1Exact == {a \o d : a \in Axes, d \in Dirs}
Q1State == Q1Exact \cup {"a"}
BellNames == {"bell_phi_plus", "bell_phi_minus", "bell_psi_plus", "bell_psi_minus"}
T1Triples == Levels \X Axes \X Dirs
TokOf3(tr) == tr[1] \o tr[2] \o tr[3]
T1TwoLevel == {TokOf3(tr) : tr \in T1Triples}
T1Special == {"0_1_2_superposition"}
T2Special == {"00_11_22_superposition"}

Singles(S) == {<<t>> : t \in S}
Pairs(S) == {<<a, b>> : a \in S, b \in S}
Triples(S) == {<<a, b, c>> : a \in S, b \in S, c \in S}

StateNames(sys) ==
    CASE sys = "q" -> Singles(Q1State)
      [] sys = "qq" -> Singles(BellNames) \cup Pairs(Q1State)
      [] sys = "qqq" -> Singles({"ghz", "werner"}) \cup Triples(Q1State)
      [] sys = "t" -> Singles(T1Special) \cup Singles(T1TwoLevel)
      [] sys = "tt" -> Singles(T2Special) \cup Pairs(T1TwoLevel)
HasToken(name, tok) == \E i \in 1..Len(name) : name[i] = tok
ExactStateNames(sys) == {n \in StateNames(sys) : ~HasToken(n, "a")}

\* ---------------------------------------------------------------- grammar: POVMs, gates, measurement processes, ensembles
Q1Povm == {"x", "y", "z"}
T1Povm == {"01x3", "01y3", "z3", "z2", "02x3", "02y3", "12x3", "12y3"}
PovmNames(sys) ==
    CASE sys = "q" -> Singles(Q1Povm)
      [] sys = "qq" -> Singles({"bell"}) \cup Pairs(Q1Povm)
      [] sys = "qqq" -> Triples(Q1Povm)
      [] sys = "t" -> Singles(T1Povm)
      [] sys = "tt" -> Pairs(T1Povm)

Q1Clifford == {"x90", "x180", "x", "y90", "y180", "y", "z90", "z180", "z", "phase", "phase_daggered", "hadamard", "zm90"}
Q1Gate == Q1Clifford \cup {"piover8", "piover8_daggered"}
Q2Gate == {"cx", "cz", "swap", "zx90", "zz90"}
Q2Asymmetric == {"cx", "zx90"}
Q3Gate == {"toffoli", "fredkin"}
T1Gate == {l \o a \o g : l \in Levels, a \in Axes, g \in {"90", "180"}}
T1Exact == {l \o a \o "180" : l \in Levels, a \in Axes}
T1Base == {"i"} \cup {l \o a : l \in Levels, a \in Axes}
T2Base == {b0 \o b1 : b0 \in T1Base, b1 \in T1Base} \ {"ii"}
T2Single == {b \o g : b \in T2Base, g \in {"90", "180"}}
T2Two == {<<m, n>> \in T2Single \X T2Single : m # n}
GateNames(sys) ==
    CASE sys = "q" -> Singles(Q1Gate)
      [] sys = "qq" -> Singles(Q2Gate)
      [] sys = "qqq" -> Singles(Q3Gate)
      [] sys = "t" -> Singles(T1Gate)
      [] sys = "tt" -> Singles(T2Single) \cup T2Two
\* every system also carries the gate "identity" (given by dimensions, not by a system-specific list)

MpType1Vec == {"x-type1", "y-type1", "z-type1", "bell-type1", "z3-type1", "z2-type1"}
MpType1Kraus == {"xxparity-type1", "zzparity-type1"}
MpType2 == {"x-type2", "y-type2", "z-type2", "z3-type2", "z2-type2"}
MpSysOf(n) == CASE n \in {"x-type1", "y-type1", "z-type1", "x-type2", "y-type2", "z-type2"} -> "q"
                [] n \in {"bell-type1", "xxparity-type1", "zzparity-type1"} -> "qq"
                [] OTHER -> "t"
MprocessNames(sys) == Singles({n \in MpType1Vec \cup MpType1Kraus \cup MpType2 : MpSysOf(n) = sys})

EnsembleNames(sys) == IF sys = "q" THEN Singles(Q1State) ELSE {}

Kinds == {"state", "povm", "gate", "mprocess", "ensemble"}
Names(kind, sys) == CASE kind = "state" -> StateNames(sys) [] kind = "povm" -> PovmNames(sys)
                      [] kind = "gate" -> GateNames(sys) [] kind = "mprocess" -> MprocessNames(sys)
                      [] kind = "ensemble" -> EnsembleNames(sys)
\* the dispatch succeeds exactly on catalogued names
Lookup(kind, sys, name) == name \in Names(kind, sys)

\* ---------------------------------------------------------------- scaled Gaussian-integer vectors and matrices
cO == <<1, 0>>
cZ == <<0, 0>>
cM == <<-1, 0>>
cI == <<0, 1>>
cJ == <<0, -1>>
GVec(seq) == [i \in 1..Len(seq) |-> CI(seq[i][1], seq[i][2])]
SV(seq, s) == [v |-> GVec(seq), s |-> s]
SU(mat, s) == [u |-> CMatInt(mat), s |-> s]

Q1Vec(t) == CASE t = "x0" -> SV(<<cO, cO>>, 2) [] t = "x1" -> SV(<<cO, cM>>, 2)
              [] t = "y0" -> SV(<<cO, cI>>, 2) [] t = "y1" -> SV(<<cO, cJ>>, 2)
              [] t = "z0" -> SV(<<cO, cZ>>, 1) [] t = "z1" -> SV(<<cZ, cO>>, 1)
LevelPair(l) == CASE l = "01" -> <<1, 2>> [] l = "12" -> <<2, 3>> [] l = "02" -> <<1, 3>>
\* the qubit state embedded in the two named levels of a qutrit
T1VecOf(tr) == LET q == Q1Vec(tr[2] \o tr[3])
                   p == LevelPair(tr[1])
               IN [v |-> [k \in 1..3 |-> IF k = p[1] THEN q.v[1] ELSE IF k = p[2] THEN q.v[2] ELSE CZero], s |-> q.s]
T1Vec(tok) == T1VecOf(CHOOSE tr \in T1Triples : TokOf3(tr) = tok)
UnitAt(n, S) == [k \in 1..n |-> IF k \in S THEN cO ELSE cZ]
SpecialVec(tok) ==
    CASE tok = "bell_phi_plus" -> SV(<<cO, cZ, cZ, cO>>, 2)
      [] tok = "bell_phi_minus" -> SV(<<cO, cZ, cZ, cM>>, 2)
      [] tok = "bell_psi_plus" -> SV(<<cZ, cO, cO, cZ>>, 2)
      [] tok = "bell_psi_minus" -> SV(<<cZ, cO, cM, cZ>>, 2)
      [] tok = "ghz" -> SV(UnitAt(8, {1, 8}), 2)
      [] tok = "werner" -> SV(UnitAt(8, {2, 3, 5}), 3)            \* (|001> + |010> + |100>) / sqrt 3
      [] tok = "0_1_2_superposition" -> SV(UnitAt(3, {1, 2, 3}), 3)
      [] tok = "00_11_22_superposition" -> SV(UnitAt(9, {1, 5, 9}), 3)
SpecialTokens == BellNames \cup {"ghz", "werner"} \cup T1Special \cup T2Special

KronV(a, b) == LET n == Len(b.v) IN
    [v |-> [k \in 1..(Len(a.v) * n) |-> CMul(a.v[((k - 1) \div n) + 1], b.v[((k - 1) % n) + 1])], s |-> a.s * b.s]
TokVec(sys, tok) == IF tok \in SpecialTokens THEN SpecialVec(tok)
                    ELSE IF sys \in {"t", "tt"} THEN T1Vec(tok) ELSE Q1Vec(tok)
StateVec(sys, name) == LET vs == [i \in 1..Len(name) |-> TokVec(sys, name[i])]
                       IN FoldLeft(LAMBDA acc, x : KronV(acc, x), vs[1], Tail(vs))
Density(sv) == [i \in 1..Len(sv.v) |-> [j \in 1..Len(sv.v) |-> CScale(R(1, sv.s), CMul(sv.v[i], CConj(sv.v[j])))]]
NormOk(sv) == CSum([i \in 1..Len(sv.v) |-> CMul(sv.v[i], CConj(sv.v[i]))]) = <<RI(sv.s), RZero>>
HOf(sys, X) == HCoord(X, BasisFor(sys), NuFor(sys))
\* Kronecker layout of product states: H-coordinates multiply
KronR(a, b) == [k \in 1..(Len(a) * Len(b)) |-> RMul(a[((k - 1) \div Len(b)) + 1], b[((k - 1) % Len(b)) + 1])]
FactorSys(sys) == IF sys \in {"t", "tt"} THEN "t" ELSE "q"
ProductH(sys, name) == LET hs == [i \in 1..Len(name) |-> HOf(FactorSys(sys), Density(TokVec(sys, name[i])))]
                       IN FoldLeft(LAMBDA acc, x : KronR(acc, x), hs[1], Tail(hs))

\* ---------------------------------------------------------------- unitaries
MX == << <<cZ, cO>>, <<cO, cZ>> >>
MY == << <<cZ, cJ>>, <<cI, cZ>> >>
MZ == << <<cO, cZ>>, <<cZ, cM>> >>
Q1U(t) == CASE t \in {"x", "x180"} -> SU(MX, 1)
            [] t \in {"y", "y180"} -> SU(MY, 1)
            [] t \in {"z", "z180"} -> SU(MZ, 1)
            [] t = "x90" -> SU(<< <<cO, cJ>>, <<cJ, cO>> >>, 2)                 \* exp(-i pi/4 X)
            [] t = "y90" -> SU(<< <<cO, cM>>, <<cO, cO>> >>, 2)                 \* exp(-i pi/4 Y)
            [] t = "z90" -> SU(<< <<<<1, -1>>, cZ>>, <<cZ, <<1, 1>>>> >>, 2)     \* exp(-i pi/4 Z)
            [] t = "zm90" -> SU(<< <<<<1, 1>>, cZ>>, <<cZ, <<1, -1>>>> >>, 2)
            [] t = "phase" -> SU(<< <<cO, cZ>>, <<cZ, cI>> >>, 1)
            [] t = "phase_daggered" -> SU(<< <<cO, cZ>>, <<cZ, cJ>> >>, 1)
            [] t = "hadamard" -> SU(<< <<cO, cO>>, <<cO, cM>> >>, 2)

\* positions: the subsystem with the p-th smallest id is the p-th Kronecker factor (most significant first)
Pos(ids, i) == 1 + Cardinality({j \in 1..Len(ids) : ids[j] < ids[i]})
Pow2(e) == 2 ^ e
Bit(k, p, n) == (k \div Pow2(n - p)) % 2
SetBit(k, p, n, b) == k - (Bit(k, p, n) * Pow2(n - p)) + (b * Pow2(n - p))
PermU(n, f(_)) == [u |-> [r \in 1..Pow2(n) |-> [c \in 1..Pow2(n) |-> IF f(c - 1) = r - 1 THEN COne ELSE CZero]], s |-> 1]
CxMap(k, pc, pt, n) == IF Bit(k, pc, n) = 1 THEN SetBit(k, pt, n, 1 - Bit(k, pt, n)) ELSE k
SwapMap(k, p1, p2, n) == SetBit(SetBit(k, p1, n, Bit(k, p2, n)), p2, n, Bit(k, p1, n))
ToffoliMap(k, c1, c2, t, n) == IF Bit(k, c1, n) = 1 /\ Bit(k, c2, n) = 1 THEN SetBit(k, t, n, 1 - Bit(k, t, n)) ELSE k
FredkinMap(k, c, t1, t2, n) == IF Bit(k, c, n) = 1 THEN SwapMap(k, t1, t2, n) ELSE k
PlaceTwo(A, B, pa) == IF pa = 1 THEN Kron(CMatInt(A), CMatInt(B)) ELSE Kron(CMatInt(B), CMatInt(A))
\* (I - i P) / sqrt 2 for a Pauli product P: the 90-degree rotation exp(-i pi/4 P)
Rot90(P) == [u |-> CMatAdd(CMatId(Len(P)), [i \in 1..Len(P) |-> [j \in 1..Len(P) |-> CMul(CI(0, -1), P[i][j])]]), s |-> 2]
GateU(sys, tok, ids) ==
    CASE sys = "q" -> Q1U(tok)
      [] tok = "cx" -> PermU(2, LAMBDA k : CxMap(k, Pos(ids, 1), Pos(ids, 2), 2))
      [] tok = "cz" -> [u |-> [r \in 1..4 |-> [c \in 1..4 |-> IF r # c THEN CZero ELSE IF r = 4 THEN CI(-1, 0) ELSE COne]], s |-> 1]
      [] tok = "swap" -> PermU(2, LAMBDA k : SwapMap(k, 1, 2, 2))
      [] tok = "zx90" -> Rot90(PlaceTwo(MZ, MX, Pos(ids, 1)))
      [] tok = "zz90" -> Rot90(PlaceTwo(MZ, MZ, 1))
      [] tok = "toffoli" -> PermU(3, LAMBDA k : ToffoliMap(k, Pos(ids, 1), Pos(ids, 2), Pos(ids, 3), 3))
      [] tok = "fredkin" -> PermU(3, LAMBDA k : FredkinMap(k, Pos(ids, 1), Pos(ids, 2), Pos(ids, 3), 3))
\* 180-degree rotation in a two-level subspace of a qutrit: exp(-i pi/2 sigma) = (1 - P) - i sigma
T1Sigma(l, a) == LET p == LevelPair(l)
                     m == CASE a = "x" -> MX [] a = "y" -> MY [] a = "z" -> MZ
                     e(i, j) == IF i \in {p[1], p[2]} /\ j \in {p[1], p[2]}
                                THEN CI(m[IF i = p[1] THEN 1 ELSE 2][IF j = p[1] THEN 1 ELSE 2][1], m[IF i = p[1] THEN 1 ELSE 2][IF j = p[1] THEN 1 ELSE 2][2])
                                ELSE CZero
                 IN [i \in 1..3 |-> [j \in 1..3 |-> e(i, j)]]
T1U180(l, a) == LET p == LevelPair(l) sg == T1Sigma(l, a) IN
    [u |-> [i \in 1..3 |-> [j \in 1..3 |-> IF i \in {p[1], p[2]} \/ j \in {p[1], p[2]} THEN CMul(CI(0, -1), sg[i][j])
                                           ELSE IF i = j THEN COne ELSE CZero]], s |-> 1]
T1GateU(tok) == LET la == CHOOSE la \in Levels \X Axes : la[1] \o la[2] \o "180" = tok IN T1U180(la[1], la[2])
IdsFor(sys, tok) == IF tok \in Q2Asymmetric THEN {<<0, 1>>, <<1, 0>>}
                    ELSE IF tok \in Q3Gate THEN {<<0, 1, 2>>, <<0, 2, 1>>, <<1, 0, 2>>, <<1, 2, 0>>, <<2, 0, 1>>, <<2, 1, 0>>}
                    ELSE {<<>>}
IsUnitary(U) == CMatMul(U.u, Dagger(U.u)) = CMatScale(RI(U.s), CMatId(Len(U.u)))
Conj(U, X) == CMatScale(R(1, U.s), CMatMul(U.u, CMatMul(X, Dagger(U.u))))
\* Hilbert-Schmidt matrix in H-coordinates: column b holds the coordinates of U H_b U^dagger
GateH(sys, U) == LET B == BasisFor(sys)
                     nu == NuFor(sys)
                     Ud == TLCEval(Dagger(U.u))
                     cols == [b \in 1..Len(B) |-> LET X == TLCEval(CMatMul(U.u, CMatMul(B[b], Ud)))
                                                  IN [a \in 1..Len(B) |-> RMul(R(1, nu[a] * U.s), HSInner(B[a], X)[1])]]
                     colsE == TLCEval(cols)
                 IN [a \in 1..Len(B) |-> [b \in 1..Len(B) |-> colsE[b][a]]]
ApplyU(U, sv) == [v |-> [i \in 1..Len(U.u) |-> CDot(U.u[i], sv.v)], s |-> U.s * sv.s]
IsSignedPermutation(G) == /\ \A a \in 1..Len(G) : Cardinality({b \in 1..Len(G) : G[a][b] # RZero}) = 1
                          /\ \A b \in 1..Len(G) : Cardinality({a \in 1..Len(G) : G[a][b] # RZero}) = 1
                          /\ \A a, b \in 1..Len(G) : G[a][b] \in {RZero, ROne, RI(-1)}
\* Clifford relations among catalogue names: first o second = third on H-coordinates
Q1Relations == { <<"x90", "x90", "x180">>, <<"y90", "y90", "y180">>, <<"z90", "z90", "z180">>, <<"x180", "x180", "id">>,
                 <<"phase", "phase", "z">>, <<"phase", "phase_daggered", "id">>, <<"z90", "zm90", "id">>,
                 <<"hadamard", "hadamard", "id">>, <<"x", "y", "z">>, <<"phase", "zm90", "id">>, <<"x", "x180", "id">> }
\* conjugation relations: first o second o first^-1 = third, with first an involution
Q1Conjugations == { <<"hadamard", "x", "z">>, <<"hadamard", "z", "x">>, <<"hadamard", "y", "y">> }

\* ---------------------------------------------------------------- POVMs
ProjTok(sys, tok) == Density(TokVec(sys, tok))
PovmSingle(tok) ==
    CASE tok \in Q1Povm -> <<ProjTok("q", tok \o "0"), ProjTok("q", tok \o "1")>>
      [] tok = "bell" -> <<ProjTok("qq", "bell_phi_plus"), ProjTok("qq", "bell_phi_minus"), ProjTok("qq", "bell_psi_plus"), ProjTok("qq", "bell_psi_minus")>>
      [] tok = "z3" -> <<ProjTok("t", "01z0"), ProjTok("t", "01z1"), ProjTok("t", "02z1")>>
      [] tok = "z2" -> <<ProjTok("t", "01z0"), CMatAdd(ProjTok("t", "01z1"), ProjTok("t", "02z1"))>>
      [] tok = "01x3" -> <<ProjTok("t", "01x0"), ProjTok("t", "01x1"), ProjTok("t", "02z1")>>
      [] tok = "01y3" -> <<ProjTok("t", "01y0"), ProjTok("t", "01y1"), ProjTok("t", "02z1")>>
      [] tok = "02x3" -> <<ProjTok("t", "02x0"), ProjTok("t", "02x1"), ProjTok("t", "01z1")>>
      [] tok = "02y3" -> <<ProjTok("t", "02y0"), ProjTok("t", "02y1"), ProjTok("t", "01z1")>>
      [] tok = "12x3" -> <<ProjTok("t", "12x0"), ProjTok("t", "12x1"), ProjTok("t", "01z0")>>
      [] tok = "12y3" -> <<ProjTok("t", "12y0"), ProjTok("t", "12y1"), ProjTok("t", "01z0")>>
\* product POVMs: the outcome of the first factor is the most significant
KronLists(As, Bs) == [k \in 1..(Len(As) * Len(Bs)) |-> Kron(As[((k - 1) \div Len(Bs)) + 1], Bs[((k - 1) % Len(Bs)) + 1])]
PovmElems(name) == LET es == [i \in 1..Len(name) |-> PovmSingle(name[i])]
                   IN FoldLeft(LAMBDA acc, x : KronLists(acc, x), es[1], Tail(es))
SumMatsC(ms) == FoldLeft(LAMBDA acc, x : CMatAdd(acc, x), ms[1], Tail(ms))
IsProjector(P) == IsHermitian(P) /\ CMatMul(P, P) = P
PovmOk(es) == /\ SumMatsC(es) = CMatId(Len(es[1]))
              /\ \A x \in 1..Len(es) : IsProjector(es[x])
              /\ \A x, y \in 1..Len(es) : x # y => CMatMul(es[x], es[y]) = CMatZero(Len(es[1]), Len(es[1]))

\* ---------------------------------------------------------------- measurement processes (Kraus sets per outcome)
Ket(sv) == sv
\* |a><b| / sqrt(s_a s_b) is rational only when s_a = s_b: all catalogue uses satisfy this
KetBra(a, b) == [i \in 1..Len(a.v) |-> [j \in 1..Len(b.v) |-> CScale(R(1, a.s), CMul(a.v[i], CConj(b.v[j])))]]
MpVectors(tok) ==
    CASE tok \in {"x-type1", "x-type2"} -> << <<Q1Vec("x0")>>, <<Q1Vec("x1")>> >>
      [] tok \in {"y-type1", "y-type2"} -> << <<Q1Vec("y0")>>, <<Q1Vec("y1")>> >>
      [] tok \in {"z-type1", "z-type2"} -> << <<Q1Vec("z0")>>, <<Q1Vec("z1")>> >>
      [] tok = "bell-type1" -> << <<SpecialVec("bell_phi_plus")>>, <<SpecialVec("bell_phi_minus")>>, <<SpecialVec("bell_psi_plus")>>, <<SpecialVec("bell_psi_minus")>> >>
      [] tok \in {"z3-type1", "z3-type2"} -> << <<T1Vec("01z0")>>, <<T1Vec("01z1")>>, <<T1Vec("02z1")>> >>
      [] tok \in {"z2-type1", "z2-type2"} -> << <<T1Vec("01z0")>>, <<T1Vec("01z1"), T1Vec("02z1")>> >>
XX == Kron(CMatInt(MX), CMatInt(MX))
ZZ == Kron(CMatInt(MZ), CMatInt(MZ))
HalfSum(P, sign) == CMatScale(R(1, 2), CMatAdd(CMatId(4), CMatScale(RI(sign), P)))
MpKraus(tok) ==
    IF tok \in MpType1Vec THEN LET vs == MpVectors(tok) IN [x \in 1..Len(vs) |-> [k \in 1..Len(vs[x]) |-> KetBra(vs[x][k], vs[x][k])]]
    ELSE IF tok \in MpType2 THEN LET vs == MpVectors(tok) IN [x \in 1..Len(vs) |-> [k \in 1..Len(vs[x]) |-> KetBra(vs[1][1], vs[x][k])]]
    ELSE IF tok = "xxparity-type1" THEN << <<HalfSum(XX, 1)>>, <<HalfSum(XX, -1)>> >>
    ELSE << <<HalfSum(ZZ, 1)>>, <<HalfSum(ZZ, -1)>> >>
\* induced POVM element of outcome x: sum_k K^dagger K
MpPovm(ks) == [x \in 1..Len(ks) |-> SumMatsC([k \in 1..Len(ks[x]) |-> CMatMul(Dagger(ks[x][k]), ks[x][k])])]
MpPovmName(tok) == CASE tok \in {"x-type1", "x-type2"} -> "x" [] tok \in {"y-type1", "y-type2"} -> "y"
                     [] tok \in {"z-type1", "z-type2"} -> "z" [] tok = "bell-type1" -> "bell"
                     [] tok \in {"z3-type1", "z3-type2"} -> "z3" [] tok \in {"z2-type1", "z2-type2"} -> "z2"
                     [] OTHER -> "parity"
\* HS matrix (row-major computational basis) of one outcome
MpSuper(kset) == SumMatsC([k \in 1..Len(kset) |-> Kron(kset[k], CMatConj(kset[k]))])
\* unnormalised post-measurement state K rho K^dagger summed over the outcome's Kraus operators
MpPost(kset, rho) == SumMatsC([k \in 1..Len(kset) |-> CMatMul(kset[k], CMatMul(rho, Dagger(kset[k])))])
=============================================================================
