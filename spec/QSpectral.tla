------------------------------ MODULE QSpectral ------------------------------
(***************************************************************************)
(* Tolerance verdicts in exact decimal arithmetic (layer S, property C01). *)
(* A magnitude is [m, e] = m * 10^-e (m a small natural, e a natural); a   *)
(* tolerance is atol = 10^-k.  The specification is TRUE below 0.9 atol,   *)
(* FALSE above 1.1 atol and unconstrained in between (guard band): the     *)
(* deviations used are single scalars (a trace, a multiple of the identity,*)
(* one matrix entry, one eigenvalue), for which every reasonable norm      *)
(* gives the same magnitude.                                               *)
(***************************************************************************)
EXTENDS Naturals, Integers, Sequences, FiniteSets

Pow10(n) == CASE n = 0 -> 1 [] n = 1 -> 10 [] n = 2 -> 100 [] n = 3 -> 1000 [] n = 4 -> 10000
\* value <= 0.9 atol   <=>  10 m 10^(k-e) <= 9
BelowBand(mag, k) ==
    IF mag.m = 0 THEN TRUE
    ELSE IF k >= mag.e THEN FALSE
    ELSE IF mag.e - k >= 4 THEN TRUE
    ELSE 10 * mag.m <= 9 * Pow10(mag.e - k)
\* value >= 1.1 atol   <=>  10 m 10^(k-e) >= 11
AboveBand(mag, k) ==
    IF mag.m = 0 THEN FALSE
    ELSE IF k >= mag.e THEN (IF k - mag.e >= 1 THEN TRUE ELSE 10 * mag.m >= 11)
    ELSE IF mag.e - k >= 4 THEN FALSE
    ELSE 10 * mag.m >= 11 * Pow10(mag.e - k)
\* the verdicts the specification allows for "deviation mag is within tolerance 10^-k"
Within(mag, k) == IF BelowBand(mag, k) THEN {TRUE} ELSE IF AboveBand(mag, k) THEN {FALSE} ELSE {TRUE, FALSE}

\* an object's deviation from physicality: eqDev (trace / identity-sum / first-row defect), negDev (size of the most
\* negative eigenvalue of its density / element / Choi matrices)
Verdicts(obj, k) ==
    {[eq |-> a, ineq |-> b, phys |-> a /\ b] : a \in Within(obj.eqDev, k), b \in Within(obj.negDev, k)}
\* construction with physicality required succeeds iff the object is physical at the tolerance in force
ConstructOutcomes(obj, k) == {IF v.phys THEN "ok" ELSE "raise" : v \in Verdicts(obj, k)}
=============================================================================
