------------------------------ MODULE QObjLife ------------------------------
(***************************************************************************)
(* Life cycle of the library's value objects (State, Povm, Gate, MProcess): *)
(* the only steps that change an object after construction are             *)
(*    set_zero()              value := 0, is_physicality_required := FALSE *)
(*    set_mode_proj_order(o)  order of the two projections                 *)
(* and copy() makes a second object with the same value and settings that   *)
(* shares nothing with the first.  Every read (parameter vectors, matrix    *)
(* representations, derived objects, projection, copy) is the TERM          *)
(* [kind, read, val, order]: a function of the object's CURRENT value and   *)
(* settings, not of what it held earlier (property C13; for the parameter   *)
(* vectors also C03: the variables always describe the object).             *)
(***************************************************************************)
EXTENDS Naturals, Sequences, FiniteSets, TLC, Json

CONSTANTS Kinds,         \* "state" | "povm" | "gate" | "mprocess" | "lindbladian"
          Reads,         \* names of read operations
          Emit

VARIABLES obj,           \* Kinds -> [main : settings, copy : settings or None]
          last           \* observation: the term of the last step

lvars == <<obj, last>>

Orders == {"eq_ineq", "ineq_eq"}
None == [val |-> "none", order |-> "none"]
Fresh == [val |-> "orig", order |-> "eq_ineq"]
Slots == {"main", "copy"}
Exists(k, s) == obj[k][s].val # "none"
Req(o) == o.val = "orig"        \* is_physicality_required: cleared by set_zero, never set again
Term(k, s, r) == [kind |-> k, read |-> r, val |-> obj[k][s].val, order |-> obj[k][s].order, req |-> Req(obj[k][s])]
Mark(name) == [kind |-> name, read |-> "-", val |-> "-", order |-> "-", req |-> FALSE]

Pr(act, arg, res) ==
    IF Emit THEN PrintT(ToJson([from |-> obj, act |-> act, arg |-> arg, res |-> res, to |-> obj']))
    ELSE TRUE

Init == /\ obj = [k \in Kinds |-> [main |-> Fresh, copy |-> None]]
        /\ last = Mark("init")

Read(k, s, r) ==
    /\ Exists(k, s)
    /\ last' = Term(k, s, r)
    /\ UNCHANGED obj
    /\ Pr("Read", [kind |-> k, slot |-> s, read |-> r], Term(k, s, r))

SetZero(k, s) ==
    /\ Exists(k, s)
    /\ obj' = [obj EXCEPT ![k][s].val = "zero"]
    /\ last' = Mark("setzero")
    /\ Pr("SetZero", [kind |-> k, slot |-> s], Mark("setzero"))

SetOrder(k, s, o) ==
    /\ Exists(k, s) /\ obj[k][s].order # o
    /\ obj' = [obj EXCEPT ![k][s].order = o]
    /\ last' = Mark("setorder")
    /\ Pr("SetOrder", [kind |-> k, slot |-> s, order |-> o], Mark("setorder"))

Copy(k) ==                      \* the copy slot is (re)filled with a copy of the main object
    /\ obj' = [obj EXCEPT ![k].copy = obj[k].main]
    /\ last' = Mark("copy")
    /\ Pr("Copy", [kind |-> k], Mark("copy"))

Next == \/ \E k \in Kinds, s \in Slots, r \in Reads : Read(k, s, r)
        \/ \E k \in Kinds, s \in Slots : SetZero(k, s)
        \/ \E k \in Kinds, s \in Slots, o \in Orders : SetOrder(k, s, o)
        \/ \E k \in Kinds : Copy(k)

Spec == Init /\ [][Next]_lvars
View == obj

\* ------------------------------------------------------------------ properties
TypeOK == \A k \in Kinds : /\ obj[k].main.val \in {"orig", "zero"} /\ obj[k].main.order \in Orders
                           /\ (obj[k].copy = None \/ (obj[k].copy.val \in {"orig", "zero"} /\ obj[k].copy.order \in Orders))
\* a read changes nothing
ReadsArePure == [][last'.read # "-" => obj' = obj]_lvars
\* every step touches at most one slot of one object
OneSlot == [][Cardinality({<<k, s>> \in Kinds \X Slots : obj'[k][s] # obj[k][s]}) <= 1]_lvars
\* there is no way back from zero (no setter for the value)
ZeroAbsorbing == [][\A k \in Kinds, s \in Slots : (obj[k][s].val = "zero" /\ last'.kind # "copy") => obj'[k][s].val = "zero"]_lvars
\* a copy starts out equal to its original and is independent afterwards
CopyFaithful == [][last'.kind = "copy" => \E k \in Kinds : obj'[k].copy = obj[k].main /\ obj'[k].main = obj[k].main]_lvars
\* what a read returns is determined by the slot's current settings
ReadTerm == last.read # "-" => \E s \in Slots : /\ Exists(last.kind, s) /\ obj[last.kind][s].val = last.val
                                                 /\ obj[last.kind][s].order = last.order /\ last.req = (last.val = "orig")
=============================================================================
