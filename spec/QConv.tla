------------------------------- MODULE QConv -------------------------------
(***************************************************************************)
(* Representations of one operator / superoperator (property C02), exact.  *)
(* A superoperator is given by its H-coordinate matrix G (G(H_b) =         *)
(* sum_a G_ab H_a).  Everything else is derived from its action.           *)
(***************************************************************************)
EXTENDS QObjects

\* the image of a matrix X under the superoperator G
Act(G, X, sys) ==
    LET basis == TLCEval(BasisOf(sys)) nu == NuOf(sys)
        x == TLCEval([b \in 1..Len(basis) |-> CScale(R(1, nu[b]), HSInner(basis[b], X))])      \* complex H-coordinates of X
        y == TLCEval([a \in 1..Len(basis) |-> CSum([b \in 1..Len(basis) |-> <<RMul(G[a][b], x[b][1]), RMul(G[a][b], x[b][2])>>])])
    IN SumMats([a \in 1..Len(basis) |-> [i \in 1..Len(basis[1]) |-> [j \in 1..Len(basis[1]) |-> CMul(y[a], basis[a][i][j])]]], Len(basis[1]))

\* HS matrix in the computational basis E_ij, row-major (k-th basis element = E_{(k-1) div d, (k-1) mod d}) or column-major
IdxRow(d, k) == <<((k - 1) \div d) + 1, ((k - 1) % d) + 1>>
IdxCol(d, k) == <<((k - 1) % d) + 1, ((k - 1) \div d) + 1>>
HSComp(G, sys, rowMajor) ==
    LET d == DimOf(sys)
        idx(k) == IF rowMajor THEN IdxRow(d, k) ELSE IdxCol(d, k)
        \* function constructors are lazy in TLC (every application re-evaluates the body): force the table once
        img == TLCEval([c \in 1..(d * d) |-> TLCEval(Act(G, Eij(d, idx(c)[1], idx(c)[2]), sys))])
    IN [r \in 1..(d * d) |-> [c \in 1..(d * d) |-> img[c][idx(r)[1]][idx(r)[2]]]]

\* Choi matrix, algebraic definition:  sum_ab G_ab H_a (x) conj(H_b) / nu_b
ChoiAlg(G, sys) ==
    LET basis == BasisOf(sys) nu == NuOf(sys) n == Len(basis) d == DimOf(sys)
    IN SumMats(ConcatAll([a \in 1..n |-> SelectSeq([b \in 1..n |->
          IF RIsZero(G[a][b]) THEN <<>> ELSE CMatScale(RDiv(G[a][b], RI(nu[b])), Kron(basis[a], CMatConj(basis[b])))], LAMBDA m : m # <<>>)]), d * d)
\* The following are functions of the row-major computational HS matrix hs (computed once per input).
\* image of E_kl read off column (k,l) of hs
ImageOf(hs, d, c) == [i \in 1..d |-> [j \in 1..d |-> hs[(i - 1) * d + j][c]]]
\* Choi matrix, standard definition:  sum_kl G(E_kl) (x) E_kl
ChoiStd(hs, d) ==
    SumMats([c \in 1..(d * d) |-> Kron(ImageOf(hs, d, c), Eij(d, IdxRow(d, c)[1], IdxRow(d, c)[2]))], d * d)
\* reshuffle of the row-major HS matrix:  Choi[(i,k),(j,l)] = HS[(i,j),(k,l)]
ChoiReshuffle(hs, d) ==
    [r \in 1..(d * d) |-> [c \in 1..(d * d) |->
          LET i == IdxRow(d, r)[1] k == IdxRow(d, r)[2] j == IdxRow(d, c)[1] l == IdxRow(d, c)[2]
          IN hs[(i - 1) * d + j][(k - 1) * d + l]]]
\* column-major computational form: the same matrix with rows and columns re-indexed
HSColFromRow(hs, d) ==
    LET p(k) == (IdxCol(d, k)[1] - 1) * d + IdxCol(d, k)[2] IN [r \in 1..(d * d) |-> [c \in 1..(d * d) |-> hs[p(r)][p(c)]]]
\* process matrix chi_{(ij),(kl)} = Tr[(E_ij^dagger (x) E_kl^T) HS_cb] = HS_cb[(i,k),(j,l)]
ProcessMatrix(hs, d) ==
    [r \in 1..(d * d) |-> [c \in 1..(d * d) |->
          LET i == IdxRow(d, r)[1] j == IdxRow(d, r)[2] k == IdxRow(d, c)[1] l == IdxRow(d, c)[2]
          IN hs[(i - 1) * d + k][(j - 1) * d + l]]]
\* inverse: H-coordinate matrix from a Choi matrix:  G_ab = Tr[(H_a (x) conj H_b)^dagger Choi] / nu_a
GFromChoi(CM, sys) ==
    LET basis == BasisOf(sys) nu == NuOf(sys) n == Len(basis)
    IN [a \in 1..n |-> [b \in 1..n |-> CScale(R(1, nu[a]), HSInner(Kron(basis[a], CMatConj(basis[b])), CM))]]
\* sum_i K_i (x) conj K_i  (row-major computational HS of a Kraus set, with prefactor c)
HSFromKraus(Ks, c) == CMatScale(c, SumMats([i \in 1..Len(Ks) |-> Kron(Ks[i], CMatConj(Ks[i]))], Len(Ks[1]) * Len(Ks[1])))
=============================================================================
