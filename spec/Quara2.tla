------------------------------- MODULE Quara2 -------------------------------
(* Composed specification, two qubits: product preparation, one two-qubit (or local) gate from the        *)
(* catalogue, product measurement.  It ties QCatalogue (textbook unitaries, exact Hilbert-Schmidt          *)
(* matrices), the Kronecker layout (QIndex / KronR) and the Born rule together and adds the properties     *)
(* only a composite system has: marginals of the joint distribution are the local statistics, local gates   *)
(* on product states give independent outcomes, swap exchanges the roles, controlled gates act on bits,    *)
(* and cx turns |+>|0> into a Bell pair with the textbook correlations.                                     *)
EXTENDS QCatalogue, Json, TLC

CONSTANTS States1, Gates2, Locals, Axes2, Emit
VARIABLES prep, gate, meas, phase
qvars == <<prep, gate, meas, phase>>

NU2 == 4                                  \* Tr H_a^2 for every two-qubit Pauli product
H1(tok) == HOf("q", Density(Q1Vec(tok)))  \* H-coordinates of a named one-qubit state
Eff(ax, k) == HOf("q", ProjTok("q", ax \o (IF k = 1 THEN "0" ELSE "1")))   \* effect k of the projective measurement along ax
KronM(A, B) == [i \in 1..(Len(A) * Len(B)) |-> [j \in 1..(Len(A) * Len(B)) |->
                  RMul(A[((i - 1) \div Len(B)) + 1][((j - 1) \div Len(B)) + 1], B[((i - 1) % Len(B)) + 1][((j - 1) % Len(B)) + 1])]]
G1H(tok) == IF tok = "id" THEN MatId(4) ELSE GateH("q", Q1U(tok))
GateMat(g) ==
    CASE g.k = "two" /\ g.n = "id" -> MatId(16)
      [] g.k = "two" -> GateH("qq", GateU("qq", g.n, g.ids))
      [] g.k = "local" -> KronM(G1H(g.a), G1H(g.b))
Gates == {[k |-> "two", n |-> n, ids |-> ids] : <<n, ids>> \in {<<n, ids>> \in Gates2 \X {<<>>, <<0, 1>>, <<1, 0>>} :
                                                      n # "id" /\ ids \in IdsFor("qq", n)}}
         \cup {[k |-> "two", n |-> "id", ids |-> <<>>]}
         \cup {[k |-> "local", a |-> a, b |-> b] : a \in Locals, b \in Locals}

Init == /\ prep \in States1 \X States1 /\ gate \in Gates /\ meas \in Axes2 \X Axes2 /\ phase = 0
Next == phase = 0 /\ phase' = 1 /\ UNCHANGED <<prep, gate, meas>>
Spec == Init /\ [][Next]_qvars

StateIn == KronR(H1(prep[1]), H1(prep[2]))
\* the exact Hilbert-Schmidt matrices, evaluated once (constant level)
GateTab == TLCEval([g \in Gates |-> TLCEval(GateMat(g))])      \* function constructors are lazy: force the table
StateOut == MatVec(GateTab[gate], StateIn)
EffPair(k, l) == KronR(Eff(meas[1], k), Eff(meas[2], l))
Born2(y, x) == RSum([a \in 1..16 |-> RMul(RI(NU2), RMul(y[a], x[a]))])
Joint(x) == [k \in 1..2 |-> [l \in 1..2 |-> Born2(EffPair(k, l), x)]]
One == HOf("q", CMatId(2))                \* identity effect
Local1(x, k) == Born2(KronR(Eff(meas[1], k), One), x)
Local2(x, l) == Born2(KronR(One, Eff(meas[2], l)), x)

Normalised == phase = 1 => LET J == Joint(StateOut) IN RAdd(RAdd(J[1][1], J[1][2]), RAdd(J[2][1], J[2][2])) = ROne
NonNegative == phase = 1 => LET J == Joint(StateOut) IN \A k, l \in 1..2 : RLe(RZero, J[k][l])
\* marginals of the joint distribution are the statistics of the local measurements
Marginals == phase = 1 => LET x == StateOut J == Joint(x) IN
    /\ \A k \in 1..2 : RAdd(J[k][1], J[k][2]) = Local1(x, k)
    /\ \A l \in 1..2 : RAdd(J[1][l], J[2][l]) = Local2(x, l)
\* local gates on product states: independent outcomes
Independence == (phase = 1 /\ gate.k = "local") => LET x == StateOut J == Joint(x) IN
    \A k, l \in 1..2 : J[k][l] = RMul(Local1(x, k), Local2(x, l))
\* swap exchanges the roles of the two qubits
SwapRule == (phase = 1 /\ gate.k = "two" /\ gate.n = "swap") =>
    StateOut = KronR(H1(prep[2]), H1(prep[1]))
\* the catalogue gates are physical: the output is a state (trace one, purity at most one)
OutputIsState == phase = 1 => LET x == StateOut IN
    /\ x[1] = R(1, 4)
    /\ RLe(RSum([a \in 1..16 |-> RSq(x[a])]), R(1, 4))
\* cx makes a Bell pair from |+>|0> (control = first id): perfect correlations in zz and xx, anti-correlation in yy
BellRule == (phase = 1 /\ gate.k = "two" /\ gate.n = "cx" /\ gate.ids = <<0, 1>> /\ prep = <<"x0", "z0">>) =>
    LET J == Joint(StateOut) IN
    /\ (meas \in {<<"z", "z">>, <<"x", "x">>} => J = << <<R(1, 2), RZero>>, <<RZero, R(1, 2)>> >>)
    /\ (meas = <<"y", "y">> => J = << <<RZero, R(1, 2)>>, <<R(1, 2), RZero>> >>)
\* controlled gates on computational inputs act on bits
BitOf(tok) == IF tok = "z0" THEN 0 ELSE 1
CxBits == (phase = 1 /\ gate.k = "two" /\ gate.n = "cx" /\ prep[1] \in {"z0", "z1"} /\ prep[2] \in {"z0", "z1"} /\ meas = <<"z", "z">>) =>
    LET c == IF gate.ids = <<0, 1>> THEN BitOf(prep[1]) ELSE BitOf(prep[2])
        b1 == IF gate.ids = <<0, 1>> THEN BitOf(prep[1]) ELSE (BitOf(prep[1]) + c) % 2
        b2 == IF gate.ids = <<0, 1>> THEN (BitOf(prep[2]) + c) % 2 ELSE BitOf(prep[2])
    IN Joint(StateOut)[b1 + 1][b2 + 1] = ROne

EmitCase == IF ~Emit \/ phase = 0 THEN TRUE ELSE
    PrintT(ToJson([prep |-> prep, gate |-> gate, meas |-> meas, out |-> StateOut, joint |-> Joint(StateOut),
                   m1 |-> [k \in 1..2 |-> Local1(StateOut, k)], m2 |-> [l \in 1..2 |-> Local2(StateOut, l)]]))
=============================================================================
