-------------------------------- MODULE QNum --------------------------------
(***************************************************************************)
(* Exact arithmetic for the specification: rationals <<n, d>> in lowest    *)
(* terms (d > 0), Gaussian rationals <<re, im>>, vectors (sequences) and   *)
(* matrices (sequences of rows).  TLC integers are 32-bit: the models keep *)
(* numerators and denominators small.                                      *)
(***************************************************************************)
EXTENDS Naturals, Integers, Sequences, FiniteSets, SequencesExt, TLC

Abs(x) == IF x < 0 THEN -x ELSE x
RECURSIVE Gcd(_, _)
Gcd(a, b) == IF b = 0 THEN a ELSE Gcd(b, a % b)

\* ---------------------------------------------------------------- rationals
Norm(n, d) == LET s == IF d < 0 THEN -1 ELSE 1
                  g == Gcd(Abs(n), Abs(d))
              IN IF n = 0 THEN <<0, 1>> ELSE <<(s * n) \div g, (s * d) \div g>>
R(n, d) == Norm(n, d)
RI(n) == <<n, 1>>
RZero == <<0, 1>>
ROne == <<1, 1>>
RAdd(a, b) == LET g == Gcd(a[2], b[2]) IN Norm(a[1] * (b[2] \div g) + b[1] * (a[2] \div g), (a[2] \div g) * b[2])
RNeg(a) == <<-a[1], a[2]>>
RSub(a, b) == RAdd(a, RNeg(b))
RMul(a, b) == LET g1 == Gcd(Abs(a[1]), b[2]) g2 == Gcd(Abs(b[1]), a[2]) IN
    IF a[1] = 0 \/ b[1] = 0 THEN <<0, 1>> ELSE Norm((a[1] \div g1) * (b[1] \div g2), (a[2] \div g2) * (b[2] \div g1))
RInv(a) == Norm(a[2], a[1])
RDiv(a, b) == RMul(a, RInv(b))
RLt(a, b) == LET g == Gcd(a[2], b[2]) IN a[1] * (b[2] \div g) < b[1] * (a[2] \div g)
RLe(a, b) == LET g == Gcd(a[2], b[2]) IN a[1] * (b[2] \div g) <= b[1] * (a[2] \div g)
RMax(a, b) == IF RLt(a, b) THEN b ELSE a
RMin(a, b) == IF RLt(a, b) THEN a ELSE b
RAbs(a) == <<Abs(a[1]), a[2]>>
RIsZero(a) == a[1] = 0
RSq(a) == RMul(a, a)

\* folds are used instead of recursion: TLC re-evaluates lazily passed arguments of RECURSIVE operators
RSum(s) == FoldLeft(LAMBDA acc, x : RAdd(acc, x), RZero, s)

\* ---------------------------------------------------------------- rational vectors / matrices
VZero(n) == [i \in 1..n |-> RZero]
VUnit(n, k) == [i \in 1..n |-> IF i = k THEN ROne ELSE RZero]
VAdd(u, v) == [i \in 1..Len(u) |-> RAdd(u[i], v[i])]
VSub(u, v) == [i \in 1..Len(u) |-> RSub(u[i], v[i])]
VScale(c, v) == [i \in 1..Len(v) |-> RMul(c, v[i])]
Dot(u, v) == RSum([i \in 1..Len(u) |-> RMul(u[i], v[i])])
WDot(w, u, v) == RSum([i \in 1..Len(u) |-> RMul(w[i], RMul(u[i], v[i]))])    \* sum w_i u_i v_i
VInt(s) == [i \in 1..Len(s) |-> RI(s[i])]                                    \* integer sequence -> rationals
VRat(s, d) == [i \in 1..Len(s) |-> R(s[i], d)]                               \* integers over a common denominator

Rows(M) == Len(M)
Cols(M) == IF Len(M) = 0 THEN 0 ELSE Len(M[1])
MatVec(M, v) == [i \in 1..Len(M) |-> Dot(M[i], v)]
Col(M, j) == [i \in 1..Len(M) |-> M[i][j]]
Transpose(M) == [j \in 1..Cols(M) |-> Col(M, j)]
MatMul(A, B) == [i \in 1..Len(A) |-> [j \in 1..Cols(B) |-> Dot(A[i], Col(B, j))]]
MatAdd(A, B) == [i \in 1..Len(A) |-> VAdd(A[i], B[i])]
MatSub(A, B) == [i \in 1..Len(A) |-> VSub(A[i], B[i])]
MatScale(c, A) == [i \in 1..Len(A) |-> VScale(c, A[i])]
MatInt(M) == [i \in 1..Len(M) |-> VInt(M[i])]
MatId(n) == [i \in 1..n |-> VUnit(n, i)]
MatZero(n, m) == [i \in 1..n |-> VZero(m)]
Flatten(M) == [k \in 1..(Rows(M) * Cols(M)) |-> M[((k - 1) \div Cols(M)) + 1][((k - 1) % Cols(M)) + 1]]
Reshape(v, r, c) == [i \in 1..r |-> [j \in 1..c |-> v[(i - 1) * c + j]]]
ConcatAll(ss) == FoldLeft(LAMBDA acc, x : acc \o x, <<>>, ss)

\* ---------------------------------------------------------------- rank by rational elimination
MinOf(S) == CHOOSE x \in S : \A y \in S : x <= y
RECURSIVE RankFrom(_, _, _)
RankFrom(M, r, c) ==      \* rows 1..r hold pivots already; c is the column examined next
    IF c > Cols(M) \/ r >= Rows(M) THEN r
    ELSE LET cand == {i \in (r + 1)..Rows(M) : ~RIsZero(M[i][c])} IN
         IF cand = {} THEN RankFrom(M, r, c + 1)
         ELSE LET p == MinOf(cand)
                  sw == [i \in 1..Rows(M) |-> IF i = r + 1 THEN M[p] ELSE IF i = p THEN M[r + 1] ELSE M[i]]
                  piv == sw[r + 1]
                  el == [i \in 1..Rows(M) |-> IF i <= r + 1 THEN sw[i]
                                              ELSE VSub(sw[i], VScale(RDiv(sw[i][c], piv[c]), piv))]
              IN RankFrom(TLCEval(el), r + 1, c + 1)
Rank(M) == IF Rows(M) = 0 THEN 0 ELSE RankFrom(TLCEval(M), 0, 1)

\* ---------------------------------------------------------------- rank modulo a prime (integers only: fast, no overflow)
\* rank over GF(p) is a lower bound of the rational rank and equals it unless p divides a minor;
\* used with two primes below 2^15 (products stay below 2^31).
P1 == 32749
P2 == 32719
Mod(a, p) == ((a % p) + p) % p
RECURSIVE PowMod(_, _, _)
PowMod(a, e, p) == IF e = 0 THEN 1
                   ELSE LET h == PowMod(a, e \div 2, p) hh == (h * h) % p
                        IN IF e % 2 = 1 THEN (hh * a) % p ELSE hh
InvMod(a, p) == PowMod(a, p - 2, p)
ToField(q, p) == (Mod(q[1], p) * InvMod(Mod(q[2], p), p)) % p
RECURSIVE RankModFrom(_, _, _, _)
RankModFrom(M, r, c, p) ==
    IF c > Cols(M) \/ r >= Rows(M) THEN r
    ELSE LET cand == {i \in (r + 1)..Rows(M) : M[i][c] # 0} IN
         IF cand = {} THEN RankModFrom(M, r, c + 1, p)
         ELSE LET q == MinOf(cand)
                  sw == [i \in 1..Rows(M) |-> IF i = r + 1 THEN M[q] ELSE IF i = q THEN M[r + 1] ELSE M[i]]
                  piv == sw[r + 1]
                  inv == InvMod(piv[c], p)
                  el == [i \in 1..Rows(M) |-> IF i <= r + 1 THEN sw[i]
                            ELSE LET f == (sw[i][c] * inv) % p
                                 IN [j \in 1..Cols(M) |-> Mod(sw[i][j] - ((f * piv[j]) % p), p)]]
              IN RankModFrom(TLCEval(el), r + 1, c + 1, p)
RankMod(M, p) == IF Rows(M) = 0 THEN 0
                 ELSE RankModFrom(TLCEval([i \in 1..Rows(M) |-> [j \in 1..Cols(M) |-> ToField(M[i][j], p)]]), 0, 1, p)
RankP(M) == LET a == RankMod(M, P1) b == RankMod(M, P2) IN IF a > b THEN a ELSE b

\* ---------------------------------------------------------------- linear solve (Gauss-Jordan on [M | rhs])
\* M square and non-singular (rows of rationals), rhs a vector; returns x with M x = rhs
RECURSIVE GJ(_, _)
GJ(Aug, c) ==            \* Aug: n x (n+1) augmented matrix, columns 1..c-1 already reduced
    LET n == Len(Aug) IN
    IF c > n THEN [i \in 1..n |-> Aug[i][n + 1]]
    ELSE LET p == MinOf({i \in c..n : ~RIsZero(Aug[i][c])})
             sw == [i \in 1..n |-> IF i = c THEN Aug[p] ELSE IF i = p THEN Aug[c] ELSE Aug[i]]
             piv == VScale(RInv(sw[c][c]), sw[c])
             el == [i \in 1..n |-> IF i = c THEN piv ELSE VSub(sw[i], VScale(sw[i][c], piv))]
         IN GJ(TLCEval(el), c + 1)
Solve(M, rhs) == GJ(TLCEval([i \in 1..Len(M) |-> Append(M[i], rhs[i])]), 1)
\* inverse of a non-singular square matrix: Gauss-Jordan on [M | I]
RECURSIVE GJM(_, _, _)
GJM(Aug, c, n) ==
    IF c > n THEN [i \in 1..n |-> SubSeq(Aug[i], n + 1, Len(Aug[i]))]
    ELSE LET p == MinOf({i \in c..n : ~RIsZero(Aug[i][c])})
             sw == [i \in 1..n |-> IF i = c THEN Aug[p] ELSE IF i = p THEN Aug[c] ELSE Aug[i]]
             piv == VScale(RInv(sw[c][c]), sw[c])
             el == [i \in 1..n |-> IF i = c THEN piv ELSE VSub(sw[i], VScale(sw[i][c], piv))]
         IN GJM(TLCEval(el), c + 1, n)
MatInverse(M) == LET n == Len(M) IN GJM(TLCEval([i \in 1..n |-> M[i] \o VUnit(n, i)]), 1, n)
\* pseudo-inverse (A^T A)^-1 A^T of a matrix of full column rank
LeftInverse(A) == LET At == TLCEval(Transpose(A)) IN MatMul(MatInverse(TLCEval(MatMul(At, A))), At)
\* least squares: argmin |A v - y|^2 for A of full column rank
LeastSquares(A, y) == LET At == Transpose(A) IN Solve(MatMul(At, A), MatVec(At, y))

\* ---------------------------------------------------------------- Gaussian rationals
C(re, im) == <<re, im>>
CI(a, b) == <<RI(a), RI(b)>>            \* a + b i with integers
CZero == <<RZero, RZero>>
COne == <<ROne, RZero>>
CAdd(x, y) == <<RAdd(x[1], y[1]), RAdd(x[2], y[2])>>
CSub(x, y) == <<RSub(x[1], y[1]), RSub(x[2], y[2])>>
CMul(x, y) == <<RSub(RMul(x[1], y[1]), RMul(x[2], y[2])), RAdd(RMul(x[1], y[2]), RMul(x[2], y[1]))>>
CConj(x) == <<x[1], RNeg(x[2])>>
CScale(r, x) == <<RMul(r, x[1]), RMul(r, x[2])>>
CIsReal(x) == RIsZero(x[2])
CSum(s) == FoldLeft(LAMBDA acc, x : CAdd(acc, x), CZero, s)

CDot(u, v) == CSum([i \in 1..Len(u) |-> CMul(u[i], v[i])])
CCol(M, j) == [i \in 1..Len(M) |-> M[i][j]]
CMatMul(A, B) == [i \in 1..Len(A) |-> [j \in 1..Cols(B) |-> CDot(A[i], CCol(B, j))]]
CMatAdd(A, B) == [i \in 1..Len(A) |-> [j \in 1..Cols(A) |-> CAdd(A[i][j], B[i][j])]]
CMatScale(r, A) == [i \in 1..Len(A) |-> [j \in 1..Cols(A) |-> CScale(r, A[i][j])]]
CMatConj(A) == [i \in 1..Len(A) |-> [j \in 1..Cols(A) |-> CConj(A[i][j])]]
CMatT(A) == [j \in 1..Cols(A) |-> [i \in 1..Len(A) |-> A[i][j]]]
Dagger(A) == CMatConj(CMatT(A))
CTrace(A) == CSum([i \in 1..Len(A) |-> A[i][i]])
CMatZero(n, m) == [i \in 1..n |-> [j \in 1..m |-> CZero]]
CMatId(n) == [i \in 1..n |-> [j \in 1..n |-> IF i = j THEN COne ELSE CZero]]
\* Kronecker product
Kron(A, B) == LET ra == Rows(A) ca == Cols(A) rb == Rows(B) cb == Cols(B) IN
    [i \in 1..(ra * rb) |-> [j \in 1..(ca * cb) |->
        CMul(A[((i - 1) \div rb) + 1][((j - 1) \div cb) + 1], B[((i - 1) % rb) + 1][((j - 1) % cb) + 1])]]
\* row-major vectorisation of a complex matrix
CFlatten(M) == [k \in 1..(Rows(M) * Cols(M)) |-> M[((k - 1) \div Cols(M)) + 1][((k - 1) % Cols(M)) + 1]]
\* Hilbert-Schmidt inner product Tr(A^dagger B)
HSInner(A, B) == LET n == Rows(A) m == Cols(A) IN
    CSum([k \in 1..(n * m) |-> CMul(CConj(A[((k - 1) \div m) + 1][((k - 1) % m) + 1]), B[((k - 1) \div m) + 1][((k - 1) % m) + 1])])
\* integer complex matrix given as a matrix of <<re, im>> integer pairs
CMatInt(M) == [i \in 1..Len(M) |-> [j \in 1..Len(M[i]) |-> CI(M[i][j][1], M[i][j][2])]]
IsHermitian(A) == A = Dagger(A)
=============================================================================
