------------------------------- MODULE QLind -------------------------------
(***************************************************************************)
(* Effective Lindbladians (GKSL generators), property C18, exact over the  *)
(* Gaussian rationals, as superoperators in the row-major computational    *)
(* basis (vec(A X B) = (A (x) B^T) vec X).                                 *)
(*   L(rho) = -i[H, rho] + J rho + rho J^dagger + sum_ab K_ab H_a rho H_b^dagger *)
(* with H_a (a >= 1) the traceless elements of the integer Hermitian basis, *)
(* K a Hermitian coefficient matrix (K_lib = sqrt(nu_a nu_b) K_ab in the    *)
(* library's normalised basis) and J = -1/2 sum_ab K_ab H_b^dagger H_a.      *)
(***************************************************************************)
EXTENDS QObjects

CNeg(x) == <<RNeg(x[1]), RNeg(x[2])>>
CI1 == <<RZero, ROne>>            \* the imaginary unit
CMatSub(A, B) == CMatAdd(A, CMatScale(RI(-1), B))
CMatCScale(z, A) == [i \in 1..Len(A) |-> [j \in 1..Cols(A) |-> CMul(z, A[i][j])]]
CCommutator(A, B) == CMatSub(CMatMul(A, B), CMatMul(B, A))
CAnti(A, B) == CMatAdd(CMatMul(A, B), CMatMul(B, A))

\* ---- the GKSL right-hand side, evaluated directly on a matrix X
JMat(K, basis) == LET n == Len(K) d == Len(basis[1]) IN
    CMatScale(R(-1, 2), SumMats(ConcatAll([a \in 1..n |-> [b \in 1..n |->
        CMatCScale(K[a][b], CMatMul(Dagger(basis[b + 1]), basis[a + 1]))]]), d))
Rhs(H, K, basis, X) ==
    LET n == Len(K) d == Len(X)
        ham == CMatCScale(CNeg(CI1), CCommutator(H, X))
        J == JMat(K, basis)
        jp == CMatAdd(CMatMul(J, X), CMatMul(X, Dagger(J)))
        kp == SumMats(ConcatAll([a \in 1..n |-> [b \in 1..n |->
                 CMatCScale(K[a][b], CMatMul(CMatMul(basis[a + 1], X), Dagger(basis[b + 1])))]]), d)
    IN CMatAdd(ham, CMatAdd(jp, kp))
\* jump-operator form: sum_i c_i X c_i^dagger - 1/2 {c_i^dagger c_i, X}
RhsJump(H, cs, X) ==
    LET d == Len(X)
        ham == CMatCScale(CNeg(CI1), CCommutator(H, X))
        dis == SumMats([i \in 1..Len(cs) |->
                 CMatSub(CMatMul(CMatMul(cs[i], X), Dagger(cs[i])), CMatScale(R(1, 2), CAnti(CMatMul(Dagger(cs[i]), cs[i]), X)))], d)
    IN CMatAdd(ham, dis)

\* ---- the three parts as superoperator matrices (row-major computational basis)
HPart(H) == LET d == Len(H) IN CMatCScale(CNeg(CI1), CMatSub(Kron(H, CMatId(d)), Kron(CMatId(d), CMatConj(H))))
JPart(J) == LET d == Len(J) IN CMatAdd(Kron(J, CMatId(d)), Kron(CMatId(d), CMatConj(J)))
KPart(K, basis) == LET n == Len(K) d == Len(basis[1]) IN
    SumMats(ConcatAll([a \in 1..n |-> [b \in 1..n |-> CMatCScale(K[a][b], Kron(basis[a + 1], CMatConj(basis[b + 1])))]]), d * d)
Gksl(H, K, basis) == CMatAdd(HPart(H), CMatAdd(JPart(JMat(K, basis)), KPart(K, basis)))
\* applying a row-major superoperator matrix to a matrix
ApplySuper(S, X) == LET d == Len(X) v == CFlatten(X)
                        w == [r \in 1..(d * d) |-> CDot(S[r], v)]
                    IN [i \in 1..d |-> [j \in 1..d |-> w[(i - 1) * d + j]]]

\* ---- recovering the matrices from the generator (the library's trace formulas, in the integer basis)
\* k_ab = Tr[ L (H_a (x) conj H_b)^dagger-dual ] : coefficient extraction through the orthogonality of H_a (x) conj H_b
KFromL(S, basis, nu) == LET n == Len(basis) - 1 IN
    [a \in 1..n |-> [b \in 1..n |-> CScale(R(1, nu[a + 1] * nu[b + 1]), HSInner(Kron(basis[a + 1], CMatConj(basis[b + 1])), S))]]
\* h_a = (i / (2 d nu_a)) Tr[ L^dagger-free formula ] : H = sum_a h_a H_a with h_a = i/(2 d nu_a) * Tr[S (H_a (x) I - I (x) conj H_a)]
HFromL(S, basis, nu) == LET d == Len(basis[1]) n == Len(basis) IN
    SumMats([a \in 1..n |->
        CMatCScale(CMul(CI1, CScale(R(1, 2 * d * nu[a]), CTrace(CMatMul(S, CMatSub(Kron(basis[a], CMatId(d)), Kron(CMatId(d), CMatConj(basis[a]))))))), basis[a])], d)
\* trace annihilation: every column of S maps to a traceless matrix
TraceAnnihilating(S, d) == \A c \in 1..(d * d) :
    CSum([i \in 1..d |-> S[(i - 1) * d + i][c]]) = CZero
=============================================================================
