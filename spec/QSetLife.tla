------------------------------ MODULE QSetLife ------------------------------
(* Life cycle of an operation set (quara.objects.qoperations.SetQOperations): the four lists of a long-lived   *)
(* set are replaced through their setters, in any order and any number of times.  Everything the set reports   *)
(* - number of variables, the total variable vector, both index conversions, the regenerated set - is a        *)
(* function of the lists it holds NOW (property C03 along histories, C13): the layout after a sequence of      *)
(* assignments is the layout of a set constructed from the current lists.                                      *)
EXTENDS QIndex, TLC, Json

CONSTANTS Pool,          \* mode -> set of candidate lists (sequences of object descriptors)
          Emit
VARIABLES set, last      \* last: the mode assigned by the last step ("none" initially)
svars == <<set, last>>

EmptySet == [k \in Types |-> <<>>]
Pr(mode, l) ==
    IF Emit THEN PrintT(ToJson([from |-> set, act |-> "Assign", arg |-> [mode |-> mode, list |-> l], to |-> set',
                                size |-> TotalSize(set'), total |-> TotalLayout(set')]))
    ELSE TRUE

Init == set = EmptySet /\ last = "none"
Assign(mode, l) ==
    /\ l # set[mode]
    /\ set' = [set EXCEPT ![mode] = l]
    /\ last' = mode
    /\ Pr(mode, l)
Next == \E mode \in Types : \E l \in Pool[mode] : Assign(mode, l)
Spec == Init /\ [][Next]_svars
View == set

\* ------------------------------------------------------------------ properties
Rank(mode) == CHOOSE i \in 1..4 : ModeOrder[i] = mode
TL == TotalLayout(set)
TotalLen == Len(TL) = TotalSize(set)
TotalBijective == LET tl == TL IN \A k \in 1..Len(tl) : TotalIndex(set, tl[k][1], tl[k][2], tl[k][3]) = k - 1
\* an assignment to one mode leaves the other lists alone ...
OneMode == [][\A mode \in Types : mode # last' => set'[mode] = set[mode]]_svars
\* ... keeps the total index of every variable of the modes laid out before it and shifts the later ones by the change of size
Shifted == [][\A mode \in Types : mode # last' =>
                \A item \in 0..(Len(set[mode]) - 1) :
                    \A local \in 0..(NumVar(set[mode][item + 1].T, set[mode][item + 1].d, set[mode][item + 1].m, set[mode][item + 1].para) - 1) :
                        TotalIndex(set', mode, item, local) = TotalIndex(set, mode, item, local)
                            + (IF Rank(mode) > Rank(last') THEN TotalSize(set') - TotalSize(set) ELSE 0)]_svars
=============================================================================
