------------------------------ MODULE QAlgebra ------------------------------
(***************************************************************************)
(* Composition of quantum operations along a time-ordered chain (property  *)
(* C06) in H-coordinates.                                                  *)
(*                                                                         *)
(* The value of a chain segment is [kind, shape, items]:                   *)
(*   kind "C" (channel-like: gates / measurement processes only)           *)
(*        items = superoperator matrices, one per outcome multi-index      *)
(*   kind "S" (starts with the state) items = UNNORMALISED post-measurement*)
(*        states M x (probability = trace), one per outcome multi-index    *)
(*   kind "P" (ends with the POVM) items = effects in the Heisenberg        *)
(*        picture, index (outcomes of the measurement processes, outcome   *)
(*        of the POVM)                                                     *)
(*   kind "D" (state ... POVM) items = probabilities                       *)
(* The outcome multi-index lists the measuring items in TIME order         *)
(* (earlier first), serialised row-major: shape is the sequence of their   *)
(* outcome counts.  Unnormalised states keep everything linear; the        *)
(* library's normalised post states are p^-1 times ours.                   *)
(***************************************************************************)
EXTENDS QObjects, QIndex

Seg(kind, shape, items) == [kind |-> kind, shape |-> shape, items |-> items]
\* elementary items
SegState(x) == Seg("S", <<>>, <<x>>)
SegGate(G) == Seg("C", <<>>, <<G>>)
SegMProcess(Ms) == Seg("C", <<Len(Ms)>>, Ms)
SegPovm(ys) == Seg("P", <<Len(ys)>>, ys)

Composable(later, earlier) ==
    \/ later.kind = "C" /\ earlier.kind \in {"C", "S"}
    \/ later.kind = "P" /\ earlier.kind \in {"C", "S"}
ResultKind(later, earlier) ==
    CASE later.kind = "C" /\ earlier.kind = "C" -> "C"
      [] later.kind = "C" /\ earlier.kind = "S" -> "S"
      [] later.kind = "P" /\ earlier.kind = "C" -> "P"
      [] later.kind = "P" /\ earlier.kind = "S" -> "D"

\* the binary composition  later o earlier ; outcome index: earlier's outcomes major, later's minor
Compose(later, earlier, nu) ==
    LET nl == Len(later.items)
        ne == Len(earlier.items)
        kind == ResultKind(later, earlier)
        item(e, l) ==
            CASE kind = "C" -> MatMul(later.items[l], earlier.items[e])
              [] kind = "S" -> ApplyH(later.items[l], earlier.items[e])
              [] kind = "P" -> HeisenbergH(later.items[l], earlier.items[e], nu)
              [] kind = "D" -> Born(later.items[l], earlier.items[e], nu)
    IN Seg(kind, earlier.shape \o later.shape,
           [k \in 1..(ne * nl) |-> item(((k - 1) \div nl) + 1, ((k - 1) % nl) + 1)])

\* ---------------------------------------------------------------- chains and bracketings
\* chain: sequence of elementary segment values in time order (earliest first)
RECURSIVE FoldChain(_, _, _)
FoldChain(chain, k, nu) ==      \* value of chain[1..k] by applying the items one after the other
    IF k = 1 THEN chain[1] ELSE Compose(chain[k], FoldChain(chain, k - 1, nu), nu)
\* all values obtainable from chain[i..j] by some bracketing
RECURSIVE AllVals(_, _, _, _)
AllVals(chain, i, j, nu) ==
    IF i = j THEN {chain[i]}
    ELSE UNION {{Compose(L, E, nu) : L \in AllVals(chain, k + 1, j, nu), E \in AllVals(chain, i, k, nu)} : k \in i..(j - 1)}

\* ---------------------------------------------------------------- derived quantities
Probabilities(seg, d) ==
    CASE seg.kind = "D" -> seg.items
      [] seg.kind = "S" -> [k \in 1..Len(seg.items) |-> TraceH(seg.items[k], d)]
TotalOf(seg, d) ==
    CASE seg.kind \in {"D", "S"} -> RSum(Probabilities(seg, d))
\* physicality (equality part) of a segment value
SegNormalised(seg, d, n) ==
    CASE seg.kind \in {"D", "S"} -> TotalOf(seg, d) = ROne
      [] seg.kind = "C" -> IsTPH(SumMatsR(seg.items, n))
      [] seg.kind = "P" -> IsPovmSumH(seg.items)
SegNonNegative(seg, d) ==
    CASE seg.kind \in {"D", "S"} -> \A k \in 1..Len(seg.items) : RLe(RZero, Probabilities(seg, d)[k])
      [] OTHER -> TRUE

\* ---------------------------------------------------------------- POVM -> measurement process
\* mode 2 ("measure and prepare"): M_x = |rho_x>> <<Pi_x| : rho |-> Tr(Pi_x rho) rho_x
MeasurePrepareH(y, x, nu) == [a \in 1..Len(x) |-> [b \in 1..Len(y) |-> RMul(x[a], RMul(RI(nu[b]), y[b]))]]
=============================================================================
