------------------------------- MODULE QPool -------------------------------
(***************************************************************************)
(* Hidden state of the library (property C13): the lazily built tables of  *)
(* a composite system, the global tolerance, and re-usable loss-function / *)
(* algorithm objects.  Objects themselves are opaque: the result of a pure *)
(* action is the TERM [act, atol] - a function of the action (which names  *)
(* its operands) and of the tolerance in force, nothing else.  The binding *)
(* requires that equal terms give byte-identical results at any point of   *)
(* any history, and that no operand's snapshot changes.                    *)
(***************************************************************************)
EXTENDS Naturals, Sequences, FiniteSets, TLC, Json

CONSTANTS Tables,        \* names of the cached tables
          Group,         \* Tables -> group name: tables of one group are built together
          PureActs,      \* names of pure operations on the shared pool
          Tomos, Datas, Modes,   \* estimation arguments
          AsCoded,       \* TRUE: model configure steps the way the code orders them (vacuity witness)
          Emit

VARIABLES built,         \* tables known to be built (lower bound: pure operations may build more)
          atol,          \* "default" | "changed"
          loss,          \* the shared loss object: [q, weights, ext, tomo]  ("none" when unset)
          algo,          \* the shared algorithm object: [projFor]           ("none" when unset)
          last           \* observation: the result term of the last call

pvars == <<built, atol, loss, algo, last>>

NoW == <<"none", "none">>
NoneLoss == [q |-> "none", weights |-> NoW, ext |-> NoW, tomo |-> "none"]
NoneAlgo == [projFor |-> "none"]
Term(kind, name, args) == [kind |-> kind, name |-> name, args |-> args, atol |-> atol]

Pr(act, arg, res) ==
    IF Emit THEN PrintT(ToJson([from |-> [built |-> built, atol |-> atol, loss |-> loss, algo |-> algo],
                                act |-> act, arg |-> arg, res |-> res,
                                to |-> [built |-> built', atol |-> atol', loss |-> loss', algo |-> algo']]))
    ELSE TRUE

Init == /\ built = {} /\ atol = "default" /\ loss = NoneLoss /\ algo = NoneAlgo
        /\ last = Term("init", "init", <<>>)

Pure(a) ==
    /\ last' = Term("pure", a, <<>>)
    /\ UNCHANGED <<built, atol, loss, algo>>
    /\ Pr("Pure", [name |-> a], Term("pure", a, <<>>))

Build(t) ==                     \* reading a table that is not built builds its whole group
    /\ built' = IF t \in built THEN built ELSE built \cup {u \in Tables : Group[u] = Group[t]}
    /\ last' = Term("build", "build", <<>>)
    /\ UNCHANGED <<atol, loss, algo>>
    /\ Pr("Build", [table |-> t], Term("build", "build", <<>>))

Delete(t) ==                    \* deleting drops exactly that table
    /\ built' = built \ {t}
    /\ last' = Term("delete", "delete", <<>>)
    /\ UNCHANGED <<atol, loss, algo>>
    /\ Pr("Delete", [table |-> t], Term("delete", "delete", <<>>))

SetAtol ==
    /\ atol = "default" /\ atol' = "changed"
    /\ last' = Term("setatol", "setatol", <<>>)
    /\ UNCHANGED <<built, loss, algo>>
    /\ Pr("SetAtol", [x |-> 0], Term("setatol", "setatol", <<>>))

RestoreAtol ==
    /\ atol = "changed" /\ atol' = "default"
    /\ last' = Term("restoreatol", "restoreatol", <<>>)
    /\ UNCHANGED <<built, loss, algo>>
    /\ Pr("RestoreAtol", [x |-> 0], Term("restoreatol", "restoreatol", <<>>))

\* ------------------------------------------------------------- estimation with re-used objects
\* What a loss object configured from scratch for (tomo, data, mode) holds:
WeightsOf(data, mode) == IF mode = "identity" THEN NoW ELSE <<mode, data>>
Configured(tomo, data, mode) ==
    [q |-> data, weights |-> WeightsOf(data, mode), ext |-> WeightsOf(data, mode), tomo |-> tomo]

\* The configuration steps as the code orders them: options, data, model (the extended weight
\* matrix is derived HERE from whatever weights the object holds), then weights by mode, where
\* "identity" keeps the weights it finds.
AsCodedLoss(tomo, data, mode) ==
    LET w1 == loss.weights
        ext == w1
        w2 == IF mode = "identity" THEN w1 ELSE <<mode, data>>
    IN [q |-> data, weights |-> w2, ext |-> ext, tomo |-> tomo]
AsCodedAlgo(tomo) == IF algo.projFor = "none" THEN [projFor |-> tomo] ELSE algo

Estimate(tomo, data, mode) ==
    /\ atol = "default"
    /\ loss' = IF AsCoded THEN AsCodedLoss(tomo, data, mode) ELSE Configured(tomo, data, mode)
    /\ algo' = IF AsCoded THEN AsCodedAlgo(tomo) ELSE [projFor |-> tomo]
    /\ last' = Term("estimate", "estimate", <<tomo, data, mode>>)
    /\ UNCHANGED <<built, atol>>
    /\ Pr("Estimate", [tomo |-> tomo, data |-> data, mode |-> mode], Term("estimate", "estimate", <<tomo, data, mode>>))

Next == \/ \E a \in PureActs : Pure(a)
        \/ \E t \in Tables : Build(t) \/ Delete(t)
        \/ SetAtol \/ RestoreAtol
        \/ \E tm \in Tomos, d \in Datas, m \in Modes : Estimate(tm, d, m)

Spec == Init /\ [][Next]_pvars
View == <<built, atol, loss, algo>>

\* ------------------------------------------------------------------ properties
\* a re-used loss / algorithm object is indistinguishable from a fresh one configured alike
NoResidue == last.kind = "estimate" =>
    /\ loss = Configured(last.args[1], last.args[2], last.args[3])
    /\ algo = [projFor |-> last.args[1]]
\* the cached extended weights always belong to the weights the object holds
ExtConsistent == loss.ext = loss.weights
\* pure operations and cache management never touch the estimation objects or the tolerance
PureIsPure == [][last'.kind = "pure" => UNCHANGED <<built, atol, loss, algo>>]_pvars
CacheOnly == [][last'.kind \in {"build", "delete"} => UNCHANGED <<atol, loss, algo>>]_pvars
\* set + restore of the tolerance is the identity on everything else
AtolRoundTrip == [][last'.kind \in {"setatol", "restoreatol"} => UNCHANGED <<built, loss, algo>>]_pvars
\* deleting one table never drops another
DeleteExact == [][\A t \in Tables : (last'.kind = "delete" /\ t \in built /\ t \notin built')
                    => built' = built \ {t}]_pvars
=============================================================================
