---------------------------- MODULE QExperiment ----------------------------
(***************************************************************************)
(* The Experiment object as a state machine (property C20, and the         *)
(* experiment part of the system specification Quara.tla).                 *)
(*                                                                         *)
(* lists[k]  : sequence over {"o", "n"} - a real object or a None          *)
(*             placeholder - for each kind k                               *)
(* scheds    : the stored schedule list (sequence of sequences of items)   *)
(* obs       : observation of the last call (what the caller saw)          *)
(***************************************************************************)
EXTENDS QSchedule, TLC, Json

CONSTANTS ListCands,      \* candidate lists a setter may be called with
          SchedCands,     \* candidate schedule lists
          InitLists,      \* set of initial list configurations
          Emit            \* BOOLEAN: print every transition as JSON (for replay)

VARIABLES lists, scheds, obs

evars == <<lists, scheds, obs>>

Sizes(ls) == [k \in Kinds |-> Len(ls[k])]

Verdict(sc, ls) ==
    IF Accept(sc, Sizes(ls)) THEN {"accept"} ELSE AllowedErrors(sc, Sizes(ls))

\* what Run(i) may show
TouchesNone(s, ls) == \E j \in 1..Len(s) : ls[s[j].k][s[j].i + 1] = "n"
RunObs(s, ls) ==
    IF TouchesNone(s, ls) THEN {"none_error"}
    ELSE IF s[Len(s)].k = "povm" THEN {"dist"}
    ELSE {"dist", "other", "error"}          \* ends in a measurement process: unconstrained

Out(act, arg, o) ==
    IF Emit THEN PrintT(ToJson([from |-> [lists |-> lists, scheds |-> scheds],
                                act |-> act, arg |-> arg, allowed |-> o,
                                to |-> [lists |-> lists', scheds |-> scheds']]))
    ELSE TRUE

Init == /\ lists \in InitLists
        /\ scheds \in {sc \in SchedCands : Accept(sc, Sizes(lists))}
        /\ obs = {"accept"}

\* a constructor call that is rejected creates no object: modelled by the trace spec only
SetList(k, new) ==
    LET ls2 == [lists EXCEPT ![k] = new]
        v == Verdict(scheds, ls2) IN
    /\ obs' = v
    /\ IF v = {"accept"} THEN lists' = ls2 ELSE lists' = lists     \* rejected setter: no change
    /\ scheds' = scheds
    /\ Out("SetList", [kind |-> k, new |-> new], v)

SetSchedules(new) ==
    LET v == Verdict(new, lists) IN
    /\ obs' = v
    /\ IF v = {"accept"} THEN scheds' = new ELSE scheds' = scheds
    /\ lists' = lists
    /\ Out("SetSchedules", [new |-> new], v)

Run(i) ==
    /\ i \in 1..Len(scheds)
    /\ obs' = RunObs(scheds[i], lists)
    /\ UNCHANGED <<lists, scheds>>
    /\ Out("Run", [index |-> i - 1], RunObs(scheds[i], lists))

Next == \/ \E k \in Kinds, new \in ListCands : SetList(k, new)
        \/ \E new \in SchedCands : SetSchedules(new)
        \/ \E i \in 1..2 : Run(i)

Spec == Init /\ [][Next]_evars

\* ------------------------------------------------------------------ properties
StoredAcceptable == Accept(scheds, Sizes(lists))
\* a rejected call leaves the state unchanged; an accepted one installs exactly the argument
RejectedUnchanged == [][obs' # {"accept"} /\ obs' \subseteq {"item", "order"} => UNCHANGED <<lists, scheds>>]_evars
View == <<lists, scheds>>
RunPure == [][(\E i \in 1..2 : Run(i)) => UNCHANGED <<lists, scheds>>]_evars
=============================================================================
