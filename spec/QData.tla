------------------------------- MODULE QData -------------------------------
(***************************************************************************)
(* Sampling by inverse CDF and empirical distributions (property C14).     *)
(* Probabilities are k[i]/D (sum k = D), uniforms are j/(2D), j in         *)
(* 0..2D-1: all exactly representable for D a power of two.                *)
(***************************************************************************)
EXTENDS Naturals, Sequences, FiniteSets

RECURSIVE SumTo(_, _)
SumTo(k, i) == IF i = 0 THEN 0 ELSE k[i] + SumTo(k, i - 1)      \* cumulative numerator

\* 0-based outcome for uniform j/(2D): the least i with u < cum_i
RECURSIVE DataFrom(_, _, _)
\* (a uniform at or above the total mass - a sub-normalised vector, or rounding in the cumulative sum - falls through to
\* the LAST outcome of non-zero probability, never to an outcome of probability zero)
LastPositive(k) == IF \E i \in 1..Len(k) : k[i] > 0 THEN CHOOSE i \in 1..Len(k) : k[i] > 0 /\ \A m \in (i + 1)..Len(k) : k[m] = 0 ELSE Len(k)
DataFrom(k, j, i) == IF i > Len(k) THEN LastPositive(k) - 1
                     ELSE IF j < 2 * SumTo(k, i) THEN i - 1 ELSE DataFrom(k, j, i + 1)
Data(k, j) == DataFrom(k, j, 1)

\* empirical distributions: prefix counts.  data: sequence over 0..m-1; numSums: sequence of naturals
Count(data, n, x) == Cardinality({t \in 1..n : data[t] = x})
NumSumsOK(data, numSums) ==
    /\ \A a \in 1..Len(numSums) : numSums[a] <= Len(data) /\ numSums[a] >= 1
    /\ \A a \in 1..(Len(numSums) - 1) : numSums[a] < numSums[a + 1]
DataOK(m, data) == \A t \in 1..Len(data) : data[t] < m
EmpiCounts(m, data, numSums) ==
    [a \in 1..Len(numSums) |-> [n |-> numSums[a], counts |-> [x \in 1..m |-> Count(data, numSums[a], x - 1)]]]
=============================================================================
