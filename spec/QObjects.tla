------------------------------ MODULE QObjects ------------------------------
(***************************************************************************)
(* Quantum objects in H-coordinates (layer A) built from first principles: *)
(* states from kets, POVM elements from kets / matrices, gates and         *)
(* measurement processes from Kraus operators.  sys = sequence of          *)
(* subsystem dimensions (2 or 3) in ascending subsystem name.              *)
(***************************************************************************)
EXTENDS QBasis

\* ---------------------------------------------------------------- matrices from kets
\* c |psi><phi| for kets given as sequences of Gaussian rationals
Outer(c, psi, phi) == [i \in 1..Len(psi) |-> [j \in 1..Len(phi) |-> CScale(c, CMul(psi[i], CConj(phi[j])))]]
Proj(c, psi) == Outer(c, psi, psi)
KetInt(s) == [i \in 1..Len(s) |-> CI(s[i][1], s[i][2])]     \* ket of <<re, im>> integer pairs

\* ---------------------------------------------------------------- H-coordinates of objects
OpH(X, sys) == HCoord(X, BasisOf(sys), NuOf(sys))
\* superoperator rho |-> c * sum_i K_i rho K_i^dagger as a real matrix in H-coordinates:
\* column b is the image of H_b
KrausImage(Ks, c, X) ==
    CMatScale(c, SumMats([i \in 1..Len(Ks) |-> CMatMul(CMatMul(Ks[i], X), Dagger(Ks[i]))], Len(X)))
SuperH(Ks, c, sys) ==
    LET basis == BasisOf(sys)
        cols == [b \in 1..Len(basis) |-> OpH(KrausImage(Ks, c, basis[b]), sys)]
    IN [a \in 1..Len(basis) |-> [b \in 1..Len(basis) |-> cols[b][a]]]

\* ---------------------------------------------------------------- elementary quantum mechanics in H-coordinates
\* Tr(E rho) for E with coordinates y and rho with coordinates x
Born(y, x, nu) == RSum([a \in 1..Len(x) |-> RMul(RI(nu[a]), RMul(y[a], x[a]))])
TraceH(x, d) == RMul(RI(d), x[1])
ApplyH(G, x) == MatVec(G, x)
\* Heisenberg picture: coordinates of G^dagger(E)
HeisenbergH(y, G, nu) == [b \in 1..Len(y) |->
    RMul(R(1, nu[b]), RSum([a \in 1..Len(y) |-> RMul(RI(nu[a]), RMul(y[a], G[a][b]))]))]
\* identity operator, maximally mixed state
IdentityH(n) == VUnit(n, 1)
MixedH(n, d) == VScale(R(1, d), VUnit(n, 1))
\* trace preservation of a superoperator: first row = e_1 ;  sum of a measurement process
IsTPH(G) == G[1] = VUnit(Len(G), 1)
SumMatsR(ms, n) == FoldLeft(LAMBDA acc, x : MatAdd(acc, x), MatZero(n, n), ms)
\* POVM induced by a measurement process: E_k = M_k^dagger(I)
InducedPovmH(Ms, nu) == [k \in 1..Len(Ms) |-> HeisenbergH(IdentityH(Len(nu)), Ms[k], nu)]
IsPovmSumH(ys) == LET n == Len(ys[1]) IN
    [a \in 1..n |-> RSum([k \in 1..Len(ys) |-> ys[k][a]])] = IdentityH(n)

\* ---------------------------------------------------------------- exact catalogue (1 qubit)
K0 == KetInt(<< <<1,0>>, <<0,0>> >>)
K1 == KetInt(<< <<0,0>>, <<1,0>> >>)
KP == KetInt(<< <<1,0>>, <<1,0>> >>)      \* unnormalised |+> (weight 1/2)
KM == KetInt(<< <<1,0>>, <<-1,0>> >>)
KPI == KetInt(<< <<1,0>>, <<0,1>> >>)     \* |+i>
KMI == KetInt(<< <<1,0>>, <<0,-1>> >>)
Q1 == <<2>>
\* Every catalogue entry is a constant-level definition: TLC evaluates it once at start-up.
S_z0 == OpH(Proj(ROne, K0), Q1)
S_z1 == OpH(Proj(ROne, K1), Q1)
S_x0 == OpH(Proj(R(1, 2), KP), Q1)
S_x1 == OpH(Proj(R(1, 2), KM), Q1)
S_y0 == OpH(Proj(R(1, 2), KPI), Q1)
S_y1 == OpH(Proj(R(1, 2), KMI), Q1)
S_mix1 == <<R(1, 2), R(1, 4), R(-1, 8), R(1, 4)>>      \* interior, generic direction
S_mix2 == <<R(1, 2), R(-1, 8), R(1, 4), R(-1, 16)>>
QState(name) ==
    CASE name = "z0" -> S_z0 [] name = "z1" -> S_z1 [] name = "x0" -> S_x0 [] name = "x1" -> S_x1
      [] name = "y0" -> S_y0 [] name = "y1" -> S_y1 [] name = "mix1" -> S_mix1 [] name = "mix2" -> S_mix2
P_z == <<S_z0, S_z1>>
P_x == <<S_x0, S_x1>>
P_y == <<S_y0, S_y1>>
\* three outcomes, rank-1 + full rank, non-commuting
P_p3 == LET e1 == VScale(R(1, 2), S_z0) e2 == VScale(R(1, 2), S_x0) IN <<e1, e2, VSub(IdentityH(4), VAdd(e1, e2))>>
\* four outcomes, rank-1, non-commuting
P_p4 == <<VScale(R(1, 2), S_z0), VScale(R(1, 2), S_z1), VScale(R(1, 2), S_y0), VScale(R(1, 2), S_y1)>>
\* two outcomes, full rank, unsharp
P_u2 == <<<<R(1, 2), R(1, 8), R(1, 8), R(-1, 4)>>, <<R(1, 2), R(-1, 8), R(-1, 8), R(1, 4)>>>>
\* five outcomes incl. a full-rank multiple of the identity
P_p5 == <<VScale(R(1, 2), S_z0), VScale(R(1, 2), S_z1), VScale(R(1, 4), S_x0), VScale(R(1, 4), S_x1), VScale(R(1, 4), IdentityH(4))>>
QPovm(name) ==
    CASE name = "p5" -> P_p5 [] name = "z" -> P_z [] name = "x" -> P_x [] name = "y" -> P_y
      [] name = "p3" -> P_p3 [] name = "p4" -> P_p4 [] name = "u2" -> P_u2
\* unitaries / Kraus sets as integer matrices with a rational prefactor c (on rho: c * sum K rho K^dagger)
U_I == CMatInt(P_I)
U_X == CMatInt(P_X)
U_Y == CMatInt(P_Y)
U_Z == CMatInt(P_Z)
U_H == CMatInt(<< <<<<1,0>>, <<1,0>>>>, <<<<1,0>>, <<-1,0>>>> >>)                  \* c = 1/2
U_S == CMatInt(<< <<<<1,0>>, <<0,0>>>>, <<<<0,0>>, <<0,1>>>> >>)
U_X90 == CMatInt(<< <<<<1,0>>, <<0,-1>>>>, <<<<0,-1>>, <<1,0>>>> >>)               \* c = 1/2
U_Y90 == CMatInt(<< <<<<1,0>>, <<-1,0>>>>, <<<<1,0>>, <<1,0>>>> >>)                \* c = 1/2
\* amplitude damping gamma = 9/25: K0 = diag(1, 4/5), K1 = (3/5)|0><1| ; times 5: integer, c = 1/25
AD0 == CMatInt(<< <<<<5,0>>, <<0,0>>>>, <<<<0,0>>, <<4,0>>>> >>)
AD1 == CMatInt(<< <<<<0,0>>, <<3,0>>>>, <<<<0,0>>, <<0,0>>>> >>)
G_id == SuperH(<<U_I>>, ROne, Q1)
G_x == SuperH(<<U_X>>, ROne, Q1)
G_y == SuperH(<<U_Y>>, ROne, Q1)
G_z == SuperH(<<U_Z>>, ROne, Q1)
G_h == SuperH(<<U_H>>, R(1, 2), Q1)
G_s == SuperH(<<U_S>>, ROne, Q1)
G_x90 == SuperH(<<U_X90>>, R(1, 2), Q1)
G_y90 == SuperH(<<U_Y90>>, R(1, 2), Q1)
G_ad == SuperH(<<AD0, AD1>>, R(1, 25), Q1)
\* depolarising with rate 1/4: (1-p) rho + p I/2 = (1 - 3p/4) rho + (p/4)(X rho X + Y rho Y + Z rho Z)
G_dep == MatAdd(MatScale(R(13, 16), G_id), MatScale(R(1, 16), MatAdd(G_x, MatAdd(G_y, G_z))))
QGate(name) ==
    CASE name = "id" -> G_id [] name = "x" -> G_x [] name = "y" -> G_y [] name = "z" -> G_z
      [] name = "h" -> G_h [] name = "s" -> G_s [] name = "x90" -> G_x90 [] name = "y90" -> G_y90
      [] name = "ad" -> G_ad [] name = "dep" -> G_dep
\* measurement processes: one Kraus set (with prefactor) per outcome
MZ0 == CMatInt(<< <<<<1,0>>, <<0,0>>>>, <<<<0,0>>, <<0,0>>>> >>)
MZ1 == CMatInt(<< <<<<0,0>>, <<0,0>>>>, <<<<0,0>>, <<1,0>>>> >>)
MXP == CMatInt(<< <<<<1,0>>, <<1,0>>>>, <<<<1,0>>, <<1,0>>>> >>)          \* 2|+><+|, c = 1/4
MXM == CMatInt(<< <<<<1,0>>, <<-1,0>>>>, <<<<-1,0>>, <<1,0>>>> >>)
\* |0><+| style "measure and prepare" elements (non-Lueders back-action)
MP01 == CMatInt(<< <<<<0,0>>, <<0,0>>>>, <<<<1,0>>, <<0,0>>>> >>)          \* |1><0|
L_z0 == SuperH(<<MZ0>>, ROne, Q1)
L_z1 == SuperH(<<MZ1>>, ROne, Q1)
L_xp == SuperH(<<MXP>>, R(1, 4), Q1)
L_xm == SuperH(<<MXM>>, R(1, 4), Q1)
MYP == CMatInt(<< <<<<1,0>>, <<0,-1>>>>, <<<<0,1>>, <<1,0>>>> >>)         \* 2|+i><+i|, c = 1/4
MYM == CMatInt(<< <<<<1,0>>, <<0,1>>>>, <<<<0,-1>>, <<1,0>>>> >>)
L_yp == SuperH(<<MYP>>, R(1, 4), Q1)
L_ym == SuperH(<<MYM>>, R(1, 4), Q1)
M_my == <<L_yp, L_ym>>                                                  \* projective y, Lueders
M_mz == <<L_z0, L_z1>>                                                  \* projective z, Lueders
M_mx == <<L_xp, L_xm>>                                                  \* projective x, Lueders
\* three outcomes: (1/2) Lueders |0>, (1/2) |1> detected and flipped to |0>, (1/2) Hadamard channel
M_m3 == <<MatScale(R(1, 2), L_z0), MatScale(R(1, 2), SuperH(<<CMatMul(U_X, MZ1)>>, ROne, Q1)), MatScale(R(1, 2), G_h)>>
\* four outcomes: (1/2) Lueders z  +  (1/2) Lueders x
M_m4 == <<MatScale(R(1, 2), L_z0), MatScale(R(1, 2), L_z1), MatScale(R(1, 2), L_xp), MatScale(R(1, 2), L_xm)>>
M_m5 == <<MatScale(R(1, 2), L_z0), MatScale(R(1, 2), L_z1), MatScale(R(1, 4), L_xp), MatScale(R(1, 4), L_xm), MatScale(R(1, 4), G_id)>>
QMProcess(name) ==
    CASE name = "m5" -> M_m5 [] name = "my" -> M_my [] name = "mz" -> M_mz [] name = "mx" -> M_mx [] name = "m3" -> M_m3 [] name = "m4" -> M_m4
=============================================================================
