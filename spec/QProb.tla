------------------------------- MODULE QProb -------------------------------
(***************************************************************************)
(* Multi-outcome probability bookkeeping (property C16).  A distribution   *)
(* is [shape, w]: w is a sequence of integer weights, serial row-major     *)
(* order; the probability of cell n is w[n+1] / Total(w).  The weight -1   *)
(* stands for a positive entry below the documented zero threshold: the    *)
(* library must treat it as zero and renormalise.                          *)
(***************************************************************************)
EXTENDS QIndex

Tiny == -1
Thr(x) == IF x = Tiny THEN 0 ELSE x        \* thresholding
RECURSIVE SumSeq(_)
SumSeq(s) == IF Len(s) = 0 THEN 0 ELSE Head(s) + SumSeq(Tail(s))
Thresholded(w) == [n \in 1..Len(w) |-> Thr(w[n])]
Total(w) == SumSeq(Thresholded(w))

\* positions (1-based) of the variables kept, ascending
KeepSeq(shape, keep) == SelectSeq([j \in 1..Len(shape) |-> j], LAMBDA j : j \in keep)
SubShape(shape, keep) == LET ks == KeepSeq(shape, keep) IN [j \in 1..Len(ks) |-> shape[ks[j]]]
Project(multi, keep, shape) == LET ks == KeepSeq(shape, keep) IN [j \in 1..Len(ks) |-> multi[ks[j]]]

\* marginal over the removed variables: weights of the kept variables' tensor (thresholded input)
Marginal(shape, w, keep) ==
    LET sh == SubShape(shape, keep)
        tw == Thresholded(w)
    IN [n \in 1..Prod(sh) |->
          SumSeq([k \in 1..Len(tw) |->
                    IF Project(Multi(shape, k - 1), keep, shape) = Multi(sh, n - 1) THEN tw[k] ELSE 0])]

\* conditional on variables `cvars` (set of positions) taking values vals[pos]:
\* weights over the remaining variables, to be normalised by their own total
Conditional(shape, w, cvars, vals) ==
    LET rest == (1..Len(shape)) \ cvars
        sh == SubShape(shape, rest)
        tw == Thresholded(w)
    IN [n \in 1..Prod(sh) |->
          SumSeq([k \in 1..Len(tw) |->
                    LET mi == Multi(shape, k - 1) IN
                    IF (\A p \in cvars : mi[p] = vals[p]) /\ Project(mi, rest, shape) = Multi(sh, n - 1)
                    THEN tw[k] ELSE 0])]

=============================================================================
