-------------------------------- MODULE QOpt --------------------------------
(***************************************************************************)
(* Constrained optima and the backtracking projected-gradient machine      *)
(* (properties C10, C11) in exact arithmetic.                              *)
(***************************************************************************)
EXTENDS QProj

\* exact square roots of rationals that are squares
RECURSIVE ISqrtUp(_, _)
ISqrtUp(n, k) == IF k * k >= n THEN k ELSE ISqrtUp(n, k + 1)
IsSquare(n) == LET r == ISqrtUp(n, 0) IN r * r = n
HasRSqrt(q) == q[1] >= 0 /\ IsSquare(q[1]) /\ IsSquare(q[2])
RSqrt(q) == <<ISqrtUp(q[1], 0), ISqrtUp(q[2], 0)>>

\* ---------------------------------------------------------------- one qubit, H-coordinates x = (x0, x1, x2, x3)
\* X = x0 I + x1 X + x2 Y + x3 Z has the eigenvalues x0 +- |v|, v = (x1, x2, x3)
VNorm2(x) == RAdd(RSq(x[2]), RAdd(RSq(x[3]), RSq(x[4])))
QubitSpectrumDefined(x) == HasRSqrt(VNorm2(x))
QubitSpectrum(x) == LET nv == RSqrt(VNorm2(x)) IN <<RAdd(x[1], nv), RSub(x[1], nv)>>
\* nearest density matrix (Frobenius norm): simplex projection of the spectrum in the eigenframe of X
NearestStateQubit(x) ==
    LET nv == RSqrt(VNorm2(x))
        sp == ProjSimplexV(QubitSpectrum(x))
        nv2 == RMul(R(1, 2), RSub(sp[1], sp[2]))
        sc == IF RIsZero(nv) THEN RZero ELSE RDiv(nv2, nv)
    IN <<R(1, 2), RMul(sc, x[2]), RMul(sc, x[3]), RMul(sc, x[4])>>
IsStateQubit(x) == x[1] = R(1, 2) /\ RLe(VNorm2(x), R(1, 4))
\* stacked-parameter metric for a qubit state: nu_a = 2 for every coordinate
InnerQubit(x, y) == RMul(RI(2), Dot(x, y))

\* ---------------------------------------------------------------- backtracking projected gradient (optimize of PGDB)
\* objective f(x) = sum_rows (A x + b - q)^2  (identity weights), projection onto the simplex (spectral coordinates)
Obj(A, b, q, x) == LET r == VSub(VAdd(MatVec(A, x), b), q) IN Dot(r, r)
Grad(A, b, q, x) == VScale(RI(2), MatVec(Transpose(A), VSub(VAdd(MatVec(A, x), b), q)))
\* the direction of iteration k: y = P(x - grad / mu) - x
Direction(A, b, q, mu, x) == VSub(ProjSimplexV(VSub(x, VScale(RInv(mu), Grad(A, b, q, x)))), x)
\* Armijo test of _is_doing_for_alpha: TRUE = step rejected (halve)
Rejected(A, b, q, gamma, x, y, alpha) ==
    RLt(RAdd(Obj(A, b, q, x), RMul(RMul(gamma, alpha), Dot(y, Grad(A, b, q, x)))), Obj(A, b, q, VAdd(x, VScale(alpha, y))))
RECURSIVE Halvings(_, _, _, _, _, _, _)
Halvings(A, b, q, gamma, x, y, j) ==      \* number of halvings: alpha = 2^-j
    IF j >= 12 \/ ~Rejected(A, b, q, gamma, x, y, R(1, 2 ^ j)) THEN j ELSE Halvings(A, b, q, gamma, x, y, j + 1)
=============================================================================
