------------------------------- MODULE QTester -------------------------------
(* Tester sets of a tomography experiment (quara.objects.tester_typical): a list of named one-system        *)
(* states / projective measurements is expanded over the elemental systems of a composite system into      *)
(* the list of all tensor products, the FIRST system varying slowest (itertools.product order), and       *)
(* optionally passed through the depolarising channel of the whole system.                                 *)
(* What a tomography relies on:                                                                            *)
(*   - every tester is physical; the k-th tester is the product named by the k-th name tuple in row-major   *)
(*     order; a product tester measured on / prepared as a product gives product statistics;                *)
(*   - depolarised testers are the mixtures with the maximally mixed object in proportion p;               *)
(*   - the expanded list is informationally complete on n systems exactly when the list of names is on one  *)
(*     system: rank(list (x) list) = rank(list)^2, and depolarising with p < 1 keeps the rank.              *)
EXTENDS QCatalogue, Json, TLC

CONSTANTS NameLists,      \* set of sequences of state names resp. measurement axes
          TKinds,          \* "state" | "povm"
          NSys,           \* numbers of elemental systems (1, 2)
          Rates,          \* depolarising rates <<num, den>>
          Emit
VARIABLES kind, names, nsys, rate, phase
tvars == <<kind, names, nsys, rate, phase>>

H1(tok) == HOf("q", Density(Q1Vec(tok)))
Eff(ax, k) == HOf("q", ProjTok("q", ax \o (IF k = 1 THEN "0" ELSE "1")))
IsStateName(t) == t \in {"x0", "x1", "y0", "y1", "z0", "z1"}
IsAxis(t) == t \in {"x", "y", "z"}
ListOK(k, l) == \A i \in 1..Len(l) : IF k = "state" THEN IsStateName(l[i]) ELSE IsAxis(l[i])

\* ------------------------------------------------------------------ the expansion
TN(l) == Len(l)
\* index of the k-th tuple (row-major, first system slowest)
TTup(l, n, k) == IF n = 1 THEN <<l[k]>> ELSE <<l[((k - 1) \div TN(l)) + 1], l[((k - 1) % TN(l)) + 1]>>
TCount(l, n) == IF n = 1 THEN TN(l) ELSE TN(l) * TN(l)
StateOf(tp) == IF Len(tp) = 1 THEN H1(tp[1]) ELSE KronR(H1(tp[1]), H1(tp[2]))
\* a product measurement: outcome (k1, k2) at position (k1 - 1) * 2 + k2
PovmOf(tp) == IF Len(tp) = 1 THEN <<Eff(tp[1], 1), Eff(tp[1], 2)>>
              ELSE [o \in 1..4 |-> KronR(Eff(tp[1], ((o - 1) \div 2) + 1), Eff(tp[2], ((o - 1) % 2) + 1))]
\* depolarising channel of the whole system in H-coordinates: identity component kept, the others scaled by 1 - p
TDep(p, x) == [a \in 1..Len(x) |-> IF a = 1 THEN x[a] ELSE RMul(RSub(ROne, p), x[a])]
StateList(l, n, p) == [k \in 1..TCount(l, n) |-> TDep(p, StateOf(TTup(l, n, k)))]
PovmList(l, n, p) == [k \in 1..TCount(l, n) |-> LET pv == PovmOf(TTup(l, n, k)) IN [o \in 1..Len(pv) |-> TDep(p, pv[o])]]

Init == /\ kind \in TKinds /\ names \in NameLists /\ ListOK(kind, names) /\ nsys \in NSys /\ rate \in Rates /\ phase = 0
Next == phase = 0 /\ phase' = 1 /\ UNCHANGED <<kind, names, nsys, rate>>
Spec == Init /\ [][Next]_tvars

\* ------------------------------------------------------------------ properties (operators take the state as parameters: TLCEval)
TDim(n) == IF n = 1 THEN 2 ELSE 4
NuAll(n) == TDim(n)                         \* Tr H_a^2 for every Pauli product
TMixed(n) == [a \in 1..(TDim(n) * TDim(n)) |-> IF a = 1 THEN R(1, TDim(n)) ELSE RZero]
BornT(y, x, n) == RSum([a \in 1..Len(x) |-> RMul(RI(NuAll(n)), RMul(y[a], x[a]))])
TPurity(x, n) == BornT(x, x, n)

StatesPhysical(l, n, p) == LET L == TLCEval(StateList(l, n, p)) IN
    \A k \in 1..Len(L) : L[k][1] = R(1, TDim(n)) /\ RLe(TPurity(L[k], n), ROne)
\* a measurement sums to the identity and each effect has non-negative expectation on every pure product state of the axes
PovmsPhysical(l, n, p) == LET L == TLCEval(PovmList(l, n, p)) IN
    \A k \in 1..Len(L) :
        /\ \A a \in 1..(TDim(n) * TDim(n)) : RSum([o \in 1..Len(L[k]) |-> L[k][o][a]]) = (IF a = 1 THEN ROne ELSE RZero)
        /\ \A o \in 1..Len(L[k]) : RLe(RZero, L[k][o][1])
\* depolarised = mixture with the maximally mixed object
StatesAreMixtures(l, n, p) == LET L == TLCEval(StateList(l, n, p)) L0 == TLCEval(StateList(l, n, RZero)) IN
    \A k \in 1..Len(L) : L[k] = [a \in 1..Len(L[k]) |-> RAdd(RMul(RSub(ROne, p), L0[k][a]), RMul(p, TMixed(n)[a]))]
EffectsAreMixtures(l, n, p) == LET L == TLCEval(PovmList(l, n, p)) L0 == TLCEval(PovmList(l, n, RZero)) IN
    \A k \in 1..Len(L) : \A o \in 1..Len(L[k]) :
        L[k][o] = [a \in 1..Len(L[k][o]) |-> IF a = 1 THEN L0[k][o][1] ELSE RMul(RSub(ROne, p), L0[k][o][a])]
\* rank of the expanded list (all states, resp. all effects of all measurements)
TRows(kd, l, n, p) == IF kd = "state" THEN StateList(l, n, p)
                     ELSE LET L == PovmList(l, n, p) m == Len(L[1]) IN [r \in 1..(Len(L) * m) |-> L[((r - 1) \div m) + 1][((r - 1) % m) + 1]]
RankOf(kd, l, n, p) == Rank(TLCEval(TRows(kd, l, n, p)))
RankMultiplies(kd, l, p) == RankOf(kd, l, 2, p) = RankOf(kd, l, 1, p) * RankOf(kd, l, 1, p)
RankKept(kd, l, n, p) == IF p = ROne THEN RankOf(kd, l, n, p) = 1 ELSE RankOf(kd, l, n, p) = RankOf(kd, l, n, RZero)
Complete(kd, l, n, p) == RankOf(kd, l, n, p) = TDim(n) * TDim(n)
\* product testers give product statistics: Tr[(E1 (x) E2)(rho1 (x) rho2)] = Tr[E1 rho1] Tr[E2 rho2] (ideal testers)
ProductRule(l) ==
    \A s1, s2 \in {"z0", "x1", "y0"} : \A i, j \in 1..TN(l) : \A k1, k2 \in 1..2 :
        LET rho == KronR(H1(s1), H1(s2))
            E == PovmOf(<<l[i], l[j]>>)[(k1 - 1) * 2 + k2]
        IN BornT(E, rho, 2) = RMul(BornT(Eff(l[i], k1), H1(s1), 1), BornT(Eff(l[j], k2), H1(s2), 1))

Physical == phase = 1 => IF kind = "state" THEN StatesPhysical(names, nsys, rate) ELSE PovmsPhysical(names, nsys, rate)
Mixtures == phase = 1 => IF kind = "state" THEN StatesAreMixtures(names, nsys, rate) ELSE EffectsAreMixtures(names, nsys, rate)
RankProduct == (phase = 1 /\ nsys = 2) => RankMultiplies(kind, names, rate)
RankUnderNoise == phase = 1 => RankKept(kind, names, nsys, rate)
Products == (phase = 1 /\ nsys = 2 /\ kind = "povm" /\ rate = RZero) => ProductRule(names)

Tester(kd, l, n, p) == IF kd = "state" THEN StateList(l, n, p) ELSE PovmList(l, n, p)
EmitCase == IF ~Emit \/ phase = 0 THEN TRUE ELSE
    PrintT(ToJson([kind |-> kind, names |-> names, nsys |-> nsys, rate |-> rate, list |-> Tester(kind, names, nsys, rate),
                   rank |-> RankOf(kind, names, nsys, rate), complete |-> Complete(kind, names, nsys, rate)]))
=============================================================================
