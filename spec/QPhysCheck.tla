----------------------------- MODULE QPhysCheck -----------------------------
(* Decision table of the simulation run's built-in physicality check: which constraints an estimator   *)
(* was configured to enforce, and the verdict for a run whose stored estimates violate one constraint.  *)
EXTENDS Naturals, FiniteSets

Estimators == {"lin", "plin", "lsq", "other"}
\* constraints the estimator enforces, hence the constraints the check tests
Enforced(est, para, algoNone, eqFlag, ineqFlag) ==
    CASE est = "plin" -> {"eq", "ineq"}
      [] est = "lin" -> IF para THEN {"eq"} ELSE {}
      [] est = "lsq" -> IF algoNone THEN {} ELSE (IF eqFlag THEN {"eq"} ELSE {}) \cup (IF ineqFlag THEN {"ineq"} ELSE {})
      [] OTHER -> {}
\* thresholds: equality 1e-13-ish (library atol) under the equality parametrisation, 1e-5 otherwise; inequality 1e-5
EqThreshold(para) == IF para THEN "atol" ELSE "1e-5"
\* a row: one stored estimate (rep, idx) violates `viol` at `level` relative to the threshold
Passes(row) == ~(row.viol \in Enforced(row.est, row.para, row.algoNone, row.eqFlag, row.ineqFlag) /\ row.level = "above")
=============================================================================
