------------------------------- MODULE Quara -------------------------------
(* The composed specification: one session of the library in exact arithmetic (one qubit).              *)
(*                                                                                                      *)
(*   Prepare(s, p)      a catalogue state with depolarising noise of rate p           (QObjects, QNoise) *)
(*   Apply(item, p)     a gate or a measurement process (noisy) applied to every branch       (QAlgebra) *)
(*   Tomography         state tomography of every branch with the x, y, z testers: forward model         *)
(*                      from the variable layout, exact data, linear inversion          (QIndex, QTomo)  *)
(*                                                                                                      *)
(* It ties the per-area modules together: the objects that composition and noise produce are the         *)
(* objects the forward model is evaluated on, and the estimate is compared with them.  Invariants:       *)
(* normalisation and positivity of the joint outcome distribution, physicality of every branch state,    *)
(* the sum rule over the last measurement, agreement of the forward model A v + b with the Born rule     *)
(* of the composed circuit, and exact recovery of every branch by linear inversion in both               *)
(* parametrisations.                                                                                     *)
EXTENDS QAlgebra, QNoise, QTomo, TLC, Json

CONSTANTS StateNames, GateNames, MProcNames, Rates, MaxLen, Emit
VARIABLES prep, chain, val
qvars == <<prep, chain, val>>

NU == PauliNu
D == 2
Rate(r) == R(r[1], r[2])
Items == {[k |-> "G", n |-> g] : g \in GateNames} \cup {[k |-> "M", n |-> m] : m \in MProcNames}
NoisyItem(it, r) == IF it.k = "G" THEN SegGate(DepMap(Rate(r), QGate(it.n)))
                    ELSE SegMProcess([x \in 1..Len(QMProcess(it.n)) |-> DepMap(Rate(r), QMProcess(it.n)[x])])

Init == /\ \E s \in StateNames, r \in Rates :
              /\ prep = [n |-> s, p |-> r]
              /\ val = SegState(DepState(Rate(r), QState(s)))
        /\ chain = <<>>
Apply == /\ Len(chain) < MaxLen
         /\ \E it \in Items, r \in Rates :
               /\ chain' = Append(chain, [k |-> it.k, n |-> it.n, p |-> r])
               /\ val' = Compose(NoisyItem(it, r), val, NU)
         /\ UNCHANGED prep
Next == Apply
Spec == Init /\ [][Next]_qvars

\* ---------------------------------------------------------------- branches
Probs == Probabilities(val, D)
Live == {k \in 1..Len(val.items) : Probs[k] # RZero}
Branch(k) == VScale(RInv(Probs[k]), val.items[k])         \* normalised post-measurement state

Normalised == TotalOf(val, D) = ROne
NonNegative == \A k \in 1..Len(val.items) : RLe(RZero, Probs[k])
BranchPhysical == \A k \in Live :
    /\ TraceH(Branch(k), D) = ROne
    /\ RLe(RSum([a \in 1..3 |-> RSq(Branch(k)[a + 1])]), R(1, 4))          \* Bloch vector inside the ball
\* summing over the outcomes of the last measurement gives the previous value pushed through the sum channel
SumRule == (Len(chain) > 0 /\ chain[Len(chain)].k = "M") =>
    LET it == chain[Len(chain)]
        Ms == NoisyItem([k |-> it.k, n |-> it.n], it.p).items
        nl == Len(Ms)
        ne == Len(val.items) \div nl
    IN \A e \in 1..ne :
         LET total == FoldLeft(LAMBDA acc, l : VAdd(acc, val.items[(e - 1) * nl + l]), VZero(4), [l \in 1..nl |-> l])
         IN TraceH(total, D) = RSum([l \in 1..nl |-> Probs[(e - 1) * nl + l]])

\* ---------------------------------------------------------------- tomography of every branch
Qst(para) == [type |-> "qst", sys |-> <<2>>, m |-> 1, para |-> para, states |-> <<>>,
              povms |-> <<P_x, P_y, P_z>>, scheds |-> << <<1, 1>>, <<1, 2>>, <<1, 3>> >>]
VarOf(tomo, x) == VarOfCells(tomo, LAMBDA cell : x[cell[2] + 1])
BornAll(x) == ConcatAll([j \in 1..3 |-> Compose(SegPovm(Qst(TRUE).povms[j]), SegState(x), NU).items])
ForwardModelIsBorn == \A k \in Live : \A para \in BOOLEAN :
    ModelAll(Qst(para), VarOf(Qst(para), Branch(k))) = BornAll(Branch(k))
InversionRecovers == \A k \in Live : \A para \in BOOLEAN :
    LET tm == Qst(para)
        A == MatA(tm)
        f == BornAll(Branch(k))
    IN LeastSquares(A, VSub(f, VecB(tm))) = VarOf(tm, Branch(k))

EmitSession == IF ~Emit THEN TRUE ELSE
    PrintT(ToJson([prep |-> prep, chain |-> chain, shape |-> val.shape, items |-> val.items, probs |-> Probs,
                   live |-> {k - 1 : k \in Live},
                   branches |-> [k \in 1..Len(val.items) |-> IF k \in Live THEN Branch(k) ELSE <<>>],
                   born |-> [k \in 1..Len(val.items) |-> IF k \in Live THEN BornAll(Branch(k)) ELSE <<>>]]))
=============================================================================
