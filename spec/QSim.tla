-------------------------------- MODULE QSim --------------------------------
(* Monte-Carlo simulation flow: seed tree, task pools at four nested parallel levels, generator and     *)
(* loss-function objects with identity (shared or copied), and the two entry points.                    *)
(*                                                                                                      *)
(* Levels (standard_qtomography_simulation_flow):                                                       *)
(*   1 per_sample_unit         S(s)      generate true / tester objects from the sample's stream,       *)
(*   2 per_data_generation     D(s,r)    draw the data of repetition r from the r-th data stream,       *)
(*   3 per_estimator_unit      U(s,c)    one estimator case,                                            *)
(*   4 per_estimator_execution E(s,c,r)  estimate from data(s,r); loss-minimisation cases first store   *)
(*                                       the data in the loss object (Set), then optimise (Opt).        *)
(* joblib runs the outermost level with n_jobs > 1 on processes (arguments are copied at dispatch),     *)
(* a level nested inside one parallel level on threads (objects are shared, steps interleave), deeper   *)
(* nesting sequentially.  Random values are symbolic: a draw is the pair <<stream, position>>.          *)
EXTENDS Naturals, Sequences, FiniteSets, TLC

CONSTANTS NSample, NRep, NCase, LossCases, Draws,
          PrivateCopies,      \* estimation tasks work on private copies of loss / algo
          ParSet              \* the configurations [ps, pd, pu, pe] of n_jobs per level to explore

VARIABLES par,                \* [ps, pd, pu, pe]: configured n_jobs per level (chosen initially)
          sst, dst, ust, est_, \* task status per level
          tru,                \* tru[s]: the draw that generated the true object (plus testers) of sample s
          qpos,               \* position of the sample's object-generation stream object
          data,               \* data[s][r]: sequence of draws
          loss,               \* loss[o]: data currently stored in loss object o (o = <<s, c>> or <<s, c, r>> for private copies)
          est,                \* est[s][c][r]: estimate = <<c, data it was computed from>>
          sched               \* history of released steps (for replay), hidden by the VIEW
vars == <<par, sst, dst, ust, est_, tru, qpos, data, loss, est, sched>>
view == <<par, sst, dst, ust, est_, tru, qpos, data, loss, est>>

Samples == 1..NSample
Reps == 1..NRep
Cases == 1..NCase
None == <<>>

\* ---------------------------------------------------------------- backends
Par(n) == n > 1
B1 == IF Par(par.ps) THEN "proc" ELSE "seq"
B2 == IF ~Par(par.pd) THEN "seq" ELSE IF Par(par.ps) THEN "thread" ELSE "proc"
B3 == IF ~Par(par.pu) THEN "seq" ELSE IF Par(par.ps) THEN "thread" ELSE "proc"
B4 == IF ~Par(par.pe) THEN "seq"
      ELSE IF Par(par.ps) /\ Par(par.pu) THEN "seq"
      ELSE IF Par(par.ps) \/ Par(par.pu) THEN "thread" ELSE "proc"
Width(b, n) == IF b = "seq" THEN 1 ELSE n

\* ---------------------------------------------------------------- seed tree
QStream(s) == <<"q", s>>            \* s-th child of SeedSequence(seed_qoperation)
DStream(r) == <<"d", r>>            \* r-th child of SeedSequence(seed_data): the same streams for every sample
DrawsOf(stream, from, n) == [k \in 1..n |-> <<stream, from + k - 1>>]

\* ---------------------------------------------------------------- expected (schedule-free) results
ExpTrue(s) == <<QStream(s), 0>>
ExpData(s, r) == <<ExpTrue(s), DrawsOf(DStream(r), 0, Draws)>>
ExpEst(s, c, r) == <<c, ExpData(s, r)>>

\* ---------------------------------------------------------------- flow
Init ==
    /\ par \in ParSet
    /\ sst = [s \in Samples |-> "new"]
    /\ dst = [s \in Samples |-> [r \in Reps |-> "new"]]
    /\ ust = [s \in Samples |-> [c \in Cases |-> "new"]]
    /\ est_ = [s \in Samples |-> [c \in Cases |-> [r \in Reps |-> "new"]]]
    /\ tru = [s \in Samples |-> None]
    /\ qpos = [s \in Samples |-> 0]
    /\ data = [s \in Samples |-> [r \in Reps |-> None]]
    /\ loss = [o \in {} |-> None]
    /\ est = [s \in Samples |-> [c \in Cases |-> [r \in Reps |-> None]]]
    /\ sched = <<>>

Step(name, id) == sched' = Append(sched, <<name>> \o id)

\* in-order dispatch with a bounded number of running tasks
CanStart(st, idx, width, started(_), running(_)) ==
    /\ \A j \in 1..(idx - 1) : started(j)
    /\ Cardinality({j \in DOMAIN st : running(j)}) < width

\* level 1: the sample task generates its objects and the data streams, then opens the data pool
StartS(s) ==
    /\ sst[s] = "new"
    /\ CanStart(sst, s, Width(B1, par.ps), LAMBDA j : sst[j] # "new", LAMBDA j : sst[j] \notin {"new", "done"})
    /\ sst' = [sst EXCEPT ![s] = "data"]
    /\ tru' = [tru EXCEPT ![s] = <<QStream(s), qpos[s]>>]
    /\ qpos' = [qpos EXCEPT ![s] = @ + 1]
    /\ Step("StartS", <<s>>)
    /\ UNCHANGED <<par, dst, ust, est_, data, loss, est>>

\* level 2: one repetition's data from its own stream object (positions start at 0: the object is fresh)
RunD(s, r) ==
    /\ sst[s] = "data" /\ dst[s][r] = "new"
    /\ CanStart(dst[s], r, Width(B2, par.pd), LAMBDA j : dst[s][j] # "new", LAMBDA j : FALSE)
    /\ dst' = [dst EXCEPT ![s][r] = "done"]
    /\ data' = [data EXCEPT ![s][r] = <<tru[s], DrawsOf(DStream(r), 0, Draws)>>]
    /\ Step("RunD", <<s, r>>)
    /\ UNCHANGED <<par, sst, ust, est_, tru, qpos, loss, est>>

MidS(s) ==
    /\ sst[s] = "data" /\ \A r \in Reps : dst[s][r] = "done"
    /\ sst' = [sst EXCEPT ![s] = "cases"]
    /\ Step("MidS", <<s>>)
    /\ UNCHANGED <<par, dst, ust, est_, tru, qpos, data, loss, est>>

\* level 3
StartU(s, c) ==
    /\ sst[s] = "cases" /\ ust[s][c] = "new"
    /\ CanStart(ust[s], c, Width(B3, par.pu), LAMBDA j : ust[s][j] # "new", LAMBDA j : ust[s][j] = "run")
    /\ ust' = [ust EXCEPT ![s][c] = "run"]
    /\ Step("StartU", <<s, c>>)
    /\ UNCHANGED <<par, sst, dst, est_, tru, qpos, data, loss, est>>

\* level 4: the loss object of the task: the setting's object (shared by the repetitions of one case)
\* or a private copy; under the process backend every task owns a copy in any case
LossObj(s, c, r) == IF PrivateCopies \/ B4 = "proc" THEN <<s, c, r>> ELSE <<s, c>>
Stored(o) == IF o \in DOMAIN loss THEN loss[o] ELSE None
ERunning(s, c, j) == est_[s][c][j] \in {"set", "opt"}
EStart(s, c, r) == CanStart(est_[s][c], r, Width(B4, par.pe), LAMBDA j : est_[s][c][j] # "new", LAMBDA j : ERunning(s, c, j))

\* linear estimators: one atomic step from the task's own data
RunE(s, c, r) ==
    /\ c \notin LossCases
    /\ ust[s][c] = "run" /\ est_[s][c][r] = "new" /\ EStart(s, c, r)
    /\ est_' = [est_ EXCEPT ![s][c][r] = "done"]
    /\ est' = [est EXCEPT ![s][c][r] = <<c, data[s][r]>>]
    /\ Step("RunE", <<s, c, r>>)
    /\ UNCHANGED <<par, sst, dst, ust, tru, qpos, data, loss>>

SetE(s, c, r) ==
    /\ c \in LossCases
    /\ ust[s][c] = "run" /\ est_[s][c][r] = "new" /\ EStart(s, c, r)
    /\ est_' = [est_ EXCEPT ![s][c][r] = "opt"]
    /\ LET o == LossObj(s, c, r) IN loss' = [x \in DOMAIN loss \cup {o} |-> IF x = o THEN data[s][r] ELSE loss[x]]
    /\ Step("SetE", <<s, c, r>>)
    /\ UNCHANGED <<par, sst, dst, ust, tru, qpos, data, est>>

OptE(s, c, r) ==
    /\ est_[s][c][r] = "opt"
    /\ est_' = [est_ EXCEPT ![s][c][r] = "done"]
    /\ est' = [est EXCEPT ![s][c][r] = <<c, Stored(LossObj(s, c, r))>>]
    /\ Step("OptE", <<s, c, r>>)
    /\ UNCHANGED <<par, sst, dst, ust, tru, qpos, data, loss>>

EndU(s, c) ==
    /\ ust[s][c] = "run" /\ \A r \in Reps : est_[s][c][r] = "done"
    /\ ust' = [ust EXCEPT ![s][c] = "done"]
    /\ Step("EndU", <<s, c>>)
    /\ UNCHANGED <<par, sst, dst, est_, tru, qpos, data, loss, est>>

EndS(s) ==
    /\ sst[s] = "cases" /\ \A c \in Cases : ust[s][c] = "done"
    /\ sst' = [sst EXCEPT ![s] = "done"]
    /\ Step("EndS", <<s>>)
    /\ UNCHANGED <<par, dst, ust, est_, tru, qpos, data, loss, est>>

Next == \/ \E s \in Samples : StartS(s) \/ MidS(s) \/ EndS(s)
        \/ \E s \in Samples, r \in Reps : RunD(s, r)
        \/ \E s \in Samples, c \in Cases : StartU(s, c) \/ EndU(s, c)
        \/ \E s \in Samples, c \in Cases, r \in Reps : RunE(s, c, r) \/ SetE(s, c, r) \/ OptE(s, c, r)
Spec == Init /\ [][Next]_vars /\ WF_vars(Next)

Finished == \A s \in Samples : sst[s] = "done"

\* ---------------------------------------------------------------- properties
\* the result table is a function of the settings and seeds only (no schedule, no worker count)
Reproducible == Finished =>
    /\ \A s \in Samples : tru[s] = ExpTrue(s)
    /\ \A s \in Samples, r \in Reps : data[s][r] = ExpData(s, r)
    /\ \A s \in Samples, c \in Cases, r \in Reps : est[s][c][r] = ExpEst(s, c, r)
\* an estimate is always computed from the data of its own repetition
OwnData == \A s \in Samples, c \in Cases, r \in Reps : est[s][c][r] # None => est[s][c][r] = <<c, data[s][r]>>
\* repetitions draw from pairwise different streams
DrawSet(d) == IF d = None THEN {} ELSE {d[2][k] : k \in 1..Len(d[2])}
RepsIndependent == \A s \in Samples : \A r1, r2 \in Reps : r1 # r2 => DrawSet(data[s][r1]) \cap DrawSet(data[s][r2]) = {}
\* samples draw their objects from different streams
SamplesIndependent == \A s1, s2 \in Samples : (s1 # s2 /\ tru[s1] # None /\ tru[s2] # None) => tru[s1] # tru[s2]
\* the width of each pool is respected
WidthRespected == /\ Cardinality({s \in Samples : sst[s] \notin {"new", "done"}}) <= Width(B1, par.ps)
                  /\ \A s \in Samples : Cardinality({c \in Cases : ust[s][c] = "run"}) <= Width(B3, par.pu)
                  /\ \A s \in Samples, c \in Cases : Cardinality({r \in Reps : ERunning(s, c, r)}) <= Width(B4, par.pe)
Terminates == <>Finished

=============================================================================
