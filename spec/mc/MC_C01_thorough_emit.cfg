SPECIFICATION Spec
CONSTANT Types = {"state", "povm", "gate", "mprocess"}
CONSTANT Shapes = {"q", "t", "qq", "qt"}
CONSTANT Classes = {"interior", "pure", "rankdef", "mixedrank", "faint"}
CONSTANT Ks = {2, 5, 8, 10, 13}
CONSTANT Emit = TRUE
CONSTANT EmitLags = {0, 1, 3}

INVARIANT EmitCase
