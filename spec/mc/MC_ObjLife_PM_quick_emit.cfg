SPECIFICATION Spec
CONSTANT Kinds <- PairPM
CONSTANT Reads <- QuickReads
CONSTANT Emit = TRUE
VIEW View
