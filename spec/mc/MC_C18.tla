------------------------------- MODULE MC_C18 -------------------------------
(* C18: effective Lindbladians.  States: a Hamiltonian, a dissipator coefficient matrix (or a set of   *)
(* jump operators); the Prepare step assembles the generator; invariants compare it with the GKSL      *)
(* right-hand side on every matrix unit and check decomposition / recomposition.                       *)
EXTENDS QLind, TLC, Json

CONSTANTS HNames, KNames, JumpNames, Emit
VARIABLES hn, kn, jn, gen
vars == <<hn, kn, jn, gen>>

B2 == PauliBasis
NU2 == PauliNu
CIm(a, b) == <<R(a, 1), R(b, 1)>>
CR(n, d) == <<R(n, d), RZero>>
Ham(n) == CASE n = "zero" -> CMatZero(2, 2)
            [] n = "z" -> CMatScale(R(1, 2), CMatInt(P_Z))
            [] n = "xy" -> CMatAdd(CMatScale(R(1, 4), CMatInt(P_X)), CMatScale(R(-1, 3), CMatInt(P_Y)))
            [] n = "y3" -> CMatScale(RI(3), CMatInt(P_Y))
            [] n = "gen" -> << <<CR(3, 10), <<R(1, 5), R(-1, 4)>>>>, <<<<R(1, 5), R(1, 4)>>, CR(-1, 10)>> >>     \* with identity component
\* dissipator coefficient matrices in the integer basis (X, Y, Z)
KMat(n) == CASE n = "zero" -> CMatZero(3, 3)
             [] n = "diag" -> << <<CR(1, 4), CZero, CZero>>, <<CZero, CR(1, 8), CZero>>, <<CZero, CZero, CR(1, 2)>> >>
             \* rank one: v v^dagger with v = (1, i, 0)/2  (amplitude damping direction)
             [] n = "rank1" -> << <<CR(1, 4), <<RZero, R(-1, 4)>>, CZero>>, <<<<RZero, R(1, 4)>>, CR(1, 4), CZero>>, <<CZero, CZero, CZero>> >>
             [] n = "dense" -> << <<CR(1, 2), <<R(1, 8), R(1, 8)>>, CR(-1, 8)>>, <<<<R(1, 8), R(-1, 8)>>, CR(1, 2), <<RZero, R(1, 16)>>>>, <<CR(-1, 8), <<RZero, R(-1, 16)>>, CR(1, 4)>> >>
             [] n = "indefinite" -> << <<CR(1, 4), CZero, CZero>>, <<CZero, CR(-1, 4), CZero>>, <<CZero, CZero, CZero>> >>
             \* indefinite with genuinely complex eigenvectors: eigenvalues 3/4, -1/4, 1/8
             [] n = "indefc" -> << <<CR(1, 4), <<RZero, R(1, 2)>>, CZero>>, <<<<RZero, R(-1, 2)>>, CR(1, 4), CZero>>, <<CZero, CZero, CR(1, 8)>> >>
             \* rank two, complex
             [] n = "rank2" -> << <<CR(1, 2), <<RZero, R(-1, 4)>>, CR(1, 4)>>, <<<<RZero, R(1, 4)>>, CR(1, 4), CZero>>, <<CR(1, 4), CZero, CR(1, 4)>> >>
KIsPsd(n) == n \notin {"indefinite", "indefc"}
SM == CMatInt(<< <<<<0,0>>, <<1,0>>>>, <<<<0,0>>, <<0,0>>>> >>)        \* |0><1|
Jumps(n) == CASE n = "none" -> <<>>
              [] n = "damping" -> <<CMatScale(R(3, 5), SM)>>
              [] n = "two" -> <<CMatScale(R(1, 2), SM), CMatScale(R(1, 3), CMatInt(P_Z))>>
              \* jump operators WITH a trace (an identity component): D[c' + a I] = D[c'] - i[H_a, .], H_a = (i/2)(a* c' - a c'^dagger)
              [] n = "traceful" -> << << <<CR(1, 4), CR(1, 2)>>, <<CZero, CR(1, 4)>> >>, << <<<<RZero, R(1, 3)>>, CZero>>, <<CR(1, 3), CZero>> >> >>
              [] n = "four" -> <<CMatScale(R(1, 2), SM), CMatScale(R(1, 2), Dagger(SM)), CMatScale(R(1, 4), CMatInt(P_X)), << <<CR(1, 3), <<RZero, R(1, 3)>>>>, <<CZero, CR(-1, 3)>> >> >>

IdxR(k) == <<((k - 1) \div 2) + 1, ((k - 1) % 2) + 1>>
Init == /\ hn \in HNames /\ kn \in KNames /\ jn \in JumpNames /\ gen = <<>>
        /\ (jn = "none" \/ (kn = "zero" /\ hn = "zero"))      \* jump-operator generators carry no Hamiltonian in the library
Prepare == /\ gen = <<>>
           /\ gen' = IF jn = "none" THEN Gksl(Ham(hn), KMat(kn), B2)
                     ELSE [r \in 1..4 |-> [c \in 1..4 |->
                             RhsJump(CMatZero(2, 2), Jumps(jn), Eij(2, IdxR(c)[1], IdxR(c)[2]))[IdxR(r)[1]][IdxR(r)[2]]]]
           /\ UNCHANGED <<hn, kn, jn>>
Next == Prepare
Spec == Init /\ [][Next]_vars

Ready == gen # <<>>
Units == {Eij(2, i, j) : i, j \in 1..2}
\* the assembled generator acts on every matrix unit as the GKSL equation prescribes
ActsAsGksl == (Ready /\ jn = "none") => \A X \in Units : ApplySuper(gen, X) = Rhs(Ham(hn), KMat(kn), B2, X)
\* trace annihilation
TraceZero == Ready => TraceAnnihilating(gen, 2)
\* decomposition: the dissipator matrix and the traceless part of the Hamiltonian are recovered, and recomposition reproduces L
KRecovered == (Ready /\ jn = "none") => KFromL(gen, B2, NU2) = KMat(kn)
Traceless(H) == CMatSub(H, CMatCScale(CScale(R(1, 2), CTrace(H)), CMatId(2)))
HRecovered == (Ready /\ jn = "none") => HFromL(gen, B2, NU2) = Traceless(Ham(hn))
Recomposes == Ready => Gksl(HFromL(gen, B2, NU2), KFromL(gen, B2, NU2), B2) = gen
PartsSum == (Ready /\ jn = "none") => CMatAdd(HPart(Ham(hn)), CMatAdd(JPart(JMat(KMat(kn), B2)), KPart(KMat(kn), B2))) = gen
\* the jump-operator generator has a positive semidefinite (Gram) dissipator matrix: K = sum_i c^i (c^i)^dagger in coordinates
JumpKIsGram == (Ready /\ jn # "none") =>
    LET cs == Jumps(jn)
        coef == [i \in 1..Len(cs) |-> [a \in 1..3 |-> CScale(R(1, 2), HSInner(B2[a + 1], cs[i]))]]
    IN KFromL(gen, B2, NU2) = [a \in 1..3 |-> [b \in 1..3 |-> CSum([i \in 1..Len(cs) |-> CMul(coef[i][a], CConj(coef[i][b]))])]]

EmitCase == IF Emit /\ Ready THEN
               PrintT(ToJson([h |-> hn, k |-> kn, j |-> jn, H |-> Ham(hn), K |-> KMat(kn), psd |-> KIsPsd(kn), jumps |-> Jumps(jn),
                              L |-> gen, hpart |-> HPart(HFromL(gen, B2, NU2)), kpart |-> KPart(KFromL(gen, B2, NU2), B2),
                              jmat |-> JMat(KFromL(gen, B2, NU2), B2), hmat |-> HFromL(gen, B2, NU2), kmat |-> KFromL(gen, B2, NU2)]))
            ELSE TRUE
=============================================================================
