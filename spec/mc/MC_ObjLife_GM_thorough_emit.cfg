SPECIFICATION Spec
CONSTANT Kinds <- PairGM
CONSTANT Reads <- AllReads
CONSTANT Emit = TRUE
VIEW View
