SPECIFICATION Spec
CONSTANT Ns = {2, 3}
CONSTANT GridNum <- QuickGrid
CONSTANT GridDen = 2
CONSTANT K = 5
CONSTANT ListNs = {4, 8, 12}
CONSTANT NList = 12
CONSTANT Emit = TRUE

INVARIANT EmitCase
