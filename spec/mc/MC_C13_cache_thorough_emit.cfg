SPECIFICATION Spec
CONSTANT Tables <- MCTables
CONSTANT Group <- MCGroup
CONSTANT PureActs <- AllPure
CONSTANT Tomos = {}
CONSTANT Datas = {}
CONSTANT Modes = {}
CONSTANT AsCoded = FALSE
CONSTANT Emit = TRUE
VIEW View
