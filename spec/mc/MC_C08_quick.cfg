SPECIFICATION Spec
CONSTANT Types4 = {"qst", "povmt", "qpt", "qmpt"}
CONSTANT StateSets = {"S4", "Smix"}
CONSTANT PovmSets = {"P3", "Pmix"}
CONSTANT SchedVariants = {"all", "permrep"}
CONSTANT Ms = {2, 3}
CONSTANT Emit = FALSE
INVARIANT ModelEqualsCircuit
INVARIANT OneColumnPerVariable
INVARIANT NormalisedOnConstraint
INVARIANT PhysModelEqualsCircuit
INVARIANT EmitCase
