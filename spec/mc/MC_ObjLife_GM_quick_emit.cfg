SPECIFICATION Spec
CONSTANT Kinds <- PairGM
CONSTANT Reads <- QuickReads
CONSTANT Emit = TRUE
VIEW View
