SPECIFICATION Spec
CONSTANT Kinds <- PairPM
CONSTANT Reads <- AllReads
CONSTANT Emit = TRUE
VIEW View
