SPECIFICATION Spec
CONSTANT Ns = {2, 3, 4}
CONSTANT GridNum <- QuickGrid
CONSTANT GridDen = 2
CONSTANT NObjs = 60
CONSTANT Dims = {2, 3, 4}
CONSTANT Emit = FALSE
INVARIANT IneqFeasible
INVARIANT IneqIdempotent
INVARIANT IneqFixedIffFeasible
INVARIANT IneqNearest
INVARIANT IneqHomogeneous
INVARIANT EqFeasible
INVARIANT EqIdempotent
INVARIANT EqFixedIffFeasible
INVARIANT EqResidualOrthogonal
INVARIANT EmitCase
