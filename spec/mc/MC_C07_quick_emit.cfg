SPECIFICATION Spec
CONSTANT NameSets <- QuickNameSets
CONSTANT DimChoices = {2, 3}
CONSTANT Emit = TRUE
CONSTANT FullLayoutMax = 800
INVARIANT EmitCase
