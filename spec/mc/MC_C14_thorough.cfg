SPECIFICATION Spec
CONSTANT Seeds = {0, 11}
CONSTANT GenIds = {"g1", "g2", "g3"}
CONSTANT GenSeed <- MCGenSeed
CONSTANT EPs <- AllEPs
CONSTANT MaxCalls = 3
CONSTANT Emit = FALSE
INVARIANT SeededDeterministic
INVARIANT GeneratorAdvances
INVARIANT GlobalAdvances
INVARIANT TwinGenerators
PROPERTY GlobalUntouched
PROPERTY OthersUntouched
PROPERTY StreamsGrow
