------------------------------- MODULE MC_C12 -------------------------------
(* C12: loss values, derivatives and fast paths.  A state = configuration (model kept in the     *)
(* state), a dataset, a weighting mode and a point; the loss quantities are computed once by the  *)
(* step that enters the state.                                                                   *)
EXTENDS MC_C08, QLoss

CONSTANTS Modes, NPoints, NDatasets
VARIABLES mdl, step, lq      \* lq: the loss quantities of the current (data, mode, point)
vars12 == <<tomo, cand, mdl, step, lq>>

Sizes(tm) == [s \in 1..Len(tm.scheds) |-> NOut(tm, s)]
NV(tm) == TNumVar(tm)
\* data: dyadic frequencies k/8 (so that exact sums keep small denominators); the last dataset has a zero entry
NSamp == 4
\* sample sizes differ between schedules (perfect squares): 4, 16, 4, 16, ...
NSampOf(sch) == IF sch % 2 = 1 THEN 4 ELSE 16
Pattern8(n, d) == CASE n = 2 -> (CASE d % 3 = 1 -> <<3, 5>> [] d % 3 = 2 -> <<1, 7>> [] OTHER -> <<6, 2>>)
                    [] n = 3 -> (CASE d % 3 = 1 -> <<1, 2, 5>> [] d % 3 = 2 -> <<3, 3, 2>> [] OTHER -> <<4, 1, 3>>)
                    [] n = 4 -> (CASE d % 3 = 1 -> <<1, 1, 2, 4>> [] d % 3 = 2 -> <<2, 3, 2, 1>> [] OTHER -> <<1, 4, 1, 2>>)
                    [] n = 5 -> <<1, 1, 2, 3, 1>>
                    [] n = 6 -> <<1, 1, 2, 1, 2, 1>>
                    [] OTHER -> [o \in 1..n |-> IF o = 1 THEN 8 - (n - 1) ELSE 1]
Freq(tm, d) == ConcatAll([s \in 1..Len(tm.scheds) |->
    LET n == Sizes(tm)[s]
        raw == Pattern8(n, d + s)
        z == 1 + (s % n)
    IN IF d = NDatasets /\ n >= 2
       THEN [o \in 1..n |-> IF o = z THEN RZero ELSE IF o = 1 + (z % n) THEN R(raw[o] + raw[z], 8) ELSE R(raw[o], 8)]
       ELSE VRat(raw, 8)])
\* counts with total NSamp = 4 per schedule for the covariance modes (positive entries, one pattern per size so
\* that the exact weights keep small denominators; 4 is a perfect square: 4^(3/2) = 8); sizes up to 4 only
Pattern4(n, d) == CASE n = 2 -> IF d % 2 = 1 THEN <<1, 3>> ELSE <<2, 2>>
                    [] n = 3 -> IF d % 2 = 1 THEN <<1, 1, 2>> ELSE <<2, 1, 1>>
                    [] n = 4 -> <<1, 1, 1, 1>>
                    [] OTHER -> [o \in 1..n |-> 1]
Freq16(tm, d) == ConcatAll([s \in 1..Len(tm.scheds) |-> VRat(Pattern4(Sizes(tm)[s], d), NSamp)])
CovOK(tm) == \A s \in 1..Len(tm.scheds) : Sizes(tm)[s] <= 4
\* points: 1 = an interior physical catalogue object (predictions k/8: relative entropy is evaluated there),
\* 2 = a point outside the physical set (dyadic), 3 = a far dyadic point
Interior == CASE tomo.type = "qst" -> "mix1"
              [] tomo.type = "povmt" -> (CASE tomo.m = 2 -> "u2" [] tomo.m = 3 -> "p3" [] tomo.m = 4 -> "p4" [] tomo.m = 5 -> "p5")
              [] tomo.type = "qpt" -> "dep"
              [] tomo.type = "qmpt" -> (CASE tomo.m = 2 -> "mz" [] tomo.m = 3 -> "m3" [] tomo.m = 4 -> "m4" [] tomo.m = 5 -> "m5")
Point(tm, k) == IF k = 1 THEN PhysVar(Interior)
                ELSE IF k = 2 THEN LET a == PhysVar(Interior) IN [i \in 1..NV(tm) |-> RAdd(a[i], R((i % 3) - 1, 4))]
                ELSE [i \in 1..NV(tm) |-> R((i % 5) - 2, 2)]
CustomW(tm) == [s \in 1..Len(tm.scheds) |-> LET n == Sizes(tm)[s] IN
    [i \in 1..n |-> [j \in 1..n |-> IF i = j THEN RI(2 + ((s + i) % 3)) ELSE R(((i + j + s) % 3) - 1, 2)]]]
Customw(tm) == [s \in 1..Len(tm.scheds) |-> R(1 + (s % 4), 2)]

Quantities(tm, m, d, mode, k) ==
    LET sizes == Sizes(tm)
        cov == mode \in {"inverse_sample_covariance", "inverse_unbiased_covariance"}
        q == IF cov THEN Freq16(tm, d) ELSE Freq(tm, d)
        v == Point(tm, k)
        W == CASE mode = "identity" -> IdentityW(sizes)
               [] mode = "custom" -> CustomW(tm)
               [] OTHER -> [s \in 1..Len(sizes) |-> InvCovWeight(Block(q, sizes, s), NSampOf(s), mode = "inverse_unbiased_covariance")]
        w == IF mode = "custom" THEN Customw(tm) ELSE [s \in 1..Len(sizes) |-> ROne]
        pred == Predict(m.A, m.b, v)
        reok == ~cov /\ \A r \in 1..Len(m.A) : RLt(R(1, 1000), pred[r])
    IN [d |-> d, mode |-> mode, k |-> k, q |-> q, v |-> v, W |-> W, w |-> w, n |-> [s \in 1..Len(sizes) |-> NSampOf(s)],
        p |-> Predict(m.A, m.b, v),
        seValue |-> SEValue(m.A, m.b, sizes, q, W, v),
        seGrad |-> SEGradient(m.A, m.b, sizes, q, W, v),
        seHess |-> SEHessian(m.A, sizes, W),
        reOK |-> reok,
        reTerms |-> IF reok THEN RETerms(m.A, m.b, sizes, q, w, v) ELSE <<>>,
        reGradCoef |-> IF reok THEN REGradCoef(m.A, m.b, sizes, q, w, v) ELSE <<>>,
        reHessCoef |-> IF reok THEN REHessCoef(m.A, m.b, sizes, q, w, v) ELSE <<>>]

Steps == {<<d, mode, k>> : d \in 1..NDatasets, mode \in Modes, k \in 1..NPoints}
NoModel == [A |-> <<>>, b |-> <<>>]
Init12 == Init /\ mdl = NoModel /\ step = <<0, "none", 0>> /\ lq = <<>>
Prepare == /\ step[1] = 0 /\ step' = <<0, "ready", 0>>
           /\ mdl' = [A |-> TLCEval(MatA(tomo)), b |-> VecB(tomo)]
           /\ UNCHANGED <<tomo, cand, lq>>
Evaluate == /\ step[2] = "ready"
            /\ \E st \in Steps : /\ (st[2] \in {"inverse_sample_covariance", "inverse_unbiased_covariance"} => CovOK(tomo))
                                 /\ step' = st
                                 /\ lq' = Quantities(tomo, mdl, st[1], st[2], st[3])
            /\ UNCHANGED <<tomo, cand, mdl>>
Next12 == Prepare \/ Evaluate
Spec12 == Init12 /\ [][Next12]_vars12

Have == step[1] > 0
\* squared error is a quadratic: central differences are exact
\*   f(v + e_i) - f(v - e_i) = 2 grad_i ,   f(v + e_i) - 2 f(v) + f(v - e_i) = hess_ii
SEDerivativesExact == Have => LET sizes == Sizes(tomo) nv == NV(tomo) IN
    \A i \in {1, nv, (nv \div 2) + 1} :
        LET fp == SEValue(mdl.A, mdl.b, sizes, lq.q, lq.W, VAdd(lq.v, VUnit(nv, i)))
            fm == SEValue(mdl.A, mdl.b, sizes, lq.q, lq.W, VSub(lq.v, VUnit(nv, i)))
        IN /\ RSub(fp, fm) = RMul(RI(2), lq.seGrad[i])
           /\ RSub(RAdd(fp, fm), RMul(RI(2), lq.seValue)) = lq.seHess[i][i]
\* weights are symmetric; every mode other than identity changes the weights on this data
WeightsSymmetric == Have => \A s \in 1..Len(lq.W) : lq.W[s] = Transpose(lq.W[s])
ModeTakesEffect == (Have /\ lq.mode # "identity") => lq.W # IdentityW(Sizes(tomo))
\* the inverse-covariance weight inverts the regularised covariance block
InvCovIsInverse == (Have /\ lq.mode \in {"inverse_sample_covariance", "inverse_unbiased_covariance"}) =>
    \A s \in 1..Len(lq.W) :
        LET qs == Block(lq.q, Sizes(tomo), s) m == Len(qs)
            blk == CovBlock(qs, IF lq.mode = "inverse_unbiased_covariance" THEN NSampOf(s) - 1 ELSE NSampOf(s))
            ext == [i \in 1..(m - 1) |-> [j \in 1..(m - 1) |-> IF i = j THEN RAdd(blk[i][j], R(1, Pow32(NSampOf(s)))) ELSE blk[i][j]]]
            lead == [i \in 1..(m - 1) |-> SubSeq(lq.W[s][i], 1, m - 1)]
        IN MatMul(ext, lead) = MatId(m - 1)
\* relative entropy: at q = p (exact data) the gradient vanishes on the constraint-preserving directions: checked by the harness
HessianSymmetric == Have => lq.seHess = Transpose(lq.seHess)
\* relative entropy: Hessian coefficients are non-negative (convexity) and g_r = - h_r p_r
RECoefConsistent == (Have /\ lq.reOK) => \A r \in 1..Len(lq.p) :
    /\ RLe(RZero, lq.reHessCoef[r])
    /\ lq.reGradCoef[r] = RNeg(RMul(lq.reHessCoef[r], lq.p[r]))
\* at least one relative-entropy evaluation happens per configuration family (vacuity guard is in the harness)

EmitCase12 == IF Emit /\ Have
              THEN PrintT(ToJson([tomo |-> [type |-> tomo.type, sys |-> tomo.sys, m |-> tomo.m, para |-> tomo.para, tag |-> tomo.tag,
                                            states |-> tomo.states, povms |-> tomo.povms, scheds |-> tomo.scheds],
                                  sizes |-> Sizes(tomo), lq |-> lq]))
              ELSE TRUE
=============================================================================
