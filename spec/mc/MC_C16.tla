------------------------------- MODULE MC_C16 -------------------------------
(* C16: (a) index maps on all shapes (machine: the shape grows by one variable per step);  *)
(*      (b) weight tensors built cell by cell; marginals / conditionals as invariants.     *)
EXTENDS QProb, TLC, Json

CONSTANTS MaxVars, MaxVal,        \* (a) shapes with <= MaxVars variables of 1..MaxVal values
          TShapes, Weights,       \* (b) tensor shapes and the weights a cell may take
          Emit

QuickShapes == {<<2>>, <<3>>, <<2, 2>>, <<2, 3>>, <<1, 2, 2>>, <<2, 1, 2>>}
ThoroughShapes == QuickShapes \cup {<<3, 2>>, <<2, 1, 3>>, <<4>>, <<5>>, <<2, 4>>, <<4, 2>>, <<2, 2, 2>>, <<1, 1, 2, 2>>, <<2, 1, 2, 2>>}
QuickWeights == {0, 1, 2, Tiny}
ThoroughWeights == {0, 1, 3, Tiny}

VARIABLES phase, shape, w
vars == <<phase, shape, w>>

Init == \/ phase = "shape" /\ shape = <<>> /\ w = <<>>
        \/ phase = "tensor" /\ shape \in TShapes /\ w = <<>>

GrowShape == /\ phase = "shape" /\ Len(shape) < MaxVars
             /\ \E v \in 1..MaxVal : shape' = Append(shape, v)
             /\ UNCHANGED <<phase, w>>
FillCell == /\ phase = "tensor" /\ Len(w) < Prod(shape)
            /\ \E x \in Weights : w' = Append(w, x)
            /\ UNCHANGED <<phase, shape>>
Next == GrowShape \/ FillCell
Spec == Init /\ [][Next]_vars

\* ---------------------------------------------------------------- (a)
SerialMultiInverse == phase = "shape" =>
    /\ \A n \in 0..(Prod(shape) - 1) : Serial(shape, Multi(shape, n)) = n
    /\ \A mi \in AllMulti(shape) : Multi(shape, Serial(shape, mi)) = mi
    /\ Cardinality(AllMulti(shape)) = Prod(shape)
\* row-major: the last variable varies fastest, the first slowest
RowMajor == phase = "shape" /\ Len(shape) > 0 =>
    \A mi \in AllMulti(shape) :
        /\ mi[Len(shape)] + 1 < shape[Len(shape)] =>
              Serial(shape, [mi EXCEPT ![Len(shape)] = @ + 1]) = Serial(shape, mi) + 1
        /\ mi[1] + 1 < shape[1] =>
              Serial(shape, [mi EXCEPT ![1] = @ + 1]) = Serial(shape, mi) + Prod(Tail(shape))
InRange == phase = "shape" => \A n \in 0..(Prod(shape) - 1) :
    \A j \in 1..Len(shape) : Multi(shape, n)[j] \in 0..(shape[j] - 1)

\* ---------------------------------------------------------------- (b)
Complete == phase = "tensor" /\ Len(w) = Prod(shape)
Positions == 1..Len(shape)
\* assignments to a set of variable positions
MaxOf(sh) == IF Len(sh) = 0 THEN 1 ELSE CHOOSE x \in {sh[j] : j \in 1..Len(sh)} : \A j \in 1..Len(sh) : sh[j] <= x
Assignments(cv) == [cv -> 0..(MaxOf(shape) - 1)]
ValidAssign(cv, vals) == \A p \in cv : vals[p] < shape[p]

MarginalTotal == Complete => \A keep \in SUBSET Positions :
    SumSeq(Marginal(shape, w, keep)) = Total(w)
MarginalOfMarginal == Complete => \A keep \in SUBSET Positions : \A keep2 \in SUBSET (1..Cardinality(keep)) :
    LET ks == KeepSeq(shape, keep)
        inner == {ks[j] : j \in keep2}
    IN Marginal(SubShape(shape, keep), Marginal(shape, w, keep), keep2) = Marginal(shape, w, inner)
\* joint = marginal x conditional, cross-multiplied:  w(a,b) * Tot(cond) = marg(a) * cond(b)  when marg(a) > 0
ChainRule == Complete => \A cv \in SUBSET Positions : \A vals \in Assignments(cv) :
    ValidAssign(cv, vals) =>
        LET rest == Positions \ cv
            cond == Conditional(shape, w, cv, vals)
            marg == Marginal(shape, w, cv)
            a == Serial(SubShape(shape, cv), [j \in 1..Cardinality(cv) |-> vals[KeepSeq(shape, cv)[j]]])
            tw == Thresholded(w)
        IN /\ SumSeq(cond) = marg[a + 1]
           /\ \A k \in 1..Len(tw) :
                 LET mi == Multi(shape, k - 1) IN
                 (\A p \in cv : mi[p] = vals[p]) =>
                    tw[k] = cond[Serial(SubShape(shape, rest), Project(mi, rest, shape)) + 1]

VA(cv) == {v \in [cv -> 0..(MaxOf(shape) - 1)] : ValidAssign(cv, v)}
EmitCase ==
    IF ~Emit \/ ~Complete THEN TRUE
    ELSE PrintT(ToJson([shape |-> shape, w |-> w, total |-> Total(w),
           margs |-> {[keep |-> KeepSeq(shape, keep), shape |-> SubShape(shape, keep), w |-> Marginal(shape, w, keep)]
                        : keep \in SUBSET Positions},
           conds |-> UNION {{[vars |-> KeepSeq(shape, cv), vals |-> [j \in 1..Cardinality(cv) |-> vals[KeepSeq(shape, cv)[j]]],
                       shape |-> SubShape(shape, Positions \ cv), w |-> Conditional(shape, w, cv, vals)]
                        : vals \in VA(cv)} : cv \in SUBSET Positions}]))
=============================================================================
