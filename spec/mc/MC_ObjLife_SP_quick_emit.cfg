SPECIFICATION Spec
CONSTANT Kinds <- PairSP
CONSTANT Reads <- QuickReads
CONSTANT Emit = TRUE
VIEW View
