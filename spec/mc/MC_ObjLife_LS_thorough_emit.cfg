SPECIFICATION Spec
CONSTANT Kinds <- PairLS
CONSTANT Reads <- AllReads
CONSTANT Emit = TRUE
VIEW View
