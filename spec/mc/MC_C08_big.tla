----------------------------- MODULE MC_C08_big -----------------------------
(* C08 on larger systems: one qutrit (Gell-Mann coordinates, nu_a not all equal) and two qubits.  The         *)
(* testers come from the exact catalogue (QCatalogue: kets with Gaussian-integer amplitudes), the model and     *)
(* the circuit side from QTomo, unchanged.  Row / block sizes d and d*d coincide only for one qubit, and the    *)
(* normalised Gell-Mann basis is the first one whose H-coordinates are not a uniform rescaling of the           *)
(* library's.  Same emission format as MC_C08.                                                                   *)
EXTENDS QTomo, TLC, Json
Cat == INSTANCE QCatalogue

CONSTANTS Configs, Paras, Emit
VARIABLES tomo, cand
vars == <<tomo, cand>>

SysOf(s) == IF s = "t" THEN <<3>> ELSE <<2, 2>>
TState(s, tok) == Cat!HOf(s, Cat!ProjTok(s, tok))
QQState(n) == Cat!HOf("qq", Cat!Density(Cat!StateVec("qq", n)))
TPovm(s, tok) == LET es == Cat!PovmSingle(tok) IN [k \in 1..Len(es) |-> Cat!HOf(s, es[k])]
QQPovm(n) == LET es == Cat!PovmElems(n) IN [k \in 1..Len(es) |-> Cat!HOf("qq", es[k])]

TStates == [i \in 1..9 |-> TState("t", <<"01z0", "12z0", "02z1", "01x0", "01y0", "12x0", "12y0", "02x0", "02y0">>[i])]
TPovms == [j \in 1..7 |-> TPovm("t", <<"01x3", "01y3", "z3", "12x3", "12y3", "02x3", "02y3">>[j])]
QTok == <<"x0", "y0", "z0", "z1">>
QQStates == [k \in 1..16 |-> QQState(<<QTok[((k - 1) \div 4) + 1], QTok[((k - 1) % 4) + 1]>>)]
Ax == <<"x", "y", "z">>
QQPovms == [k \in 1..9 |-> QQPovm(<<Ax[((k - 1) \div 3) + 1], Ax[((k - 1) % 3) + 1]>>)]

AllScheds(type, ns, np) ==
    CASE type = "qst"   -> [j \in 1..np |-> <<1, j>>]
      [] type = "povmt" -> [i \in 1..ns |-> <<i, 1>>]
      [] OTHER          -> [k \in 1..(ns * np) |-> <<((k - 1) \div np) + 1, ((k - 1) % np) + 1>>]
\* a configuration name: <system>_<type>[_m]
MkTomo(c, para) ==
    LET s == IF c \in {"t_qst", "t_povmt_2", "t_povmt_3", "t_qpt"} THEN "t" ELSE "qq"
        type == CASE c \in {"t_qst", "qq_qst"} -> "qst" [] c \in {"t_povmt_2", "t_povmt_3", "qq_povmt_4"} -> "povmt" [] c = "t_qpt" -> "qpt"
        m == CASE c = "t_povmt_2" -> 2 [] c = "t_povmt_3" -> 3 [] c = "qq_povmt_4" -> 4 [] OTHER -> 1
        states == IF s = "t" THEN TStates ELSE QQStates
        povms == IF s = "t" THEN TPovms ELSE QQPovms
    IN [type |-> type, sys |-> SysOf(s), m |-> m, para |-> para,
        states |-> IF type = "qst" THEN <<>> ELSE states,
        povms |-> IF type = "povmt" THEN <<>> ELSE povms,
        scheds |-> AllScheds(type, Len(states), Len(povms)),
        tag |-> <<c, "cat", "all">>]

Init == tomo \in {MkTomo(c, para) : c \in Configs, para \in Paras} /\ cand = 0
\* candidates: origin, first / middle / last unit vector, one dense vector
Next == cand < 4 /\ cand' = cand + 1 /\ UNCHANGED tomo
Spec == Init /\ [][Next]_vars

CandOf(t, k) == LET nv == TNumVar(t) IN
    CASE k = 0 -> VZero(nv) [] k = 1 -> VUnit(nv, 1) [] k = 2 -> VUnit(nv, (nv \div 2) + 1) [] k = 3 -> VUnit(nv, nv)
      [] OTHER -> [i \in 1..nv |-> R((i % 5) - 2, (i % 3) + 1)]
ModelOk(t, k) == LET v == TLCEval(CandOf(t, k)) IN ModelAll(t, v) = CircuitAll(t, v)
ModelEqualsCircuit == ModelOk(tomo, cand)
OneColumnPerVariable == cand = 0 => LET A == MatA(tomo) IN Cols(A) = TNumVar(tomo) /\ Rows(A) = Len(RowList(tomo)) /\ Len(VecB(tomo)) = Rows(A)

PhysNames(t) == IF t.sys = <<3>>
    THEN (CASE t.type = "qst" -> {"01z0", "12x1", "02y0"} [] t.type = "povmt" -> (IF t.m = 2 THEN {"z2"} ELSE {"z3", "12y3"}) [] t.type = "qpt" -> {})
    ELSE (CASE t.type = "qst" -> {"bell_phi_plus", "x0_z1"} [] t.type = "povmt" -> {"bell", "x_z"})
PhysObj(t, n) ==
    IF t.sys = <<3>> THEN (IF t.type = "qst" THEN TState("t", n) ELSE TPovm("t", n))
    ELSE (CASE t.type = "qst" -> (IF n = "bell_phi_plus" THEN QQState(<<"bell_phi_plus">>) ELSE QQState(<<"x0", "z1">>))
            [] t.type = "povmt" -> (IF n = "bell" THEN QQPovm(<<"bell">>) ELSE QQPovm(<<"x", "z">>)))
PhysVar(t, n) == LET o == PhysObj(t, n) IN
    CASE t.type = "qst" -> VarOfCells(t, LAMBDA c : o[c[2] + 1])
      [] t.type = "povmt" -> VarOfCells(t, LAMBDA c : o[c[1] + 1][c[2] + 1])
PhysOk(t) == \A n \in PhysNames(t) : LET v == TLCEval(PhysVar(t, n)) IN ModelAll(t, v) = CircuitAll(t, v)
PhysModelEqualsCircuit == cand = 0 => PhysOk(tomo)

EmitIt(t) == LET A == TLCEval(MatA(t)) IN
    PrintT(ToJson([tomo |-> t, A |-> A, b |-> VecB(t), numvar |-> TNumVar(t), rank |-> RankP(A),
                   phys |-> {[name |-> n, obj |-> PhysObj(t, n), var |-> PhysVar(t, n), dist |-> CircuitAll(t, PhysVar(t, n))] : n \in PhysNames(t)}]))
EmitCase == IF Emit /\ cand = 0 THEN EmitIt(tomo) ELSE TRUE
=============================================================================
