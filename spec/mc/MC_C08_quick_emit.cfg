SPECIFICATION Spec
CONSTANT Types4 = {"qst", "povmt", "qpt", "qmpt"}
CONSTANT StateSets = {"S4", "Smix"}
CONSTANT PovmSets = {"P3", "Pmix"}
CONSTANT SchedVariants = {"all", "permrep"}
CONSTANT Ms = {2, 3}
CONSTANT Emit = TRUE
INVARIANT EmitCase
CONSTRAINT OnlyFirst
