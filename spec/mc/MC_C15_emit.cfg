SPECIFICATION Spec
CONSTANT NSample = 2
CONSTANT NRep = 2
CONSTANT NCase = 2
CONSTANT LossCases = {2}
CONSTANT Draws = 2
CONSTANT PrivateCopies = TRUE
CONSTANT ParSet <- ParInteresting
CONSTANT Emit = TRUE
INVARIANT Reproducible
INVARIANT OwnData
INVARIANT EmitSched
