SPECIFICATION Spec
CONSTANT Tables <- QuickTables
CONSTANT Group <- MCGroup
CONSTANT PureActs <- QuickPure
CONSTANT Tomos = {"qst", "povmt"}
CONSTANT Datas = {"d1", "d2"}
CONSTANT Modes = {"identity", "custom", "inverse_sample_covariance", "identity+eqonly"}
CONSTANT AsCoded = TRUE
CONSTANT Emit = FALSE
INVARIANT NoResidue
INVARIANT ExtConsistent
PROPERTY PureIsPure
PROPERTY CacheOnly
PROPERTY AtolRoundTrip
PROPERTY DeleteExact
