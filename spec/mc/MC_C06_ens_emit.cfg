SPECIFICATION Spec
CONSTANT MaxLen = 3
CONSTANT Emit = TRUE
CONSTANT StateNames = {"z0", "y1", "mix1"}
CONSTANT GateNames = {}
CONSTANT MProcNames = {"mz", "m3", "m4"}
CONSTANT PovmNames = {}
CONSTANT GenModes = {}
INVARIANT Associative
INVARIANT ShapeIsTimeOrder
INVARIANT EmitCase
