SPECIFICATION Spec
CONSTANT NameSets <- FourNameSets
CONSTANT DimChoices = {2}
CONSTANT Emit = FALSE
CONSTANT FullLayoutMax = 800
INVARIANT KronBijective
INVARIANT KronIsRowMajor
INVARIANT FoldIsCanonical
INVARIANT EmitCase
