----------------------------- MODULE MC_SetLife -----------------------------
EXTENDS QSetLife
D(T, m, para) == [T |-> T, d |-> 2, m |-> m, para |-> para]
QuickPool == [mode \in Types |->
    CASE mode = "state" -> {<<>>, <<D("state", 1, TRUE)>>, <<D("state", 1, FALSE), D("state", 1, TRUE)>>}
      [] mode = "gate" -> {<<>>, <<D("gate", 1, TRUE)>>, <<D("gate", 1, FALSE)>>}
      [] mode = "povm" -> {<<>>, <<D("povm", 2, TRUE)>>, <<D("povm", 3, FALSE), D("povm", 2, TRUE)>>}
      [] mode = "mprocess" -> {<<>>, <<D("mprocess", 2, TRUE)>>, <<D("mprocess", 3, TRUE), D("mprocess", 2, FALSE)>>}]
ThoroughPool == [mode \in Types |-> QuickPool[mode] \cup
    (CASE mode = "state" -> {<<D("state", 1, TRUE), D("state", 1, TRUE), D("state", 1, FALSE)>>}
       [] mode = "gate" -> {<<D("gate", 1, TRUE), D("gate", 1, FALSE)>>}
       [] mode = "povm" -> {<<D("povm", 2, FALSE)>>, <<D("povm", 4, TRUE), D("povm", 3, TRUE)>>}
       [] mode = "mprocess" -> {<<D("mprocess", 2, FALSE), D("mprocess", 2, TRUE)>>})]
=============================================================================
