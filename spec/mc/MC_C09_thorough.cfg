SPECIFICATION Spec9
CONSTANT Types4 = {"qst", "povmt", "qpt", "qmpt"}
CONSTANT StateSets = {"S4", "S6", "S3", "Smix"}
CONSTANT PovmSets = {"P3", "Pmix", "P2", "Pu"}
CONSTANT SchedVariants = {"all", "subset", "permrep"}
CONSTANT Ms = {2, 3}
CONSTANT NData = 5
CONSTANT SolveMax = 4
CONSTANT Emit = TRUE
INVARIANT ResidualOrthogonal
INVARIANT InvertsModel
INVARIANT RecoversPhysicalSmall
INVARIANT RankAsExpected
INVARIANT HasNulls
INVARIANT EmitCase9
