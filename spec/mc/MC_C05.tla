------------------------------- MODULE MC_C05 -------------------------------
(* C05: physical projection.  The Dykstra-type machine of calc_proj_physical in exact rational    *)
(* arithmetic on spectral coordinates, K sweeps from every grid point, both projection orders.    *)
EXTENDS QProj, TLC, Json

CONSTANTS Ns,          \* vector lengths
          GridNum, GridDen,   \* grid values GridNum / GridDen
          K, Emit,
          ListNs, NList       \* additional start vectors: a deterministic list for longer vectors
QuickGrid == {-3, -1, 0, 1, 2, 4}
ThoroughGrid == {-4, -3, -2, -1, 0, 1, 2, 3, 4}

VARIABLES u0, order, s
vars == <<u0, order, s>>

GridVals == {R(g, GridDen) : g \in GridNum}
Grid(n) == [1..n -> GridVals]
Pattern(k, n) == [i \in 1..n |-> R(((k * 7 + i * 5 + k * i) % 11) - 4, 2)]
Init == /\ \/ \E n \in Ns : u0 \in Grid(n)
           \/ \E n \in ListNs, k \in 1..NList : u0 = Pattern(k, n)
        /\ order \in {"eq_ineq", "ineq_eq"}
        /\ s = Start(u0)
\* long vectors: two exact sweeps only (denominators grow like n^k and must stay within 32-bit arithmetic)
Step == /\ s.k < K /\ (Len(u0) <= 4 \/ s.k < 2) /\ s' = Sweep(order, s) /\ UNCHANGED <<u0, order>>
Spec == Init /\ [][Step]_vars

NP == ProjSimplexV(u0)
\* closed form: physical, nearest (variational inequality against every physical grid point and every vertex)
PhysGrid == (IF Len(u0) <= 4 THEN {z \in Grid(Len(u0)) : Physical(z)} ELSE {}) \cup {VUnit(Len(u0), i) : i \in 1..Len(u0)}
            \cup {VScale(R(1, Len(u0)), [i \in 1..Len(u0) |-> ROne])}
NearestIsPhysical == s.k = 0 => Physical(NP)
NearestIsNearest == s.k = 0 => \A z \in PhysGrid : VI(u0, NP, z)
FixedOnPhysical == Physical(u0) => (NP = u0 /\ s.x = u0)
\* Boyle-Dykstra bookkeeping: x0 = x_k + p_k + q_k ; y_k + q_(k-1) = x_k + q_k is the definition of q
Conservation == u0 = VAdd(s.x, VAdd(s.p, s.q))
\* every iterate y lies in the first set, every iterate x in the second
IteratesFeasible == s.k >= 1 =>
    IF order = "eq_ineq" THEN FeasibleEq(s.y) /\ FeasibleIneq(s.x) ELSE FeasibleIneq(s.y) /\ FeasibleEq(s.x)
\* the distance to the nearest physical point never increases along the sweeps
DistanceMonotone == [][RLe(Dist2(s'.x, NP), Dist2(s.x, NP))]_vars
\* with threshold 0 the machine can only stop at a fixed point: err = 0 implies the iterate is physical and equals NP
StopOnlyAtFixedPoint == (s.k >= 2 /\ s.err = RZero) => (s.x = NP)

EmitCase == IF Emit THEN PrintT(ToJson([u0 |-> u0, order |-> order, s |-> s, np |-> NP])) ELSE TRUE
=============================================================================
