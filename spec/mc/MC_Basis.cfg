SPECIFICATION Spec
CONSTANT Emit = TRUE
INVARIANT BasisOk
INVARIANT EmitCase
