----------------------------- MODULE MC_C14_data -----------------------------
(* (a) every probability vector k/D with <= MaxOut outcomes (zeros allowed) built entry by  *)
(*     entry; for the complete ones Data is checked on the whole uniform grid;               *)
(* (b) every data word up to MaxLen over M outcomes, every candidate numSums.                *)
EXTENDS QData, TLC, Json
CONSTANTS D, MaxOut, M, MaxLen, Emit
VARIABLES phase, k, data
vars == <<phase, k, data>>

Init == \/ phase = "p" /\ k = <<>> /\ data = <<>>
        \/ phase = "d" /\ k = <<>> /\ data = <<>>
AddP == /\ phase = "p" /\ Len(k) < MaxOut /\ SumTo(k, Len(k)) < D
        /\ \E x \in 0..(D - SumTo(k, Len(k))) : k' = Append(k, x)
        /\ UNCHANGED <<phase, data>>
PadZero == /\ phase = "p" /\ Len(k) < MaxOut /\ Len(k) > 0 /\ SumTo(k, Len(k)) = D
           /\ k' = Append(k, 0) /\ UNCHANGED <<phase, data>>
AddD == /\ phase = "d" /\ Len(data) < MaxLen
        /\ \E x \in 0..(M - 1) : data' = Append(data, x)
        /\ UNCHANGED <<phase, k>>
Next == AddP \/ PadZero \/ AddD
Spec == Init /\ [][Next]_vars

CompleteP == phase = "p" /\ Len(k) > 0 /\ SumTo(k, Len(k)) = D
Grid == 0..(2 * D - 1)
DataValid == CompleteP => \A j \in Grid : Data(k, j) \in 0..(Len(k) - 1) /\ k[Data(k, j) + 1] > 0
\* sub-normalised vectors (every proper prefix of the construction): still only outcomes of non-zero probability
DataValidDeficit == (phase = "p" /\ Len(k) > 0 /\ SumTo(k, Len(k)) > 0) => \A j \in Grid : k[Data(k, j) + 1] > 0
DataMonotone == CompleteP => \A j \in Grid : j + 1 \in Grid => Data(k, j) <= Data(k, j + 1)
\* exactly 2*k[i] grid points map to outcome i: sampling follows the requested distribution
DataDistribution == CompleteP => \A i \in 1..Len(k) : Cardinality({j \in Grid : Data(k, j) = i - 1}) = 2 * k[i]

\* candidate numSums: all strictly increasing sequences within 1..Len(data) are valid
RECURSIVE IncSeqs(_, _)
IncSeqs(lo, hi) == IF lo > hi THEN {<<>>} ELSE IncSeqs(lo + 1, hi) \cup {<<lo>> \o s : s \in IncSeqs(lo + 1, hi)}
EmpiConsistent == phase = "d" => \A ns \in IncSeqs(1, Len(data)) :
    LET e == EmpiCounts(M, data, ns) IN
    /\ NumSumsOK(data, ns)
    /\ \A a \in 1..Len(ns) : SumTo(e[a].counts, M) = ns[a]
    /\ \A a \in 1..(Len(ns) - 1) : \A x \in 1..M :
          /\ e[a].counts[x] <= e[a + 1].counts[x]
          /\ e[a + 1].counts[x] - e[a].counts[x] <= ns[a + 1] - ns[a]
BadNumSums == {<<2, 1>>, <<1, 1>>, <<MaxLen + 1>>, <<1, MaxLen + 2>>}

EmitCase ==
    IF ~Emit THEN TRUE
    ELSE IF phase = "p" /\ Len(k) > 0 /\ SumTo(k, Len(k)) \in {D - 1} /\ ~CompleteP
         THEN PrintT(ToJson([kind |-> "pd", k |-> k, D |-> D, data |-> [j \in 1..(2 * D) |-> Data(k, j - 1)]]))
    ELSE IF CompleteP THEN PrintT(ToJson([kind |-> "p", k |-> k, D |-> D, data |-> [j \in 1..(2 * D) |-> Data(k, j - 1)]]))
    ELSE IF phase = "d" THEN PrintT(ToJson([kind |-> "d", m |-> M, data |-> data,
             good |-> {[ns |-> ns, e |-> EmpiCounts(M, data, ns)] : ns \in IncSeqs(1, Len(data))},
             bad |-> {ns \in BadNumSums : ~NumSumsOK(data, ns)}]))
    ELSE TRUE
=============================================================================
