------------------------------- MODULE MC_C09 -------------------------------
(* C09: linear estimation inverts the forward model exactly.                                    *)
(* A state is a configuration, its exact model (computed once by the Prepare step and kept in    *)
(* the state) and a dataset together with the estimate the specification expects for it.          *)
(*   small models (<= SolveMax variables): the exact least-squares solution by rational           *)
(*      elimination, for arbitrary data (count-like, non-normalised integers);                    *)
(*   all models: certificate data f = A v + b + r with r verified to satisfy A^T r = 0            *)
(*      (null vectors from linear dependencies of over-complete tester sets and repeated           *)
(*      schedules): v satisfies the normal equations exactly, and it is THE least-squares         *)
(*      solution because A has full column rank (rank over two prime fields).                     *)
EXTENDS MC_C08

CONSTANTS NData, SolveMax
VARIABLES mdl,      \* [A, At, b, rank, pinv, nulls]
          didx, dat, est
vars9 == <<tomo, cand, mdl, didx, dat, est>>

Sizes(tm) == [s \in 1..Len(tm.scheds) |-> NOut(tm, s)]
NV(tm) == TNumVar(tm)
Dense(tm) == [k \in 1..NV(tm) |-> R((k % 5) - 2, (k % 3) + 1)]

\* ---------------------------------------------------------------- arbitrary data (small models)
CountData(tm, k) == ConcatAll([s \in 1..Len(tm.scheds) |->
    LET n == Sizes(tm)[s]
        c == [o \in 1..n |-> (s * 5 + o * 3 + k * 7 + (o * o * k)) % 4]
        tot == FoldLeft(LAMBDA a, x : a + x, 0, c)
    IN IF tot = 0 THEN [o \in 1..n |-> IF o = 1 THEN ROne ELSE RZero]
       ELSE [o \in 1..n |-> R(c[o], tot)]])
RawData(tm, k) == [r \in 1..Len(RowList(tm)) |-> RI(((r * 7 + k * 3) % 5) - 1)]

\* ---------------------------------------------------------------- null vectors of A^T
StatePatterns(tag) == CASE tag = "S6" -> {<<1, 1, -1, -1, 0, 0>>, <<1, 1, 0, 0, -1, -1>>} [] OTHER -> {}
PovmPatterns(tag) ==
    CASE tag = "P3"   -> {<< <<1, 1>>, <<-1, -1>>, <<0, 0>> >>, << <<1, 1>>, <<0, 0>>, <<-1, -1>> >>}
      [] tag = "Pmix" -> {<< <<1, 1>>, <<-1, -1, -1>>, <<0, 0, 0, 0>> >>, << <<0, 0>>, <<1, 1, 1>>, <<-1, -1, -1, -1>> >>}
      [] tag = "Pu"   -> {<< <<1, 1>>, <<-1, -1, -1, -1>>, <<0, 0>> >>, << <<1, 1>>, <<0, 0, 0, 0>>, <<-1, -1>> >>}
      [] tag = "P2"   -> {<< <<1, 1>>, <<-1, -1>> >>}
      [] OTHER -> {}
FirstOcc(tm, s) == \A s2 \in 1..(s - 1) : tm.scheds[s2] # tm.scheds[s]
NP(tm, s) == IF tm.type = "povmt" THEN 1 ELSE Len(tm.povms[tm.scheds[s][2]])
PovmOut(tm, s, o) == IF tm.type = "qmpt" THEN o % NP(tm, s) ELSE o          \* tester POVM outcome of row (s, o)
UnkOut(tm, s, o) == IF tm.type = "qmpt" THEN o \div NP(tm, s) ELSE IF tm.type = "povmt" THEN o ELSE 0
NullCands(tm) ==
    LET rows == RowList(tm)
        n == Len(rows)
        byState == IF tm.type = "qst" THEN {} ELSE
            {[r \in 1..n |-> LET s == rows[r][1] o == rows[r][2] IN
                 IF FirstOcc(tm, s) /\ tm.scheds[s][2] = j0 /\ o = o0 THEN RI(c[tm.scheds[s][1]]) ELSE RZero]
               : c \in StatePatterns(tm.tag[1]), j0 \in {1, 2}, o0 \in {0, 1}}
        byPovm == IF tm.type = "povmt" THEN {} ELSE
            {[r \in 1..n |-> LET s == rows[r][1] o == rows[r][2] IN
                 IF FirstOcc(tm, s) /\ tm.scheds[s][1] = i0 /\ UnkOut(tm, s, o) = k0
                 THEN RI(dd[tm.scheds[s][2]][PovmOut(tm, s, o) + 1]) ELSE RZero]
               : dd \in PovmPatterns(tm.tag[2]), i0 \in {1, 2}, k0 \in {0, 1}}
        byDup == {[r \in 1..n |-> IF r = r1 THEN ROne ELSE IF r = r2 THEN RI(-1) ELSE RZero]
                    : <<r1, r2>> \in {<<a, b>> \in (1..n) \X (1..n) :
                          a < b /\ rows[a][2] = rows[b][2] /\ tm.scheds[rows[a][1]] = tm.scheds[rows[b][1]] /\ rows[a][1] # rows[b][1]}}
    IN byState \cup byPovm \cup byDup

Model(tm) == LET A == TLCEval(MatA(tm))
                 At == TLCEval(Transpose(A))
                 rk == RankP(A)
                 zero == VZero(NV(tm))
             IN [A |-> A, At |-> At, b |-> VecB(tm), rank |-> rk,
                 pinv |-> IF rk = NV(tm) /\ NV(tm) <= SolveMax THEN MatMul(MatInverse(TLCEval(MatMul(At, A))), At) ELSE <<>>,
                 nulls |-> SetToSeq({r \in NullCands(tm) : r # VZero(Len(A)) /\ MatVec(At, r) = zero})]
FullRank(tm, m) == m.rank = NV(tm)

\* dataset k of a configuration and the estimate the specification expects:
\*   k = 0                exact data of a dense (non-physical) variable vector
\*   1 <= k < NData       certificate data: exact data + (k+1) * null vector
\*   k = NData, NData+1   (small models only) count-like / non-normalised data, estimate by elimination
DataAndEst(tm, m, k) ==
    LET v == Dense(tm)
        exact == VAdd(MatVec(m.A, v), m.b)
    IN IF k = 0 THEN [f |-> exact, v |-> v, kind |-> "exact"]
       ELSE IF k < NData THEN
            IF Len(m.nulls) = 0 THEN [f |-> exact, v |-> v, kind |-> "exact"]
            ELSE [f |-> VAdd(exact, VScale(RI(k + 1), m.nulls[((k - 1) % Len(m.nulls)) + 1])), v |-> v, kind |-> "certificate"]
       ELSE IF m.pinv # <<>> THEN
            LET f == IF k = NData THEN CountData(tm, k) ELSE RawData(tm, k)
            IN [f |-> f, v |-> MatVec(m.pinv, VSub(f, m.b)), kind |-> "solved"]
       ELSE [f |-> exact, v |-> v, kind |-> "exact"]

NoModel == [A |-> <<>>, At |-> <<>>, b |-> <<>>, rank |-> -1, pinv |-> <<>>, nulls |-> <<>>]
\* initial states are cheap (TLC generates them serially); the model is computed by the first step
Init9 == /\ Init /\ mdl = NoModel /\ didx = -1 /\ dat = <<>> /\ est = <<>>
Prepare == /\ didx = -1 /\ didx' = 0
           /\ mdl' = Model(tomo)
           /\ LET de == DataAndEst(tomo, mdl', 0) IN dat' = de.f /\ est' = de.v
           /\ UNCHANGED <<tomo, cand>>
NextData == /\ didx >= 0 /\ didx < NData + 1 /\ FullRank(tomo, mdl) /\ didx' = didx + 1
            /\ LET de == DataAndEst(tomo, mdl, didx + 1) IN dat' = de.f /\ est' = de.v
            /\ UNCHANGED <<tomo, cand, mdl>>
Next9 == Prepare \/ NextData
Spec9 == Init9 /\ [][Next9]_vars9

FR == didx >= 0 /\ FullRank(tomo, mdl)
\* the expected estimate satisfies the normal equations exactly: residual orthogonal to the model
ResidualOrthogonal == FR =>
    MatVec(mdl.At, VSub(VAdd(MatVec(mdl.A, est), mdl.b), dat)) = VZero(NV(tomo))
\* exact data of ANY variable vector (also of physical catalogue objects) is inverted exactly
InvertsModel == (FR /\ didx = 0) => est = Dense(tomo) /\ dat = ModelAll(tomo, Dense(tomo))
RecoversPhysicalSmall == (FR /\ didx = 0 /\ mdl.pinv # <<>>) =>
    \A n \in PhysNames : MatVec(mdl.pinv, VSub(CircuitAll(tomo, PhysVar(n)), mdl.b)) = PhysVar(n)
\* informational completeness of the tester sets used: complete sets give full rank, deficient ones do not
\* (schedule subsets may drop rows an otherwise complete tester set needs: no expectation for them)
RankAsExpected == (didx >= 0 /\ tomo.tag[3] # "subset") =>
    LET defState == tomo.tag[1] = "S3" /\ tomo.type # "qst"
        defPovm == tomo.tag[2] = "P2" /\ tomo.type # "povmt"
    IN FullRank(tomo, mdl) <=> ~(defState \/ defPovm)
\* over-complete configurations do provide certificate data (vacuity guard)
HasNulls == (didx >= 0 /\ tomo.tag[3] = "all" /\ (tomo.tag[2] \in {"P3", "Pmix", "Pu"} /\ tomo.type # "povmt")) => Len(mdl.nulls) > 0

EmitCase9 == IF Emit /\ didx >= 0 THEN
                IF didx = 0
                THEN PrintT(ToJson([kind |-> "cfg", tomo |-> tomo, numvar |-> NV(tomo), rank |-> mdl.rank, sizes |-> Sizes(tomo),
                                    nnulls |-> Len(mdl.nulls),
                                    phys |-> IF FR THEN {[name |-> n, obj |-> PhysObj(n), var |-> PhysVar(n), dist |-> CircuitAll(tomo, PhysVar(n))] : n \in PhysNames} ELSE {},
                                    didx |-> 0, data |-> dat, est |-> est]))
                ELSE PrintT(ToJson([kind |-> "data", tag |-> tomo.tag, type |-> tomo.type, m |-> tomo.m, para |-> tomo.para,
                                    didx |-> didx, data |-> dat, est |-> est, how |-> DataAndEst(tomo, mdl, didx).kind]))
             ELSE TRUE
=============================================================================
