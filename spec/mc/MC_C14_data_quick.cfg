SPECIFICATION Spec
CONSTANT D = 8
CONSTANT MaxOut = 4
CONSTANT M = 3
CONSTANT MaxLen = 4
CONSTANT Emit = FALSE
INVARIANT DataValid
INVARIANT DataValidDeficit
INVARIANT DataMonotone
INVARIANT DataDistribution
INVARIANT EmpiConsistent
INVARIANT EmitCase
