SPECIFICATION Spec
CONSTANT StateNames = {"z0", "x1", "y0", "mix1"}
CONSTANT GateNames = {"h", "x90", "dep", "s"}
CONSTANT MProcNames = {"mz", "mx", "m3"}
CONSTANT Rates <- RatesQuick
CONSTANT MaxLen = 3
CONSTANT Emit = TRUE
INVARIANT Normalised
INVARIANT NonNegative
INVARIANT BranchPhysical
INVARIANT SumRule
INVARIANT ForwardModelIsBorn
INVARIANT InversionRecovers
INVARIANT EmitSession
