SPECIFICATION Spec
CONSTANT HNames = {"zero", "z", "xy", "gen", "y3"}
CONSTANT KNames = {"zero", "diag", "rank1", "dense", "indefinite", "indefc", "rank2"}
CONSTANT JumpNames = {"none", "damping", "two", "four", "traceful"}
CONSTANT Emit = TRUE
INVARIANT ActsAsGksl
INVARIANT TraceZero
INVARIANT KRecovered
INVARIANT HRecovered
INVARIANT Recomposes
INVARIANT PartsSum
INVARIANT JumpKIsGram
INVARIANT EmitCase
