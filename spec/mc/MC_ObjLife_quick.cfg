SPECIFICATION Spec
CONSTANT Kinds <- Triple
CONSTANT Reads <- QuickReads
CONSTANT Emit = FALSE
INVARIANT TypeOK
INVARIANT ReadTerm
PROPERTY ReadsArePure
PROPERTY OneSlot
PROPERTY ZeroAbsorbing
PROPERTY CopyFaithful
