SPECIFICATION Spec
CONSTANT D = 16
CONSTANT MaxOut = 5
CONSTANT M = 3
CONSTANT MaxLen = 6
CONSTANT Emit = TRUE
INVARIANT DataValid
INVARIANT DataValidDeficit
INVARIANT DataMonotone
INVARIANT DataDistribution
INVARIANT EmpiConsistent
INVARIANT EmitCase
