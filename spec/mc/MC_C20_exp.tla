----------------------------- MODULE MC_C20_exp -----------------------------
(* The Experiment machine of QExperiment with concrete candidate sets.                     *)
EXTENDS QExperiment

S1 == <<It("state", 0), It("povm", 0)>>
S2 == <<It("state", 0), It("gate", 0), It("povm", 1)>>
S3 == <<It("state", 0), It("mprocess", 0), It("povm", 0)>>
S4 == <<It("state", 0), It("gate", 1), It("mprocess", 1)>>
S5 == <<It("state", 1), It("gate", 0), It("gate", 0), It("povm", 0)>>
S6 == <<It("state", 0), It("mprocess", 0), It("mprocess", 1), It("povm", 1)>>
B1 == <<It("povm", 0), It("state", 0)>>                 \* order: does not start with the state
B2 == <<It("state", 0)>>                                \* order: too short
B3 == <<It("state", 0), It("povm", 0), It("povm", 1)>>  \* order: two POVMs
B4 == <<It("state", 0), It("gate", 0)>>                 \* order: ends in a gate
M1 == <<[t |-> "arity1", k |-> "state", i |-> 0], It("povm", 0)>>
M2 == <<It("state", 0), [t |-> "idxbool", k |-> "povm", i |-> 0]>>

MCListCands == {<<>>, <<"o">>, <<"n">>, <<"o", "o">>, <<"o", "n">>}
MCSchedCands == {<<>>, <<S1>>, <<S1, S2>>, <<S3>>, <<S2, S4>>, <<S5, S1>>, <<S6>>, <<S1, S1>>,
                 <<S1, B1>>, <<B2>>, <<B3, S1>>, <<S1, B4>>, <<M1, S1>>, <<S1, M2>>, <<B1, M1>>}
MCInitLists == {[k \in Kinds |-> <<"o">>], [k \in Kinds |-> <<"o", "o">>],
                [k \in Kinds |-> IF k = "state" THEN <<"n">> ELSE <<"o", "n">>]}
=============================================================================
