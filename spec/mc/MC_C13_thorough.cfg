SPECIFICATION Spec
CONSTANT Tables <- MCTables
CONSTANT Group <- MCGroup
CONSTANT PureActs <- AllPure
CONSTANT Tomos = {"qst", "povmt"}
CONSTANT Datas = {"d1", "d2"}
CONSTANT Modes = {"identity", "custom", "inverse_sample_covariance", "identity+eqonly"}
CONSTANT AsCoded = FALSE
CONSTANT Emit = FALSE
INVARIANT NoResidue
INVARIANT ExtConsistent
PROPERTY PureIsPure
PROPERTY CacheOnly
PROPERTY AtolRoundTrip
PROPERTY DeleteExact
