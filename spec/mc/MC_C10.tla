------------------------------- MODULE MC_C10 -------------------------------
(* C10: constrained estimators return physical, consistent estimates.                            *)
(* One-qubit state tomography with the tight tester set (x, y, z): data whose linear estimate has  *)
(* a rational Bloch length (Pythagorean directions x radii) - so that the nearest physical state   *)
(* is exactly computable - plus every few-shot count vector (postconditions only).                *)
EXTENDS MC_C08, QOpt

CONSTANTS MaxShots
VARIABLES data,     \* [kind, f (per schedule frequencies of outcome 0), ...]
          lin       \* the exact linear estimate (full state, H-coordinates), computed by the Prepare step
vars10 == <<tomo, cand, data, lin>>

Dirs == {<<3, 4, 0, 5>>, <<0, 3, 4, 5>>, <<4, 0, -3, 5>>, <<2, 2, 1, 3>>, <<-2, 1, 2, 3>>, <<1, -2, -2, 3>>,
         <<6, 3, 2, 7>>, <<1, 0, 0, 1>>, <<0, -1, 0, 1>>}
Radii == {R(0, 1), R(1, 2), R(1, 1), R(5, 4), R(9, 10)}
\* frequency of outcome 0 of the Pauli measurement a for Bloch component r_a
FreqOf(r) == RMul(R(1, 2), RAdd(ROne, r))
Pyth == {[kind |-> "pyth", dir |-> dd, t |-> t,
          f |-> [a \in 1..3 |-> FreqOf(RMul(t, R(dd[a], dd[4])))]] : dd \in Dirs, t \in Radii}
Valid(dt) == \A a \in 1..3 : RLe(RZero, dt.f[a]) /\ RLe(dt.f[a], ROne)
Shots == {[kind |-> "shots", dir |-> <<0, 0, 0, 1>>, t |-> RZero, f |-> [a \in 1..3 |-> R(k[a], n)]] :
             n \in 1..MaxShots, k \in [1..3 -> 0..MaxShots]}
ValidShots(dt) == \A a \in 1..3 : dt.f[a][1] <= dt.f[a][2]

\* the data vector in row order (schedule x, y, z; outcomes 0, 1)
DataVec == ConcatAll([a \in 1..3 |-> <<data.f[a], RSub(ROne, data.f[a])>>])

Init10 == /\ tomo \in {MkTomo("qst", "S4", "P3", "all", 1, para) : para \in BOOLEAN}
          /\ cand = 0
          /\ data \in {dt \in Pyth : Valid(dt)} \cup {dt \in Shots : Valid(dt)}
          /\ lin = <<>>
Next10 == /\ lin = <<>>
          /\ lin' = UnknownState(tomo, MatVec(LeftInverse(MatA(tomo)), VSub(DataVec, VecB(tomo))))
          /\ UNCHANGED <<tomo, cand, data>>
Spec10 == Init10 /\ [][Next10]_vars10

A10 == MatA(tomo)
Have == lin # <<>>
LinState == lin
LinVar == VarOfCells(tomo, LAMBDA c : lin[c[2] + 1])
Defined == Have /\ QubitSpectrumDefined(LinState)
NearSt == NearestStateQubit(LinState)

\* the linear estimate reproduces the data (tight, complete testers) and has unit trace
LinearFitsData == Have => VAdd(MatVec(A10, LinVar), VecB(tomo)) = DataVec /\ LinState[1] = R(1, 2)
\* for Pythagorean data the Bloch length of the linear estimate is the radius
RadiusAsBuilt == (Have /\ data.kind = "pyth") => (Defined /\ RMul(RI(4), VNorm2(LinState)) = RSq(data.t))
\* the closed-form projection is a state, fixes physical estimates and is nearest (variational inequality against
\* the catalogue of physical states)
CatStates == {QState(n) : n \in {"z0", "z1", "x0", "x1", "y0", "y1", "mix1", "mix2"}} \cup {<<R(1, 2), RZero, RZero, RZero>>}
ProjIsState == Defined => IsStateQubit(NearSt)
ProjFixesPhysical == (Defined /\ IsStateQubit(LinState)) => NearSt = LinState
ProjIsNearest == Defined => \A z \in CatStates :
    RLe(InnerQubit(VSub(LinState, NearSt), VSub(z, NearSt)), RZero)

EmitCase10 == IF Emit /\ Have THEN PrintT(ToJson([tomo |-> tomo, data |-> data, f |-> DataVec, lin |-> LinState,
                                          defined |-> Defined, proj |-> IF Defined THEN NearSt ELSE <<>>,
                                          physical |-> IsStateQubit(LinState)]))
              ELSE TRUE
=============================================================================
