SPECIFICATION Spec
CONSTANT Kinds <- PairPG
CONSTANT Reads <- QuickReads
CONSTANT Emit = TRUE
VIEW View
