SPECIFICATION Spec
CONSTANT NameSets <- FourNameSets
CONSTANT DimChoices = {2}
CONSTANT Emit = TRUE
CONSTANT FullLayoutMax = 800
INVARIANT EmitCase
