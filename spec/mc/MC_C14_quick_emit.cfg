SPECIFICATION Spec
CONSTANT Seeds = {0, 11}
CONSTANT GenIds = {"g1", "g2", "g3"}
CONSTANT GenSeed <- MCGenSeed
CONSTANT EPs <- QuickEPs
CONSTANT MaxCalls = 3
CONSTANT Emit = TRUE
VIEW View
