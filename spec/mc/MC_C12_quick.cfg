SPECIFICATION Spec12
CONSTANT Types4 = {"qst", "povmt", "qpt"}
CONSTANT StateSets = {"S4"}
CONSTANT PovmSets = {"P3", "P33"}
CONSTANT SchedVariants = {"all"}
CONSTANT Ms = {2, 3}
CONSTANT Modes = {"identity", "custom", "inverse_sample_covariance", "inverse_unbiased_covariance"}
CONSTANT NPoints = 2
CONSTANT NDatasets = 2
CONSTANT Emit = TRUE
INVARIANT SEDerivativesExact
INVARIANT WeightsSymmetric
INVARIANT ModeTakesEffect
INVARIANT InvCovIsInverse
INVARIANT HessianSymmetric
INVARIANT RECoefConsistent
INVARIANT EmitCase12
