SPECIFICATION Spec12
CONSTANT Types4 = {"qst", "povmt", "qpt", "qmpt"}
CONSTANT StateSets = {"S4", "S6"}
CONSTANT PovmSets = {"P3", "P33", "P44"}
CONSTANT SchedVariants = {"all"}
CONSTANT Ms = {2, 3, 4, 5}
CONSTANT Modes = {"identity", "custom", "inverse_sample_covariance", "inverse_unbiased_covariance"}
CONSTANT NPoints = 3
CONSTANT NDatasets = 3
CONSTANT Emit = TRUE
INVARIANT SEDerivativesExact
INVARIANT WeightsSymmetric
INVARIANT ModeTakesEffect
INVARIANT InvCovIsInverse
INVARIANT HessianSymmetric
INVARIANT RECoefConsistent
INVARIANT EmitCase12
