------------------------------- MODULE MC_C14 -------------------------------
EXTENDS QRandom
MCGenSeed == [g \in {"g1", "g2", "g3"} |-> IF g = "g3" THEN 0 ELSE 11]      \* 0 is a seed like any other (and falsy in the implementation language)
QuickEPs == {"data", "exp_empis", "qst_seq"}
AllEPs == {"data", "dataset", "empi", "empis", "mn", "exp_data", "exp_dataset", "exp_empi", "exp_empis",
           "qst_empi", "qst_empis", "qst_seq", "povmt_seq", "qpt_seq", "qmpt_seq"}
=============================================================================
