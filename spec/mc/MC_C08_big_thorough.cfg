SPECIFICATION Spec
CONSTANT Configs = {"t_qst", "t_povmt_2", "t_povmt_3", "qq_qst", "qq_povmt_4", "t_qpt"}
CONSTANT Paras = {TRUE, FALSE}
CONSTANT Emit = TRUE
INVARIANT ModelEqualsCircuit
INVARIANT OneColumnPerVariable
INVARIANT PhysModelEqualsCircuit
INVARIANT EmitCase
