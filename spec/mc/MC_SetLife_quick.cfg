SPECIFICATION Spec
CONSTANT Pool <- QuickPool
CONSTANT Emit = FALSE
INVARIANT TotalLen
INVARIANT TotalBijective
PROPERTY OneMode
PROPERTY Shifted
