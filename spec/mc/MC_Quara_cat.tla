---------------------------- MODULE MC_Quara_cat ----------------------------
(* emits the ideal catalogue objects used by the composed sessions *)
EXTENDS QObjects, TLC, Json
CONSTANTS StateNames, GateNames, MProcNames
VARIABLE it
Init == it \in ({"S"} \X StateNames) \cup ({"G"} \X GateNames) \cup ({"M"} \X MProcNames)
Next == UNCHANGED it
Spec == Init /\ [][Next]_it
EmitItem == PrintT(ToJson([k |-> it[1], n |-> it[2],
                           v |-> CASE it[1] = "S" -> QState(it[2]) [] it[1] = "G" -> QGate(it[2]) [] it[1] = "M" -> QMProcess(it[2])]))
=============================================================================
