SPECIFICATION Spec
CONSTANT Sys = {"q", "qq", "qqq", "t", "tt"}
CONSTANT RejectSys = {"q", "qq", "t"}
CONSTANT Emit = TRUE
INVARIANT GrammarSizes
INVARIANT StateOk
INVARIANT GateOk
INVARIANT ActionOk
INVARIANT PovmItemOk
INVARIANT MprocessOk
INVARIANT RelationsOk
INVARIANT RejectOk
INVARIANT EmitCase
