SPECIFICATION Spec
CONSTANT Systems = {"q", "t"}
CONSTANT NDense = 2
CONSTANT HotStride <- QuickStride
CONSTANT Emit = TRUE
INVARIANT ChoiDefinitionsAgree
INVARIANT ChoiHermitian
INVARIANT ChoiRoundTrip
INVARIANT RowColConsistent
INVARIANT VecRoundTrip
INVARIANT VecHermitian
INVARIANT KrausIsHS
INVARIANT EmitCase
