----------------------------- MODULE MC_ObjLife -----------------------------
EXTENDS QObjLife
AllKinds == {"state", "povm", "gate", "mprocess"}
Triple == {"state", "povm", "mprocess"}
PairSP == {"state", "povm"}
PairGM == {"gate", "mprocess"}
PairSG == {"state", "gate"}
PairPM == {"povm", "mprocess"}
PairSM == {"state", "mprocess"}
PairPG == {"povm", "gate"}
PairLG == {"lindbladian", "gate"}
PairLS == {"lindbladian", "state"}
QuickReads == {"var", "reps", "derive", "closures"}
AllReads == {"var", "reps", "copy", "roundtrip", "derive", "physproj", "flags", "closures"}
=============================================================================
