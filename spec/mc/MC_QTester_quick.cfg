SPECIFICATION Spec
CONSTANT NameLists <- QuickLists
CONSTANT TKinds = {"state", "povm"}
CONSTANT NSys = {1, 2}
CONSTANT Rates <- QuickRates
CONSTANT Emit = TRUE
INVARIANT Physical
INVARIANT Mixtures
INVARIANT RankProduct
INVARIANT RankUnderNoise
INVARIANT Products
INVARIANT EmitCase
