------------------------------- MODULE MC_C15 -------------------------------
(* C15: instance of the simulation-flow model.  Exhaustive runs hide the schedule history through the  *)
(* VIEW; simulation runs print complete schedules for replay through the controlled executor.           *)
EXTENDS QSim, Json
CONSTANTS Emit
P(a, b, c, d) == [ps |-> a, pd |-> b, pu |-> c, pe |-> d]
ParAll == {P(a, b, c, d) : a \in {1, 2}, b \in {1, 2}, c \in {1, 2}, d \in {1, 2}}
\* configurations in which some level runs on threads or processes with interleaving estimation steps
ParInteresting == {P(2, 1, 1, 2), P(1, 1, 2, 2), P(1, 1, 1, 2), P(2, 2, 2, 2), P(1, 2, 2, 1), P(2, 1, 2, 1), P(1, 1, 1, 1)}
ParThreadsE == {P(2, 1, 1, 2), P(1, 1, 2, 2)}
EmitSched == IF Emit /\ Finished THEN PrintT(ToJson([par |-> par, sched |-> sched, priv |-> PrivateCopies])) ELSE TRUE
=============================================================================
