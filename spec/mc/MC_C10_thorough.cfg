SPECIFICATION Spec10
CONSTANT Types4 = {"qst"}
CONSTANT StateSets = {"S4"}
CONSTANT PovmSets = {"P3"}
CONSTANT SchedVariants = {"all"}
CONSTANT Ms = {2}
CONSTANT Emit = TRUE
CONSTANT MaxShots = 3
INVARIANT LinearFitsData
INVARIANT RadiusAsBuilt
INVARIANT ProjIsState
INVARIANT ProjFixesPhysical
INVARIANT ProjIsNearest
INVARIANT EmitCase10
