SPECIFICATION Spec
CONSTANT Tables <- NoTables
CONSTANT Group <- MCGroup
CONSTANT PureActs <- OnePure
CONSTANT Tomos = {"qst", "povmt"}
CONSTANT Datas = {"d1", "d2"}
CONSTANT Modes = {"identity", "custom", "inverse_sample_covariance", "identity+eqonly"}
CONSTANT AsCoded = FALSE
CONSTANT Emit = TRUE
VIEW View
