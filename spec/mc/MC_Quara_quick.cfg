SPECIFICATION Spec
CONSTANT StateNames = {"z0", "x1", "mix1"}
CONSTANT GateNames = {"h", "x90", "ad"}
CONSTANT MProcNames = {"mz", "m3"}
CONSTANT Rates <- RatesQuick
CONSTANT MaxLen = 2
CONSTANT Emit = TRUE
INVARIANT Normalised
INVARIANT NonNegative
INVARIANT BranchPhysical
INVARIANT SumRule
INVARIANT ForwardModelIsBorn
INVARIANT InversionRecovers
INVARIANT EmitSession
