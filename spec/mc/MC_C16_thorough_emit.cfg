SPECIFICATION Spec
CONSTANT MaxVars = 4
CONSTANT MaxVal = 5
CONSTANT TShapes <- ThoroughShapes
CONSTANT Weights <- ThoroughWeights
CONSTANT Emit = TRUE
INVARIANT EmitCase
