------------------------------- MODULE MC_C07 -------------------------------
(* C07: tensor products respect subsystem structure.                                             *)
(* A state is a configuration: subsystem names with dimensions and outcome counts, the ORDER in   *)
(* which the factors are passed, and the GROUPING (binary tree) of the pairwise products.  The     *)
(* canonical layout of the result (QIndex!KronIndex over names in ascending order) must be what    *)
(* folding the tree with the pairwise merge gives, for every argument order and grouping.          *)
EXTENDS QIndex, TLC, Json

CONSTANTS NameSets,       \* sets of subsystem names (integers)
          DimChoices,     \* dimensions a subsystem may have
          Emit, FullLayoutMax

QuickNameSets == {{2, 5}, {1, 4, 9}, {-1, 0}}        \* names are arbitrary integers: zero and negative ones included
FourNameSets == {{0, 3, 6, 7}}
ThoroughNameSets == {{2, 5}, {1, 4, 9}, {0, 3, 6, 7}, {-1, 0}, {-2, 0, 3}}

VARIABLES names, dims, order, tree
vars == <<names, dims, order, tree>>

\* binary trees over positions i..j of the argument sequence: a leaf is <<i>>, a node <<left, right>>
RECURSIVE Trees(_, _)
Trees(i, j) == IF i = j THEN {<<i>>}
               ELSE UNION {{<<l, r>> : l \in Trees(i, k), r \in Trees(k + 1, j)} : k \in i..(j - 1)}
Perms(S) == {p \in [1..Cardinality(S) -> S] : \A a, b \in 1..Cardinality(S) : a # b => p[a] # p[b]}
\* outcome counts: pairwise different, by rank of the name
OutcomesOf(ns) == LET srt == SortAsc(ns) IN [s \in ns |-> 1 + (CHOOSE k \in 1..Len(srt) : srt[k] = s)]

Init == /\ names \in NameSets
        /\ dims \in [names -> DimChoices]
        /\ order \in Perms(names)
        /\ tree = <<>>
ChooseTree == /\ tree = <<>>
              /\ tree' \in Trees(1, Cardinality(names))
              /\ UNCHANGED <<names, dims, order>>
Next == ChooseTree
Spec == Init /\ [][Next]_vars

Sorted == SortAsc(names)
Shape2 == [k \in 1..Len(Sorted) |-> Sq(dims[Sorted[k]])]          \* radices d_s^2 in ascending name order
AllDigits == [names -> 0..8]
ValidDigits(dg) == \A s \in names : dg[s] < Sq(dims[s])

\* an abstract one-hot object: the subsystems it lives on and its coefficient index
Obj(ns, idx) == [ns |-> ns, idx |-> idx]
DigitsOf(o) == LET srt == SortAsc(o.ns)
                   mi == Multi([k \in 1..Len(srt) |-> Sq(dims[srt[k]])], o.idx)
               IN [s \in o.ns |-> mi[CHOOSE k \in 1..Len(srt) : srt[k] = s]]
\* the pairwise tensor product of one-hot objects on disjoint subsystems
Merge(a, b) == LET ns == a.ns \cup b.ns
                   da == DigitsOf(a) db == DigitsOf(b)
                   dg == [s \in ns |-> IF s \in a.ns THEN da[s] ELSE db[s]]
               IN Obj(ns, KronIndex(SortAsc(ns), dims, dg))
RECURSIVE FoldTree(_, _)
FoldTree(t, dg) == IF Len(t) = 1 THEN Obj({order[t[1]]}, dg[order[t[1]]])
                   ELSE Merge(FoldTree(t[1], dg), FoldTree(t[2], dg))

\* digit assignments examined: all of them for small systems, corners and a diagonal otherwise
Examined == IF Prod(Shape2) <= FullLayoutMax THEN {dg \in AllDigits : ValidDigits(dg)}
            ELSE {dg \in AllDigits : ValidDigits(dg) /\ (\A s \in names : dg[s] \in {0, Sq(dims[s]) - 1, 1})}

KronBijective == Prod(Shape2) <= FullLayoutMax =>
    {KronIndex(Sorted, dims, dg) : dg \in {d \in AllDigits : ValidDigits(d)}} = 0..(Prod(Shape2) - 1)
KronIsRowMajor == \A dg \in Examined :
    KronIndex(Sorted, dims, dg) = Serial(Shape2, [k \in 1..Len(Sorted) |-> dg[Sorted[k]]])
\* whatever the order and grouping of the arguments, the product lands at the canonical index
FoldIsCanonical == tree # <<>> => \A dg \in Examined :
    FoldTree(tree, dg) = Obj(names, KronIndex(Sorted, dims, dg))

EmitCase == IF Emit /\ tree # <<>>
            THEN PrintT(ToJson([names |-> Sorted, dims |-> [k \in 1..Len(Sorted) |-> dims[Sorted[k]]],
                                outcomes |-> [k \in 1..Len(Sorted) |-> OutcomesOf(names)[Sorted[k]]],
                                order |-> order, tree |-> tree, size |-> Prod(Shape2),
                                samples |-> {[digits |-> [k \in 1..Len(Sorted) |-> dg[Sorted[k]]], index |-> KronIndex(Sorted, dims, dg)]
                                               : dg \in {d \in Examined : \A s \in names : d[s] \in {0, 1, Sq(dims[s]) - 1}}}]))
            ELSE TRUE
=============================================================================
