------------------------------- MODULE MC_C13 -------------------------------
EXTENDS QPool
MCTables == {"dict_hs2choi", "dict_choi2hs", "basis_T", "basisconj", "bb_conj_basis", "bb_T", "bb_T_from1", "bh_b_T_from1", "bb_dict"}
QuickTables == {"dict_hs2choi", "dict_choi2hs", "basis_T", "bb_T", "bb_T_from1"}
MCGroup == [t \in MCTables |->
    CASE t \in {"basis_T", "basisconj"} -> "g1"
      [] t \in {"bb_conj_basis", "bb_T", "bb_T_from1", "bh_b_T_from1"} -> "g2"
      [] OTHER -> t]
NoTables == {}
OnePure == {"q_state"}
QuickPure == {"q_state", "conv_gate", "conv_choi2hs", "proj_state", "proj_gate", "proj_povm", "proj_mprocess", "compose", "tensor", "var_roundtrip", "copy_mutate"}
AllPure == QuickPure \cup {"q_povm", "q_gate", "q_mprocess", "conv_state", "conv_povm", "conv_mprocess",
                           "physproj_state", "physproj_gate", "physproj_povm", "physproj_mprocess",
                           "compose_m", "tensor_gm", "gradient", "lindbladian", "ensemble", "stacked_var"}
=============================================================================
