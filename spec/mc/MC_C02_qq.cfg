SPECIFICATION Spec
CONSTANT NDense = 2
CONSTANT Hots = 1
INVARIANT Checks
