SPECIFICATION Spec
CONSTANT MaxVars = 4
CONSTANT MaxVal = 5
CONSTANT TShapes <- QuickShapes
CONSTANT Weights <- QuickWeights
CONSTANT Emit = FALSE
INVARIANT SerialMultiInverse
INVARIANT RowMajor
INVARIANT InRange
INVARIANT MarginalTotal
INVARIANT MarginalOfMarginal
INVARIANT ChainRule
INVARIANT EmitCase
