------------------------------- MODULE MC_C06 -------------------------------
(* C06: composition along time-ordered chains; every bracketing gives the same value.          *)
EXTENDS QAlgebra, TLC, Json

CONSTANTS MaxLen, Emit, StateNames, GateNames, MProcNames, PovmNames, GenModes
VARIABLES chain, val, gen
vars == <<chain, val, gen>>
NU == PauliNu

It(k, n) == [k |-> k, n |-> n]
Elem(it) == CASE it.k = "S" -> SegState(QState(it.n)) [] it.k = "G" -> SegGate(QGate(it.n))
              [] it.k = "M" -> SegMProcess(QMProcess(it.n)) [] it.k = "P" -> SegPovm(QPovm(it.n))
Items == {It("S", n) : n \in StateNames} \cup {It("G", n) : n \in GateNames}
         \cup {It("M", n) : n \in MProcNames} \cup {It("P", n) : n \in PovmNames}
NoGen == [povm |-> "none", mode |-> 0]

Init == \/ /\ \E it \in {i \in Items : i.k # "P"} : chain = <<it>> /\ val = Elem(it)
           /\ gen = NoGen
        \/ /\ chain = <<>> /\ val = SegState(<<>>)
           /\ \E p \in PovmNames, md \in GenModes : gen = [povm |-> p, mode |-> md]
Extend == /\ gen = NoGen /\ Len(chain) < MaxLen /\ val.kind \in {"C", "S"}
          /\ \E it \in {i \in Items : i.k # "S"} :
                /\ chain' = Append(chain, it)
                /\ val' = Compose(Elem(it), val, NU)
          /\ UNCHANGED gen
Next == Extend
Spec == Init /\ [][Next]_vars

ChainVals == [k \in 1..Len(chain) |-> Elem(chain[k])]
\* every bracketing of the chain gives the value of the sequential application
Associative == Len(chain) >= 2 => AllVals(ChainVals, 1, Len(chain), NU) = {val}
\* physical operands give physical results (equality part exactly; positivity of probabilities)
Normalised == Len(chain) >= 1 => SegNormalised(val, 2, 4)
NonNegative == Len(chain) >= 1 => SegNonNegative(val, 2)
\* shape bookkeeping: one axis per measuring item, in time order
ShapeIsTimeOrder == Len(chain) >= 1 =>
    val.shape = SelectSeq([k \in 1..Len(chain) |-> IF chain[k].k \in {"M", "P"} THEN Len(Elem(chain[k]).items) ELSE 0], LAMBDA n : n > 0)
    /\ Len(val.items) = Prod(val.shape)
\* a measurement process on a state: statistics = statistics of the POVM it induces
InducedPovmStatistics == (Len(chain) >= 2 /\ chain[Len(chain)].k = "M" /\ val.kind = "S") =>
    LET prev == FoldChain(ChainVals, Len(chain) - 1, NU)
        ind == SegPovm(InducedPovmH(QMProcess(chain[Len(chain)].n), NU))
    IN Probabilities(val, 2) = Compose(ind, prev, NU).items

\* ---------------------------------------------------------------- POVM -> measurement process
\* back-action modes 0 / 1 (identical for rank-1 elements): the Lueders instrument; mode 2: measure and prepare
PostStates(n) == [k \in 1..Len(QPovm(n)) |-> QState(<<"x1", "y0", "z1", "mix1", "z0">>[k])]
Lueders(n) == CASE n = "x" -> M_mx [] n = "y" -> M_my [] n = "z" -> M_mz
                [] n = "p4" -> <<MatScale(R(1, 2), L_z0), MatScale(R(1, 2), L_z1), MatScale(R(1, 2), L_yp), MatScale(R(1, 2), L_ym)>>
                \* p5 has the element I/4 with a repeated eigenvalue: its Lueders operation is (1/4) identity (coherences survive)
                [] n = "p5" -> M_m5
GenMProcess(n, md) == IF md = 2 THEN [k \in 1..Len(QPovm(n)) |-> MeasurePrepareH(QPovm(n)[k], PostStates(n)[k], NU)]
                      ELSE Lueders(n)
GenDefined(n, md) == md = 2 \/ n \in {"x", "y", "z", "p4", "p5"}
GenInducesPovm == (gen # NoGen /\ GenDefined(gen.povm, gen.mode)) =>
    /\ InducedPovmH(GenMProcess(gen.povm, gen.mode), NU) = QPovm(gen.povm)
    /\ IsTPH(SumMatsR(GenMProcess(gen.povm, gen.mode), 4))

EmitCase == IF ~Emit THEN TRUE
            ELSE IF gen # NoGen
                 THEN PrintT(ToJson([kind |-> "gen", povm |-> gen.povm, ys |-> QPovm(gen.povm), mode |-> gen.mode,
                                     post |-> PostStates(gen.povm),
                                     exact |-> GenDefined(gen.povm, gen.mode),
                                     mp |-> IF GenDefined(gen.povm, gen.mode) THEN GenMProcess(gen.povm, gen.mode) ELSE <<>>]))
                 ELSE IF Len(chain) >= 2
                      THEN PrintT(ToJson([kind |-> "chain", chain |-> chain, elems |-> [k \in 1..Len(chain) |-> Elem(chain[k]).items], val |-> val]))
                      ELSE TRUE
=============================================================================
