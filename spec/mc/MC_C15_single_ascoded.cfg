SPECIFICATION SSpec
CONSTANT NRep = 3
CONSTANT Draws = 2
CONSTANT RestartPerRep = TRUE
INVARIANT SRepsIndependent
INVARIANT SReproducible
