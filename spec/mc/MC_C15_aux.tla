----------------------------- MODULE MC_C15_aux -----------------------------
(* C15, auxiliary tables: depolarising noise on the catalogue (exact) and the decision table of the     *)
(* run's physicality check.  One state per row; every row is emitted for replay.                         *)
EXTENDS QNoise, QPhysCheck, TLC, Json
CONSTANTS Rates, StateNames, PovmNames, GateNames, MProcNames, Emit
VARIABLES row
Rate(r) == R(r[1], r[2])
RatesDef == {<<0, 1>>, <<1, 10>>, <<1, 2>>, <<1, 1>>}
NoiseRows == {[k |-> "noise", typ |-> t[1], name |-> t[2], p |-> r] : t \in ({"state"} \X StateNames) \cup ({"povm"} \X PovmNames)
                                                                       \cup ({"gate"} \X GateNames) \cup ({"mprocess"} \X MProcNames), r \in Rates}
CheckRows == {[k |-> "check", est |-> e, para |-> pa, algoNone |-> an, eqFlag |-> ef, ineqFlag |-> nf, viol |-> v, level |-> lv, rep |-> rp, idx |-> ix] :
                e \in Estimators, pa \in BOOLEAN, an \in BOOLEAN, ef \in BOOLEAN, nf \in BOOLEAN,
                v \in {"none", "eq", "ineq"}, lv \in {"below", "above"}, rp \in 1..2, ix \in 1..2}
Relevant(r) == /\ (r.est # "lsq" => (~r.algoNone /\ r.eqFlag /\ r.ineqFlag))      \* the flags only matter for loss minimisation
               /\ (r.algoNone => (r.eqFlag /\ r.ineqFlag))
               /\ ~(r.para /\ r.viol = "eq")                                       \* the equality parametrisation cannot violate equality
               /\ (r.viol = "none" => (r.level = "below" /\ r.rep = 1 /\ r.idx = 1))
Init == row \in NoiseRows \cup {r \in CheckRows : Relevant(r)}
Next == UNCHANGED row
Spec == Init /\ [][Next]_row

D == 2
Ideal == CASE row.typ = "state" -> QState(row.name) [] row.typ = "povm" -> QPovm(row.name)
           [] row.typ = "gate" -> QGate(row.name) [] row.typ = "mprocess" -> QMProcess(row.name)
Noisy == LET p == Rate(row.p) IN
         CASE row.typ = "state" -> DepState(p, Ideal)
           [] row.typ = "povm" -> [x \in 1..Len(Ideal) |-> DepEffect(p, Ideal[x])]
           [] row.typ = "gate" -> DepMap(p, Ideal)
           [] row.typ = "mprocess" -> [x \in 1..Len(Ideal) |-> DepMap(p, Ideal[x])]
\* "mixing the ideal object with the maximally mixed one in proportion p"
MixtureLaw == row.k = "noise" =>
    LET p == Rate(row.p) IN
    CASE row.typ = "state" -> Noisy = Mix(p, Ideal, MixedState(Ideal, D))
      [] row.typ = "povm" -> \A x \in 1..Len(Ideal) : Noisy[x] = Mix(p, Ideal[x], MixedEffect(Ideal[x]))
      [] row.typ = "gate" -> Noisy = MixM(p, Ideal, MixedMap(Ideal, D))
      [] row.typ = "mprocess" -> \A x \in 1..Len(Ideal) : Noisy[x] = MixM(p, Ideal[x], MixedMap(Ideal[x], D))
\* the equality constraints survive the noise
NoiseKeepsEquality == row.k = "noise" =>
    CASE row.typ = "state" -> TraceH(Noisy, D) = ROne
      [] row.typ = "povm" -> IsPovmSumH(Noisy)
      [] row.typ = "gate" -> IsTPH(Noisy)
      [] row.typ = "mprocess" -> IsTPH(SumMatsR(Noisy, Len(Noisy[1])))
\* Bloch-vector length never grows (states): positivity is kept
NoiseContracts == (row.k = "noise" /\ row.typ = "state") =>
    RLe(RSum([a \in 1..3 |-> RSq(Noisy[a + 1])]), RSum([a \in 1..3 |-> RSq(Ideal[a + 1])]))
CheckTable == row.k = "check" =>
    (Passes(row) <=> (row.viol = "none" \/ row.level = "below" \/ row.viol \notin Enforced(row.est, row.para, row.algoNone, row.eqFlag, row.ineqFlag)))
EmitRow == IF ~Emit THEN TRUE
           ELSE IF row.k = "noise" THEN PrintT(ToJson([k |-> "noise", typ |-> row.typ, name |-> row.name, p |-> row.p, ideal |-> Ideal, noisy |-> Noisy]))
           ELSE PrintT(ToJson([k |-> "check", row |-> row, passes |-> Passes(row)]))
=============================================================================
