SPECIFICATION Spec
CONSTANT Systems = {"q", "t", "qq"}
CONSTANT NDense = 3
CONSTANT HotStride <- ThoroughStride
CONSTANT Emit = TRUE
INVARIANT ChoiDefinitionsAgree
INVARIANT ChoiHermitian
INVARIANT ChoiRoundTrip
INVARIANT RowColConsistent
INVARIANT VecRoundTrip
INVARIANT VecHermitian
INVARIANT KrausIsHS
INVARIANT EmitCase
