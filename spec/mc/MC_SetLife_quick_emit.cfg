SPECIFICATION Spec
CONSTANT Pool <- QuickPool
CONSTANT Emit = TRUE
VIEW View
