SPECIFICATION SSpec
CONSTANT NRep = 3
CONSTANT Draws = 2
CONSTANT RestartPerRep = FALSE
INVARIANT SRepsIndependent
INVARIANT SReproducible
