------------------------------- MODULE MC_C17 -------------------------------
(* C17: the catalogues.  One state per catalogue item; the Prepare step evaluates the textbook           *)
(* definition exactly; invariants check its self-consistency (norms, unitarity, projector algebra,       *)
(* Clifford relations, named-state actions, completeness of measurement processes); every item is        *)
(* emitted for replay into the library's name dispatchers.                                               *)
EXTENDS QCatalogue, TLC, Json

CONSTANTS Sys, RejectSys, Emit
VARIABLES item, phase, out
vars == <<item, phase, out>>

NoIds == <<>>
It(k, sys, cat, name, ids) == [k |-> k, sys |-> sys, cat |-> cat, name |-> name, ids |-> ids]

ExactGateToks(sys) == CASE sys = "q" -> Q1Clifford [] sys = "qq" -> Q2Gate [] sys = "qqq" -> Q3Gate
                        [] sys = "t" -> T1Exact [] OTHER -> {}
GateItems(k) == {It(k, s, "gate", <<g>>, ids) : <<s, g, ids>> \in
                    {<<s, g, ids>> \in (Sys \X (Q1Clifford \cup Q2Gate \cup Q3Gate \cup T1Exact) \X
                                        {<<>>, <<0, 1>>, <<1, 0>>, <<0, 1, 2>>, <<0, 2, 1>>, <<1, 0, 2>>, <<1, 2, 0>>, <<2, 0, 1>>, <<2, 1, 0>>}) :
                        g \in ExactGateToks(s) /\ ids \in IdsFor(s, g)}}

\* near-miss language: names valid for another system or category, and junk
Junk == {"w0", "x2", "X0", "", "x0x0", "bell", "cx", "01x", "type1", "x-type3"}
Small == {"q", "qq", "t"}
Candidates(cat) == UNION {Names(cat, s) : s \in Small} \cup Singles(Junk)
                   \cup {<<j, v[1]>> : j \in {"w0", "x2"}, v \in Names(cat, "q")}
                   \cup {<<v[1], j>> : j \in {"w0", "X0"}, v \in Names(cat, "q")}
                   \cup UNION {Names(c, "q") : c \in Kinds \ {cat}}
RejectItems == {It("reject", s, c, n, NoIds) : <<s, c, n>> \in
                  {<<s, c, n>> \in RejectSys \X Kinds \X UNION {Candidates(c) : c \in Kinds} :
                      n \in Candidates(c) /\ ~Lookup(c, s, n)}}

Items == {It("names", s, c, <<>>, NoIds) : s \in Sys, c \in Kinds}
         \cup UNION {{It("state", s, "state", n, NoIds) : n \in ExactStateNames(s)} : s \in Sys}
         \cup GateItems("gate")
         \cup {i \in GateItems("action") : i.sys # "t"}
         \cup UNION {{It("povm", s, "povm", n, NoIds) : n \in PovmNames(s)} : s \in Sys}
         \cup UNION {{It("mprocess", s, "mprocess", n, NoIds) : n \in MprocessNames(s)} : s \in Sys}
         \cup (IF "q" \in Sys THEN {It("relations", "q", "gate", <<>>, NoIds)} ELSE {})
         \cup (IF "qq" \in Sys THEN {It("relations", "qq", "gate", <<>>, NoIds)} ELSE {})
         \cup RejectItems

\* ---------------------------------------------------------------- exact tables (constant level: evaluated once)
DensQ == [n \in ExactStateNames("q") |-> Density(StateVec("q", n))]
DensQQ == [n \in ExactStateNames("qq") |-> Density(StateVec("qq", n))]
DensQQQ == [n \in ExactStateNames("qqq") |-> Density(StateVec("qqq", n))]
DensT == [n \in ExactStateNames("t") |-> Density(StateVec("t", n))]
DensTab(sys) == CASE sys = "q" -> DensQ [] sys = "qq" -> DensQQ [] sys = "qqq" -> DensQQQ [] sys = "t" -> DensT
GateOf(it) == IF it.sys = "t" THEN T1GateU(it.name[1]) ELSE GateU(it.sys, it.name[1], it.ids)
G1(tok) == IF tok = "id" THEN MatId(4) ELSE GateH("q", Q1U(tok))

Compute(it) ==
    CASE it.k = "names" ->
            IF it.cat = "gate" /\ it.sys = "tt"
            THEN [names |-> SetToSeq(Singles(T2Single)), pairs |-> "ordered pairs of distinct single names", count |-> Cardinality(T2Single) * (Cardinality(T2Single) - 1) + Cardinality(T2Single)]
            ELSE [names |-> SetToSeq(Names(it.cat, it.sys)), pairs |-> "", count |-> Cardinality(Names(it.cat, it.sys))]
      [] it.k = "state" ->
            LET sv == StateVec(it.sys, it.name) rho == Density(sv)
            IN [vec |-> sv.v, s |-> sv.s, rho |-> rho, h |-> HOf(it.sys, rho)]
      [] it.k = "gate" ->
            LET U == GateOf(it)
            IN [u |-> U.u, s |-> U.s, g |-> IF it.sys = "qqq" THEN <<>> ELSE GateH(it.sys, U)]
      [] it.k = "action" ->
            LET U == GateOf(it) tab == DensTab(it.sys)
                img(n) == Density(ApplyU(U, StateVec(it.sys, n)))
                hit(n) == LET D == img(n) IN {m \in DOMAIN tab : tab[m] = D}
            IN [pairs |-> {<<n, CHOOSE m \in hit(n) : TRUE>> : n \in {n \in DOMAIN tab : hit(n) # {}}}]
      [] it.k = "povm" -> [elems |-> PovmElems(it.name)]
      [] it.k = "mprocess" -> [kraus |-> MpKraus(it.name[1])]
      [] it.k = "relations" ->
            IF it.sys = "q" THEN [g |-> [t \in Q1Clifford |-> G1(t)]]
            ELSE [g |-> [t \in {"cx01", "cx10", "cz", "swap", "ih", "zx01", "zx10", "zz"} |->
                           CASE t = "cx01" -> GateH("qq", GateU("qq", "cx", <<0, 1>>))
                             [] t = "cx10" -> GateH("qq", GateU("qq", "cx", <<1, 0>>))
                             [] t = "cz" -> GateH("qq", GateU("qq", "cz", <<>>))
                             [] t = "swap" -> GateH("qq", GateU("qq", "swap", <<>>))
                             [] t = "zx01" -> GateH("qq", GateU("qq", "zx90", <<0, 1>>))
                             [] t = "zx10" -> GateH("qq", GateU("qq", "zx90", <<1, 0>>))
                             [] t = "zz" -> GateH("qq", GateU("qq", "zz90", <<>>))
                             [] t = "ih" -> GateH("qq", [u |-> Kron(CMatId(2), Q1U("hadamard").u), s |-> 2])]]
      [] it.k = "reject" -> [none |-> TRUE]

Init == item \in Items /\ phase = 0 /\ out = [none |-> TRUE]
Prepare == phase = 0 /\ phase' = 1 /\ out' = Compute(item) /\ UNCHANGED item
Next == Prepare
Spec == Init /\ [][Next]_vars
Ready(k) == phase = 1 /\ item.k = k

\* ---------------------------------------------------------------- invariants
GrammarSizes == Ready("names") =>
    /\ (item.cat = "state" => out.count = CASE item.sys = "q" -> 7 [] item.sys = "qq" -> 53 [] item.sys = "qqq" -> 345 [] item.sys = "t" -> 19 [] item.sys = "tt" -> 325)
    /\ (item.cat = "povm" => out.count = CASE item.sys = "q" -> 3 [] item.sys = "qq" -> 10 [] item.sys = "qqq" -> 27 [] item.sys = "t" -> 8 [] item.sys = "tt" -> 64)
    /\ (item.cat = "gate" => out.count = CASE item.sys = "q" -> 15 [] item.sys = "qq" -> 5 [] item.sys = "qqq" -> 2 [] item.sys = "t" -> 18 [] item.sys = "tt" -> 39204)
StateOk == Ready("state") =>
    LET d == Dim(item.sys) IN
    /\ NormOk([v |-> out.vec, s |-> out.s])
    /\ IsHermitian(out.rho) /\ CTrace(out.rho) = COne /\ CMatMul(out.rho, out.rho) = out.rho
    /\ out.h[1] = R(1, d)
    /\ (Len(item.name) > 1 => out.h = ProductH(item.sys, item.name))
E1(n) == [i \in 1..n |-> IF i = 1 THEN ROne ELSE RZero]
GateOk == Ready("gate") =>
    /\ IsUnitary([u |-> out.u, s |-> out.s])
    /\ (item.sys # "qqq" => /\ out.g[1] = E1(Len(out.g))
                            /\ [a \in 1..Len(out.g) |-> out.g[a][1]] = E1(Len(out.g)))
    /\ (item.sys \in {"q", "qq"} /\ item.name[1] \in (Q1Clifford \cup {"cx", "cz", "swap", "zx90", "zz90"}) => IsSignedPermutation(out.g))
    /\ (item.sys = "qqq" => \A r \in 1..8 : Cardinality({c \in 1..8 : out.u[r][c] = COne}) = 1 /\ Cardinality({c \in 1..8 : out.u[r][c] # CZero}) = 1)
\* single-qubit Clifford gates map the six stabiliser states among themselves; permutation gates map computational states to computational states
BitsName(k, n) == [p \in 1..n |-> IF Bit(k, p, n) = 0 THEN "z0" ELSE "z1"]
ActionOk == Ready("action") =>
    /\ (item.sys = "q" => {p[1] : p \in out.pairs} = ExactStateNames("q") /\ {p[2] : p \in out.pairs} = ExactStateNames("q"))
    \* orientation of the rotations (right-handed: x90 takes +z to -y, y90 takes +z to +x, z90 takes +x to +y)
    /\ (item.sys = "q" /\ item.name[1] = "x90" => <<<<"z0">>, <<"y1">>>> \in out.pairs)
    /\ (item.sys = "q" /\ item.name[1] = "y90" => <<<<"z0">>, <<"x0">>>> \in out.pairs)
    /\ (item.sys = "q" /\ item.name[1] \in {"z90", "phase"} => <<<<"x0">>, <<"y0">>>> \in out.pairs)
    /\ (item.sys = "q" /\ item.name[1] \in {"zm90", "phase_daggered"} => <<<<"x0">>, <<"y1">>>> \in out.pairs)
    /\ (item.sys = "q" /\ item.name[1] = "hadamard" => <<<<"z0">>, <<"x0">>>> \in out.pairs /\ <<<<"y0">>, <<"y1">>>> \in out.pairs)
    /\ (item.name[1] = "swap" => \A a, b \in Q1Exact : <<<<a, b>>, <<b, a>>>> \in out.pairs)
    /\ (item.name[1] = "cx" => \A k \in 0..3 : <<BitsName(k, 2), BitsName(CxMap(k, Pos(item.ids, 1), Pos(item.ids, 2), 2), 2)>> \in out.pairs)
    /\ (item.name[1] = "cx" /\ item.ids = <<0, 1>> => <<<<"x0", "z0">>, <<"bell_phi_plus">>>> \in out.pairs /\ <<<<"x1", "z1">>, <<"bell_psi_minus">>>> \in out.pairs)
    /\ (item.name[1] = "cx" /\ item.ids = <<1, 0>> => <<<<"z0", "x0">>, <<"bell_phi_plus">>>> \in out.pairs)
    /\ (item.name[1] = "toffoli" => \A k \in 0..7 : <<BitsName(k, 3), BitsName(ToffoliMap(k, Pos(item.ids, 1), Pos(item.ids, 2), Pos(item.ids, 3), 3), 3)>> \in out.pairs)
    /\ (item.name[1] = "fredkin" => \A k \in 0..7 : <<BitsName(k, 3), BitsName(FredkinMap(k, Pos(item.ids, 1), Pos(item.ids, 2), Pos(item.ids, 3), 3), 3)>> \in out.pairs)
    /\ (item.name[1] = "cz" => <<<<"x0", "x0">>, <<"x0", "x0">>>> \notin out.pairs /\ <<<<"z1", "x0">>, <<"z1", "x1">>>> \in out.pairs)
PovmItemOk == Ready("povm") => PovmOk(out.elems) /\ Len(out.elems[1]) = Dim(item.sys)
MprocessOk == Ready("mprocess") =>
    LET tok == item.name[1] ks == out.kraus d == Dim(item.sys) E == MpPovm(ks) IN
    /\ SumMatsC(E) = CMatId(d)
    /\ (MpPovmName(tok) # "parity" => E = PovmSingle(MpPovmName(tok)))
    /\ (tok \in MpType1Vec \cup MpType1Kraus => \A x \in 1..Len(ks) : \A k \in 1..Len(ks[x]) : IsProjector(ks[x][k]))
    /\ (tok \in MpType1Kraus => PovmOk(E))
    \* type 2 resets to the first vector: the unnormalised post-measurement state is p_x |psi_0><psi_0|
    /\ (tok \in MpType2 => \A n \in DOMAIN DensTab(item.sys) : \A x \in 1..Len(ks) :
            LET rho == DensTab(item.sys)[n] p == CTrace(CMatMul(E[x], rho))
            IN MpPost(ks[x], rho) = [i \in 1..d |-> [j \in 1..d |-> CMul(p, Density(MpVectors(tok)[1][1])[i][j])]])
RelationsOk == Ready("relations") =>
    IF item.sys = "q"
    THEN /\ \A r \in Q1Relations : MatMul(G1(r[1]), G1(r[2])) = G1(r[3])
         /\ \A r \in Q1Conjugations : MatMul(G1(r[1]), MatMul(G1(r[2]), G1(r[1]))) = G1(r[3])
         /\ out.g["phase"] = out.g["z90"] /\ out.g["phase_daggered"] = out.g["zm90"]
         /\ out.g["x"] = out.g["x180"] /\ out.g["y"] = out.g["y180"] /\ out.g["z"] = out.g["z180"]
    ELSE LET g == out.g I16 == MatId(16) IN
         /\ MatMul(g["cx01"], g["cx01"]) = I16 /\ MatMul(g["cz"], g["cz"]) = I16 /\ MatMul(g["swap"], g["swap"]) = I16
         /\ MatMul(g["swap"], MatMul(g["cx01"], g["swap"])) = g["cx10"]
         /\ MatMul(g["ih"], MatMul(g["cx01"], g["ih"])) = g["cz"]
         /\ MatMul(g["swap"], MatMul(g["zx01"], g["swap"])) = g["zx10"]
         /\ MatMul(g["swap"], MatMul(g["zz"], g["swap"])) = g["zz"]
         /\ MatMul(g["zx01"], MatMul(g["zx01"], MatMul(g["zx01"], g["zx01"]))) = I16
         /\ g["cx01"] # g["cx10"] /\ g["zx01"] # g["zx10"]
RejectOk == Ready("reject") => ~Lookup(item.cat, item.sys, item.name)

EmitCase == IF Emit /\ phase = 1 THEN PrintT(ToJson([k |-> item.k, sys |-> item.sys, cat |-> item.cat, name |-> item.name, ids |-> item.ids,
                                                     out |-> IF item.k = "relations" THEN [none |-> TRUE] ELSE out]))
            ELSE TRUE
=============================================================================
