SPECIFICATION Spec
CONSTANT Systems = {"q", "t"}
CONSTANT NDense = 2
CONSTANT HotStride <- QuickStride
CONSTANT MaxSched = 3
CONSTANT MaxOut = 3
CONSTANT Emit = TRUE
INVARIANT SwapIsOtherConvention
INVARIANT SwapInvolution
INVARIANT TPMarginals
INVARIANT ImageOfIdentity
INVARIANT FlattenLength
INVARIANT RoundTrip
INVARIANT AsCodedListOnUniform
INVARIANT AsCodedListOnlyUniform
INVARIANT TomoNormalised
INVARIANT EmitCase
