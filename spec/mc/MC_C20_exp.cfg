SPECIFICATION Spec
CONSTANT ListCands <- MCListCands
CONSTANT SchedCands <- MCSchedCands
CONSTANT InitLists <- MCInitLists
CONSTANT Emit = FALSE
INVARIANT StoredAcceptable
PROPERTY RejectedUnchanged
PROPERTY RunPure
