SPECIFICATION Spec
CONSTANT StateNames = {"z0", "x1", "y0", "mix1"}
CONSTANT GateNames = {"h", "x90", "ad", "dep", "s"}
CONSTANT MProcNames = {"mz", "mx", "m3"}
INVARIANT EmitItem
