SPECIFICATION Spec
CONSTANT NameSets <- ThoroughNameSets
CONSTANT DimChoices = {2, 3}
CONSTANT Emit = TRUE
CONSTANT FullLayoutMax = 800
INVARIANT EmitCase
