SPECIFICATION Spec
CONSTANT ListCands <- MCListCands
CONSTANT SchedCands <- MCSchedCands
CONSTANT InitLists <- MCInitLists
CONSTANT Emit = TRUE
VIEW View
