SPECIFICATION Spec
CONSTANT Kinds <- PairSM
CONSTANT Reads <- AllReads
CONSTANT Emit = TRUE
VIEW View
