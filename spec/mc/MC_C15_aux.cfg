SPECIFICATION Spec
CONSTANT Rates <- RatesDef
CONSTANT StateNames = {"z0", "x1", "y0", "mix1"}
CONSTANT PovmNames = {"z", "x", "p3", "u2"}
CONSTANT GateNames = {"id", "h", "x90", "ad"}
CONSTANT MProcNames = {"mz", "mx", "m3"}
CONSTANT Emit = TRUE
INVARIANT MixtureLaw
INVARIANT NoiseKeepsEquality
INVARIANT NoiseContracts
INVARIANT CheckTable
INVARIANT EmitRow
