SPECIFICATION Spec
CONSTANT Types = {"state", "povm", "gate", "mprocess"}
CONSTANT Shapes = {"q", "t"}
CONSTANT Classes = {"interior", "pure", "rankdef", "mixedrank", "faint"}
CONSTANT Ks = {3, 8, 13}
CONSTANT Emit = FALSE
CONSTANT EmitLags = {0, 1}
INVARIANT PhysIsConjunction
INVARIANT ExactIsPhysical
INVARIANT ConstructIffPhysical
INVARIANT GrossIsUnphysical
PROPERTY Monotone
INVARIANT EmitCase
