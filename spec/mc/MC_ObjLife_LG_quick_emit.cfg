SPECIFICATION Spec
CONSTANT Kinds <- PairLG
CONSTANT Reads <- QuickReads
CONSTANT Emit = TRUE
VIEW View
