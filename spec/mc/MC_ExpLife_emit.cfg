SPECIFICATION Spec
CONSTANT StateToks = {"a", "x0", "z1"}
CONSTANT GateToks = {"hadamard", "x90"}
CONSTANT PovmToks = {"x", "z"}
CONSTANT S0 = "a"
CONSTANT G0 = "hadamard"
CONSTANT P0 = "x"
CONSTANT NS = 2
CONSTANT NP = 2
CONSTANT Emit = TRUE
VIEW View
