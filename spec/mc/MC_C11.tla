------------------------------- MODULE MC_C11 -------------------------------
(* C11: the backtracking projected-gradient machine of optimize() in exact arithmetic on the      *)
(* classical fragment: one-qubit state tomography with testers x, y, z, variables not constrained  *)
(* (mu = 3/4), data (1/2,1/2), (1/2,1/2), (a, 1-a): every iterate stays diagonal, so in spectral    *)
(* coordinates lambda = (l0, l1) the projection is the simplex projection.                          *)
EXTENDS QOpt, TLC, Json

CONSTANTS AVals, AModes, EpsDen, K, Emit
QuickA == {RZero, R(1, 10), R(1, 4), R(4, 5), ROne}
ThoroughA == {RZero, R(1, 10), R(1, 5), R(1, 4), R(2, 5), R(1, 2), R(3, 4), R(4, 5), R(9, 10), ROne}

VARIABLES a, mode, st      \* st = [x, k, j, fx, err, win, done, marg]
vars == <<a, mode, st>>

A == <<<<R(1, 2), R(1, 2)>>, <<R(1, 2), R(1, 2)>>, <<R(1, 2), R(1, 2)>>, <<R(1, 2), R(1, 2)>>, <<ROne, RZero>>, <<RZero, ROne>>>>
B == VZero(6)
Q(av) == <<R(1, 2), R(1, 2), R(1, 2), R(1, 2), av, RSub(ROne, av)>>
MU == R(3, 4)
GAMMA == R(3, 10)
EPS == R(1, EpsDen)
F(x) == Obj(A, B, Q(a), x)

Init == /\ a \in AVals /\ mode \in AModes
        /\ st = [x |-> <<R(1, 2), R(1, 2)>>, k |-> 0, j |-> 0, fx |-> Obj(A, B, Q(a), <<R(1, 2), R(1, 2)>>),
                 err |-> RZero, done |-> FALSE, marg |-> ROne, y |-> VZero(2)]
\* the error value of the stopping mode; the two norm modes are compared through their squares (window of one)
ErrOf(x, xn, y) ==
    CASE mode = "single_difference_loss" -> RSub(F(x), F(xn))
      [] mode = "sum_absolute_difference_loss" -> RAbs(RSub(F(x), F(xn)))
      [] mode = "sum_absolute_difference_variable" -> Dist2(x, xn)           \* squared
      [] mode = "sum_absolute_difference_projected_gradient" -> Dot(y, y)   \* squared
Thr == IF mode \in {"sum_absolute_difference_variable", "sum_absolute_difference_projected_gradient"} THEN RSq(EPS) ELSE EPS
Iterate == /\ ~st.done /\ st.k < K
           /\ LET x == st.x
                  y == Direction(A, B, Q(a), MU, x)
                  j == Halvings(A, B, Q(a), GAMMA, x, y, 0)
                  al == R(1, 2 ^ j)
                  xn == VAdd(x, VScale(al, y))
                  e == ErrOf(x, xn, y)
                  g == Grad(A, B, Q(a), x)
                  \* Armijo margin at the accepted step (>= 0) : rhs - lhs
                  mg == RSub(RAdd(F(x), RMul(RMul(GAMMA, al), Dot(y, g))), F(xn))
              IN st' = [x |-> xn, k |-> st.k + 1, j |-> j, fx |-> F(xn), err |-> e, done |-> RLe(e, Thr), marg |-> mg, y |-> y]
           /\ UNCHANGED <<a, mode>>
Spec == Init /\ [][Iterate]_vars

\* along a run the loss never increases and every iterate is feasible
LossMonotone == [][RLe(st'.fx, st.fx)]_vars
IteratesFeasible == Physical(st.x)
\* the accepted step satisfies the Armijo inequality, and the previous (doubled) step did not
ArmijoAtAcceptance == st.k >= 1 => RLe(RZero, st.marg)
\* stopping: done exactly when the value of the stopping rule is at most the threshold
StopRule == st.k >= 1 => (st.done <=> RLe(st.err, Thr))
\* a fixed point of the iteration satisfies the first-order optimality condition over the simplex grid
FixedPointOptimal == (st.k >= 1 /\ st.y = VZero(2)) =>
    \A z \in {<<R(g, 8), R(8 - g, 8)>> : g \in 0..8} : RLe(RZero, Dot(Grad(A, B, Q(a), st.x), VSub(z, st.x)))
\* exact data of a physical object: the optimum is that object, loss 0; closed form of the constrained optimum here
Optimum == <<a, RSub(ROne, a)>>
OptimumIsFeasibleAndBest == Physical(Optimum) /\ F(Optimum) = RZero /\ RLe(F(Optimum), st.fx)

EmitCase == IF Emit THEN PrintT(ToJson([a |-> a, mode |-> mode, eps |-> EPS, st |-> st, optimum |-> Optimum])) ELSE TRUE
=============================================================================
