SPECIFICATION Spec9
CONSTANT Types4 = {"qst", "povmt", "qpt", "qmpt"}
CONSTANT StateSets = {"S4", "S6", "S3"}
CONSTANT PovmSets = {"P3", "Pmix", "P2"}
CONSTANT SchedVariants = {"all", "permrep"}
CONSTANT Ms = {2, 3}
CONSTANT NData = 3
CONSTANT SolveMax = 8
CONSTANT Emit = TRUE
INVARIANT ResidualOrthogonal
INVARIANT InvertsModel
INVARIANT RecoversPhysicalSmall
INVARIANT RankAsExpected
INVARIANT HasNulls
INVARIANT EmitCase9
