SPECIFICATION Spec
CONSTANT MaxLen = 5
INVARIANT AutEqDecl
INVARIANT OneClass
INVARIANT AcceptedShape
INVARIANT ListRule
INVARIANT TomoSub
