------------------------------- MODULE MC_C08 -------------------------------
(* C08: the forward model (A, b) equals the circuit's Born-rule statistics on an affine      *)
(* basis of variable space, for every configuration; C09 / C12 / C19 instances reuse Configs. *)
EXTENDS QTomo, TLC, Json

CONSTANTS Types4, StateSets, PovmSets, SchedVariants, Ms, Emit

VARIABLES tomo, cand        \* cand: 0 = origin, k = origin + e_k, NumVar+1 = a dense vector
vars == <<tomo, cand>>

StateSet(n) ==
    CASE n = "S4" -> <<QState("x0"), QState("y0"), QState("z0"), QState("z1")>>
      [] n = "S6" -> <<QState("x0"), QState("x1"), QState("y0"), QState("y1"), QState("z0"), QState("z1")>>
      [] n = "S3" -> <<QState("z0"), QState("z1"), QState("x0")>>                       \* not complete
      [] n = "Smix" -> <<QState("mix1"), QState("mix2"), QState("z0"), QState("y1"), QState("x1")>>
PovmSet(n) ==
    CASE n = "P3" -> <<QPovm("x"), QPovm("y"), QPovm("z")>>
      [] n = "Pmix" -> <<QPovm("z"), QPovm("p3"), QPovm("p4")>>                           \* mixed outcome counts
      [] n = "P2" -> <<QPovm("x"), QPovm("z")>>                                          \* not complete
      [] n = "Pdy" -> <<QPovm("x"), QPovm("p4"), QPovm("z")>>                            \* mixed outcome counts 2, 4, 2; dyadic entries
      [] n = "Pu" -> <<QPovm("u2"), QPovm("p4"), QPovm("x")>>
      \* uniform outcome counts 3 and 4: rotated copies (Heisenberg picture) of the catalogue POVMs
      [] n = "P33" -> <<QPovm("p3"), [k \in 1..3 |-> HeisenbergH(QPovm("p3")[k], QGate("h"), PauliNu)],
                        [k \in 1..3 |-> HeisenbergH(QPovm("p3")[k], QGate("x90"), PauliNu)]>>
      [] n = "P44" -> <<QPovm("p4"), [k \in 1..4 |-> HeisenbergH(QPovm("p4")[k], QGate("h"), PauliNu)]>>

AllScheds(type, ns, np) ==
    CASE type = "qst"   -> [j \in 1..np |-> <<1, j>>]
      [] type = "povmt" -> [i \in 1..ns |-> <<i, 1>>]
      [] OTHER          -> [k \in 1..(ns * np) |-> <<((k - 1) \div np) + 1, ((k - 1) % np) + 1>>]
Rev(s) == [k \in 1..Len(s) |-> s[Len(s) + 1 - k]]
Variant(v, all) ==
    CASE v = "all" -> all
      [] v = "subset" -> SubSeq(all, 1, Len(all) - 1)
      [] v = "permrep" -> Rev(all) \o <<all[1]>>          \* permuted, with one repetition

MkTomo(type, ss, ps, sv, m, para) ==
    LET states == StateSet(ss) povms == PovmSet(ps) IN
    [type |-> type, sys |-> <<2>>, m |-> IF type \in {"povmt", "qmpt"} THEN m ELSE 1, para |-> para,
     states |-> IF type = "qst" THEN <<>> ELSE states,
     povms |-> IF type = "povmt" THEN <<>> ELSE povms,
     scheds |-> Variant(sv, AllScheds(type, Len(states), Len(povms))),
     tag |-> <<ss, ps, sv>>]

Init == /\ tomo \in {MkTomo(ty, ss, ps, sv, m, para) : ty \in Types4, ss \in StateSets, ps \in PovmSets,
                                                      sv \in SchedVariants, m \in Ms, para \in BOOLEAN}
        /\ cand = 0
Next == /\ cand < TNumVar(tomo) + 1
        /\ cand' = cand + 1
        /\ UNCHANGED tomo
Spec == Init /\ [][Next]_vars

Cand == LET nv == TNumVar(tomo) IN
        IF cand = 0 THEN VZero(nv)
        ELSE IF cand <= nv THEN VUnit(nv, cand)
        ELSE [k \in 1..nv |-> R((k % 5) - 2, (k % 3) + 1)]

ModelEqualsCircuit == ModelAll(tomo, Cand) = CircuitAll(tomo, Cand)
OneColumnPerVariable == LET A == MatA(tomo) IN Cols(A) = TNumVar(tomo) /\ Rows(A) = Len(RowList(tomo)) /\ Len(VecB(tomo)) = Rows(A)
\* every schedule's predicted distribution sums to the trace of the (rebuilt) object flow: for
\* candidates on the constraint (para = TRUE) it sums to one
NormalisedOnConstraint == tomo.para =>
    \A s \in 1..Len(tomo.scheds) : RSum(CircuitDist(tomo, Cand, s)) = ROne

\* physical candidates from the exact catalogue (the circuit side of the library clips and renormalises,
\* so it is compared on physical objects only)
PhysNames == CASE tomo.type = "qst" -> {"z0", "x1", "y0", "mix1", "mix2"}
               [] tomo.type = "povmt" -> (CASE tomo.m = 2 -> {"x", "z", "u2"} [] tomo.m = 3 -> {"p3"} [] tomo.m = 4 -> {"p4"} [] tomo.m = 5 -> {"p5"})
               [] tomo.type = "qpt" -> {"h", "x90", "ad", "dep", "s"}
               [] tomo.type = "qmpt" -> (CASE tomo.m = 2 -> {"mz", "mx"} [] tomo.m = 3 -> {"m3"} [] tomo.m = 4 -> {"m4"} [] tomo.m = 5 -> {"m5"})
PhysObj(n) == CASE tomo.type = "qst" -> QState(n) [] tomo.type = "povmt" -> QPovm(n)
                [] tomo.type = "qpt" -> QGate(n) [] tomo.type = "qmpt" -> QMProcess(n)
PhysVar(n) == LET o == PhysObj(n) IN
    CASE tomo.type = "qst" -> VarOfCells(tomo, LAMBDA c : o[c[2] + 1])
      [] tomo.type = "povmt" -> VarOfCells(tomo, LAMBDA c : o[c[1] + 1][c[2] + 1])
      [] tomo.type = "qpt" -> VarOfCells(tomo, LAMBDA c : o[c[2] + 1][c[3] + 1])
      [] tomo.type = "qmpt" -> VarOfCells(tomo, LAMBDA c : o[c[1] + 1][c[2] + 1][c[3] + 1])
\* physical candidates are on the constraint: model = circuit for them under both flags
PhysModelEqualsCircuit == cand = 0 => \A n \in PhysNames :
    LET v == PhysVar(n) IN ModelAll(tomo, v) = CircuitAll(tomo, v)

OnlyFirst == cand = 0
EmitCase == IF Emit /\ cand = 0
            THEN PrintT(ToJson([tomo |-> tomo, A |-> MatA(tomo), b |-> VecB(tomo), numvar |-> TNumVar(tomo),
                                rank |-> RankP(MatA(tomo)),
                                phys |-> {[name |-> n, obj |-> PhysObj(n), var |-> PhysVar(n), dist |-> CircuitAll(tomo, PhysVar(n))] : n \in PhysNames}]))
            ELSE TRUE
=============================================================================
