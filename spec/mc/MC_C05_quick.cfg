SPECIFICATION Spec
CONSTANT Ns = {2, 3}
CONSTANT GridNum <- QuickGrid
CONSTANT GridDen = 2
CONSTANT K = 5
CONSTANT ListNs = {4, 8, 12}
CONSTANT NList = 12
CONSTANT Emit = FALSE
INVARIANT NearestIsPhysical
INVARIANT NearestIsNearest
INVARIANT FixedOnPhysical
INVARIANT Conservation
INVARIANT IteratesFeasible
INVARIANT StopOnlyAtFixedPoint
PROPERTY DistanceMonotone
INVARIANT EmitCase
