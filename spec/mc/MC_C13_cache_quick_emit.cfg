SPECIFICATION Spec
CONSTANT Tables <- QuickTables
CONSTANT Group <- MCGroup
CONSTANT PureActs <- QuickPure
CONSTANT Tomos = {}
CONSTANT Datas = {}
CONSTANT Modes = {}
CONSTANT AsCoded = FALSE
CONSTANT Emit = TRUE
VIEW View
