SPECIFICATION Spec
CONSTANT Kinds <- PairPG
CONSTANT Reads <- AllReads
CONSTANT Emit = TRUE
VIEW View
