SPECIFICATION Spec
CONSTANT Kinds <- PairSM
CONSTANT Reads <- QuickReads
CONSTANT Emit = TRUE
VIEW View
