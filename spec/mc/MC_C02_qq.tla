------------------------------ MODULE MC_C02_qq ------------------------------
(* C02, two-qubit supplement of the quick tier: computational-basis forms (row- and column-major) of    *)
(* generic and one-hot two-qubit maps.  The HS matrix is bound once per state inside the invariant       *)
(* (TLC caches LET values in state predicates; the Prepare-action pattern of MC_C02 is 100 times slower  *)
(* for 16 x 16 matrices).  Choi and process matrices of two-qubit maps are in the thorough tier of MC_C02.*)
EXTENDS QConv, TLC, Json
CONSTANTS NDense, Hots
VARIABLES inp, phase
vars == <<inp, phase>>
S == <<2, 2>>
DenseG(k) == [a \in 1..16 |-> [b \in 1..16 |-> R(((a * 5 + b * 3 + k * 7 + a * b) % 7) - 3, 1 + ((a + b + k) % 2))]]
OneHotG(a, b) == [i \in 1..16 |-> [j \in 1..16 |-> IF i = a /\ j = b THEN ROne ELSE RZero]]
HotPairs == {<<2, 7>>, <<11, 3>>, <<16, 16>>, <<6, 12>>}
Init == phase = 0 /\ inp \in {DenseG(k) : k \in 1..NDense} \cup {OneHotG(p[1], p[2]) : p \in {q \in HotPairs : q[1] <= Hots * 16}}
Next == phase = 0 /\ phase' = 1 /\ UNCHANGED inp
Spec == Init /\ [][Next]_vars
Body(G) ==
    LET hs == HSComp(G, S, TRUE)
        hc == HSColFromRow(hs, 4)
        img == Act(G, Eij(4, IdxCol(4, 2)[1], IdxCol(4, 2)[2]), S)
    IN /\ \A r \in 1..16 : hc[r][2] = img[IdxCol(4, r)[1]][IdxCol(4, r)[2]]
       /\ PrintT(ToJson([kind |-> "gate", sys |-> S, G |-> G, choi |-> <<>>, hsrow |-> hs, hscol |-> hc, process |-> <<>>]))
Checks == IF phase = 0 THEN TRUE ELSE Body(inp)
=============================================================================
