SPECIFICATION Spec
CONSTANT Types4 = {"qst", "povmt", "qpt", "qmpt"}
CONSTANT StateSets = {"S4", "S6", "S3", "Smix"}
CONSTANT PovmSets = {"P3", "Pmix", "P2", "Pu"}
CONSTANT SchedVariants = {"all", "subset", "permrep"}
CONSTANT Ms = {2, 3, 4}
CONSTANT Emit = TRUE
INVARIANT EmitCase
CONSTRAINT OnlyFirst
