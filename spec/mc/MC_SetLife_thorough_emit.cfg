SPECIFICATION Spec
CONSTANT Pool <- ThoroughPool
CONSTANT Emit = TRUE
VIEW View
