SPECIFICATION Spec
CONSTANT NameLists <- ThoroughLists
CONSTANT TKinds = {"state", "povm"}
CONSTANT NSys = {1, 2}
CONSTANT Rates <- ThoroughRates
CONSTANT Emit = TRUE
INVARIANT Physical
INVARIANT Mixtures
INVARIANT RankProduct
INVARIANT RankUnderNoise
INVARIANT Products
INVARIANT EmitCase
