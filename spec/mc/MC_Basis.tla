------------------------------ MODULE MC_Basis ------------------------------
(* The matrix bases of the specification (QBasis: integer Pauli / Gell-Mann matrices and their Kronecker        *)
(* products, with the norms nu_a = Tr H_a^2) as data for the binding of the library's basis catalogue            *)
(* (quara.objects.matrix_basis): orthogonality, Hermiticity, identity first, tracelessness and completeness      *)
(* are checked here in exact arithmetic; the library's typical bases are compared entry by entry in C02.         *)
EXTENDS QBasis, TLC, Json
CONSTANTS Emit
VARIABLES sys, phase
vars == <<sys, phase>>
Systems == {<<2>>, <<3>>, <<2, 2>>, <<2, 3>>, <<3, 2>>}
Init == sys \in Systems /\ phase = 0
Next == phase = 0 /\ phase' = 1 /\ UNCHANGED sys
Spec == Init /\ [][Next]_vars

B(s) == BasisOf(s)
Nu(s) == NuOf(s)
D(s) == DimOf(s)
OrthogonalB(s) == LET b == TLCEval(B(s)) nu == Nu(s) IN
    \A i, j \in 1..Len(b) : HSInner(b[i], b[j]) = (IF i = j THEN CI(nu[i], 0) ELSE CZero)
HermitianB(s) == LET b == TLCEval(B(s)) IN \A i \in 1..Len(b) : Dagger(b[i]) = b[i]
IdentityFirstB(s) == B(s)[1] = CMatId(D(s))
TracelessB(s) == LET b == TLCEval(B(s)) IN \A i \in 2..Len(b) : CTrace(b[i]) = CZero
CompleteB(s) == Len(B(s)) = D(s) * D(s)
BasisOk == phase = 1 => (OrthogonalB(sys) /\ HermitianB(sys) /\ IdentityFirstB(sys) /\ TracelessB(sys) /\ CompleteB(sys))
EmitCase == IF Emit /\ phase = 1 THEN PrintT(ToJson([sys |-> sys, nu |-> Nu(sys), basis |-> B(sys)])) ELSE TRUE
=============================================================================
