SPECIFICATION Spec
CONSTANT MaxVars = 4
CONSTANT MaxVal = 5
CONSTANT TShapes <- QuickShapes
CONSTANT Weights <- QuickWeights
CONSTANT Emit = TRUE
INVARIANT EmitCase
