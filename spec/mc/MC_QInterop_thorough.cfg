SPECIFICATION Spec
CONSTANT Systems = {"q", "t", "qq"}
CONSTANT NDense = 2
CONSTANT HotStride <- ThoroughStride
CONSTANT MaxSched = 4
CONSTANT MaxOut = 4
CONSTANT Emit = TRUE
INVARIANT SwapIsOtherConvention
INVARIANT SwapInvolution
INVARIANT TPMarginals
INVARIANT ImageOfIdentity
INVARIANT FlattenLength
INVARIANT RoundTrip
INVARIANT AsCodedListOnUniform
INVARIANT AsCodedListOnlyUniform
INVARIANT TomoNormalised
INVARIANT EmitCase
