------------------------------- MODULE MC_C01 -------------------------------
(* C01: physicality verdicts.  A state is an abstract object (type, shape, spectrum class,    *)
(* equality deviation, most negative eigenvalue) judged at tolerance 10^-k; the Loosen step     *)
(* moves to the next looser tolerance.                                                          *)
EXTENDS QSpectral, TLC, Json

CONSTANTS Types, Shapes, Classes, Ks, Emit, EmitLags
VARIABLES obj, k
vars == <<obj, k>>

Mag(m, e) == [m |-> m, e |-> e]
\* deviations relative to the tolerance 10^-k0 the object was built for: 0, 0.5, 0.8 (inside), 1.2, 2, 10, 1000 atol, and O(1)
Devs(k0) == {Mag(0, 0), Mag(5, k0 + 1), Mag(8, k0 + 1), Mag(12, k0 + 1), Mag(2, k0), Mag(1, k0 - 1), Mag(3, 1)}
             \cup (IF k0 >= 4 THEN {Mag(1, k0 - 3)} ELSE {})

Init == /\ k \in Ks
        /\ obj \in {[type |-> ty, shape |-> sh, class |-> cl, eqDev |-> ed, negDev |-> nd, k0 |-> k] :
                       ty \in Types, sh \in Shapes, cl \in Classes, ed \in Devs(k), nd \in Devs(k)}
Loosen == /\ k > 2 /\ k' = k - 1 /\ UNCHANGED obj
Next == Loosen
Spec == Init /\ [][Next]_vars

\* the physicality verdict is the conjunction of the two sub-verdicts
PhysIsConjunction == \A v \in Verdicts(obj, k) : v.phys = (v.eq /\ v.ineq)
\* loosening the tolerance never turns a (forced) true verdict false
Monotone == [][/\ (Within(obj.eqDev, k) = {TRUE} => Within(obj.eqDev, k') = {TRUE})
               /\ (Within(obj.negDev, k) = {TRUE} => Within(obj.negDev, k') = {TRUE})
               /\ (Within(obj.eqDev, k') = {FALSE} => Within(obj.eqDev, k) = {FALSE})]_vars
\* an exactly physical object is physical at every tolerance; construction succeeds exactly for physical objects
ExactIsPhysical == (obj.eqDev.m = 0 /\ obj.negDev.m = 0) => Verdicts(obj, k) = {[eq |-> TRUE, ineq |-> TRUE, phys |-> TRUE]}
ConstructIffPhysical == ("ok" \in ConstructOutcomes(obj, k)) <=> (\E v \in Verdicts(obj, k) : v.phys)
\* gross violations are rejected at every tolerance of the range
GrossIsUnphysical == (obj.eqDev = Mag(3, 1) \/ obj.negDev = Mag(3, 1)) => \A v \in Verdicts(obj, k) : ~v.phys

EmitCase == IF Emit /\ (obj.k0 - k) \in EmitLags THEN PrintT(ToJson([obj |-> obj, k |-> k, verdicts |-> Verdicts(obj, k), construct |-> ConstructOutcomes(obj, k)])) ELSE TRUE
=============================================================================
