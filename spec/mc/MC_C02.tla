------------------------------- MODULE MC_C02 -------------------------------
(* C02: all representations of one object denote the same operator.                             *)
(* States: (system, input) with the input a complete basis of the input space (one-hot matrices    *)
(* / vectors) plus dense small-integer inputs with sigma_y-type components.                       *)
EXTENDS QConv, TLC, Json

CONSTANTS Systems, NDense, Emit, HotStride      \* HotStride[s]: every n-th one-hot input of system s is taken
QuickStride == [s \in {"q", "t", "qq", "qt"} |-> IF s = "q" THEN 1 ELSE 16]
ThoroughStride == [s \in {"q", "t", "qq", "qt"} |-> IF s \in {"q", "t"} THEN 1 ELSE 23]

VARIABLES sys, kind, inp, hs      \* hs: row-major computational HS matrix of a gate input, computed by the Prepare step
vars == <<sys, kind, inp, hs>>

SysOf(s) == CASE s = "q" -> <<2>> [] s = "t" -> <<3>> [] s = "qq" -> <<2, 2>> [] s = "qt" -> <<2, 3>>
Sq(x) == x * x
N2(s) == Sq(DimOf(SysOf(s)))
DenseG(s, k) == [a \in 1..N2(s) |-> [b \in 1..N2(s) |-> R(((a * 5 + b * 3 + k * 7 + a * b) % 7) - 3, 1 + ((a + b + k) % 2))]]
DenseV(s, k) == [a \in 1..N2(s) |-> R(((a * 5 + k * 3 + a * k) % 7) - 3, 1 + ((a + k) % 3))]
OneHotG(s, a, b) == [i \in 1..N2(s) |-> [j \in 1..N2(s) |-> IF i = a /\ j = b THEN ROne ELSE RZero]]

Init == /\ sys \in Systems
        /\ \/ kind = "gate" /\ inp \in {OneHotG(sys, pr[1], pr[2]) : pr \in {qq \in (1..N2(sys)) \X (1..N2(sys)) : ((qq[1] - 1) * N2(sys) + qq[2] - 1) % HotStride[sys] = 0}} \cup {DenseG(sys, k) : k \in 1..NDense}
           \/ kind = "vec" /\ inp \in {VUnit(N2(sys), a) : a \in 1..N2(sys)} \cup {DenseV(sys, k) : k \in 1..NDense}
           \/ kind = "kraus" /\ sys = "q" /\ inp \in {"h", "s", "x90", "ad", "dep", "id"}
        /\ hs = <<>>
Next == /\ hs = <<>> /\ kind \in {"gate", "kraus"}
        /\ hs' = HSComp(IF kind = "gate" THEN inp ELSE QGate(inp), SysOf(sys), TRUE)
        /\ UNCHANGED <<sys, kind, inp>>
Spec == Init /\ [][Next]_vars

S == SysOf(sys)
DD == DimOf(S)
Ready == hs # <<>>
\* the three definitions of the Choi matrix agree
ChoiDefinitionsAgree == (kind = "gate" /\ Ready) =>
    LET c == ChoiAlg(inp, S) IN c = ChoiStd(hs, DD) /\ c = ChoiReshuffle(hs, DD)
\* a real H-coordinate matrix is a Hermiticity-preserving map: its Choi matrix is Hermitian
ChoiHermitian == kind = "gate" => IsHermitian(ChoiAlg(inp, S))
\* conversion followed by its inverse is the identity
ChoiRoundTrip == kind = "gate" =>
    GFromChoi(ChoiAlg(inp, S), S) = [a \in 1..Len(inp) |-> [b \in 1..Len(inp) |-> <<inp[a][b], RZero>>]]
\* row- and column-major computational forms are transposes of each other's index order
\* one column-major entry recomputed from the action of the map (spot check of the re-indexing)
RowColConsistent == (kind = "gate" /\ Ready) =>
    LET hc == HSColFromRow(hs, DD)
        img == Act(inp, Eij(DD, IdxCol(DD, 2)[1], IdxCol(DD, 2)[2]), S)
    IN \A r \in 1..(DD * DD) : hc[r][2] = img[IdxCol(DD, r)[1]][IdxCol(DD, r)[2]]
\* vectors: matrix -> coordinates -> matrix
VecRoundTrip == kind = "vec" => OpH(FromH(inp, BasisOf(S)), S) = inp
VecHermitian == kind = "vec" => IsHermitian(FromH(inp, BasisOf(S)))
\* Kraus sets of the exact CP catalogue: sum K (x) conj K is the row-major computational HS matrix
KrausSet(n) == CASE n = "h" -> <<<<U_H>>, R(1, 2)>> [] n = "s" -> <<<<U_S>>, ROne>> [] n = "x90" -> <<<<U_X90>>, R(1, 2)>>
                 [] n = "ad" -> <<<<AD0, AD1>>, R(1, 25)>> [] n = "id" -> <<<<U_I>>, ROne>>
                 [] n = "dep" -> <<<<CMatScale(RI(1), U_I)>>, ROne>>
KrausIsHS == (kind = "kraus" /\ inp # "dep" /\ Ready) =>
    HSFromKraus(KrausSet(inp)[1], KrausSet(inp)[2]) = hs

EmitCase == IF ~Emit THEN TRUE
    ELSE IF kind = "gate" THEN (IF Ready THEN PrintT(ToJson([kind |-> "gate", sys |-> S, G |-> inp, choi |-> ChoiAlg(inp, S),
                                              hsrow |-> hs, hscol |-> HSColFromRow(hs, DD), process |-> ProcessMatrix(hs, DD)])) ELSE TRUE)
    ELSE IF kind = "vec" THEN PrintT(ToJson([kind |-> "vec", sys |-> S, x |-> inp, mat |-> FromH(inp, BasisOf(S))]))
    ELSE IF Ready THEN PrintT(ToJson([kind |-> "kraus", sys |-> <<2>>, name |-> inp, G |-> QGate(inp), hsrow |-> hs])) ELSE TRUE
=============================================================================
