----------------------------- MODULE MC_QInterop -----------------------------
(* Exchange formats (QInterop): gates as Choi matrices in the other factor order, empirical distributions as one   *)
(* flat vector.  States: one case each (a gate input / a catalogue gate / a layout of schedules), as in MC_C02.   *)
EXTENDS QInterop, TLC, Json

CONSTANTS Systems, NDense, HotStride, MaxSched, MaxOut, Emit
QuickStride == [s \in {"q", "t", "qq"} |-> IF s = "q" THEN 1 ELSE IF s = "t" THEN 7 ELSE 37]
ThoroughStride == [s \in {"q", "t", "qq"} |-> IF s = "q" THEN 1 ELSE IF s = "t" THEN 1 ELSE 11]

VARIABLES sys, kind, inp, hs
vars == <<sys, kind, inp, hs>>

SysOf(s) == CASE s = "q" -> <<2>> [] s = "t" -> <<3>> [] s = "qq" -> <<2, 2>>
Sq(x) == x * x
N2(s) == Sq(DimOf(SysOf(s)))
DenseG(s, k) == [a \in 1..N2(s) |-> [b \in 1..N2(s) |-> R(((a * 5 + b * 3 + k * 7 + a * b) % 7) - 3, 1 + ((a + b + k) % 2))]]
OneHotG(s, a, b) == [i \in 1..N2(s) |-> [j \in 1..N2(s) |-> IF i = a /\ j = b THEN ROne ELSE RZero]]
CatNames == {"id", "x", "y", "h", "s", "x90", "y90", "ad", "dep"}
LabelSeqs == UNION {[1..n -> 1..MaxOut] : n \in 1..MaxSched}

Init == /\ \/ /\ kind = "gate" /\ sys \in Systems
              /\ inp \in {OneHotG(sys, pr[1], pr[2]) : pr \in {qq \in (1..N2(sys)) \X (1..N2(sys)) : ((qq[1] - 1) * N2(sys) + qq[2] - 1) % HotStride[sys] = 0}} \cup {DenseG(sys, k) : k \in 1..NDense}
           \/ kind = "cat" /\ sys = "q" /\ inp \in CatNames
           \/ kind = "dists" /\ sys = "-" /\ inp \in [label : LabelSeqs, common : BOOLEAN]
        /\ hs = <<>>
Next == /\ hs = <<>> /\ kind \in {"gate", "cat"}
        /\ hs' = HSComp(IF kind = "gate" THEN inp ELSE QGate(inp), SysOf(sys), TRUE)
        /\ UNCHANGED <<sys, kind, inp>>
Spec == Init /\ [][Next]_vars

S == SysOf(sys)
DD == DimOf(S)
Ready == hs # <<>>
IsG == kind \in {"gate", "cat"} /\ Ready

\* the swap of the two factors turns one convention into the other, and back
SwapIsOtherConvention == IsG => SwapConj(ChoiStd(hs, DD), DD) = ChoiOther(hs, DD)
SwapInvolution == IsG => SwapConj(SwapConj(ChoiStd(hs, DD), DD), DD) = ChoiStd(hs, DD)
\* which factor carries the input: a trace-preserving map has the identity as the partial trace over the OUTPUT factor,
\* the first factor here and the second one there
TPMarginals == (kind = "cat" /\ Ready) =>
    /\ PTrFirst(ChoiStd(hs, DD), DD) = CMatId(DD)
    /\ PTrSecond(ChoiOther(hs, DD), DD) = CMatId(DD)
\* ... and the other marginal is the image of the identity (not the identity unless the map is unital)
ImageOfIdentity == (kind = "cat" /\ Ready) =>
    LET img == Act(QGate(inp), CMatId(DD), S)
    IN PTrSecond(ChoiStd(hs, DD), DD) = img /\ PTrFirst(ChoiOther(hs, DD), DD) = img

\* ------------------------------------------------------------------ distributions
\* every position of the flat vector carries its own number, every schedule its own shots
DsOf(c) == [i \in 1..Len(c.label) |-> [shots |-> IF c.common THEN 1000 ELSE 100 * i,
                                       dist |-> [j \in 1..c.label[i] |-> SumTo(c.label, i - 1) + j]]]
IsD == kind = "dists"
FlattenLength == IsD => Len(FlatOf(DsOf(inp))) = SumTo(inp.label, Len(inp.label))
RoundTrip == IsD => LET ds == DsOf(inp) IN Unflatten(FlatOf(ds), ShotsOf(ds), LabelsOf(ds)) = ds
\* the list-of-shots branch as coded is the inverse exactly for layouts whose schedules all have as many outcomes
AsCodedListRoundTrip == IsD => LET ds == DsOf(inp) IN UnflattenAsCodedList(FlatOf(ds), ShotsOf(ds), LabelsOf(ds)) = ds
AsCodedListOnUniform == (IsD /\ Uniform(inp.label)) => LET ds == DsOf(inp) IN UnflattenAsCodedList(FlatOf(ds), ShotsOf(ds), LabelsOf(ds)) = ds
AsCodedListOnlyUniform == (IsD /\ ~Uniform(inp.label)) => LET ds == DsOf(inp) IN UnflattenAsCodedList(FlatOf(ds), ShotsOf(ds), LabelsOf(ds)) # ds

\* ------------------------------------------------------------------ a whole tomography through the exchange format
\* exact statistics of the standard process tomography (tester states x tester POVMs, states slowest) of a catalogue
\* gate, as ONE flat vector: what the other package hands over; the linear estimate on them is the gate itself, which
\* travels back as its other-convention Choi matrix (EmitCase: tomo / there)
TesterStates == <<"z0", "z1", "x0", "y0">>
TesterPovms == <<"x", "y", "z">>
ProbOf(G, i, j, k) == Born(QPovm(TesterPovms[j])[k], ApplyH(G, QState(TesterStates[i])), NuOf(<<2>>))
TomoFlat(G) == ConcatSeqs([n \in 1..(Len(TesterStates) * Len(TesterPovms)) |->
                  LET i == ((n - 1) \div Len(TesterPovms)) + 1 j == ((n - 1) % Len(TesterPovms)) + 1
                  IN [k \in 1..2 |-> ProbOf(G, i, j, k)]])
StateFlat(x) == ConcatSeqs([j \in 1..Len(TesterPovms) |-> [k \in 1..2 |-> Born(QPovm(TesterPovms[j])[k], x, NuOf(<<2>>))]])
\* every schedule's segment is a probability distribution (the flat vector is cut every two entries)
TomoNormalised == (kind = "cat") =>
    LET f == TomoFlat(QGate(inp)) IN \A n \in 1..(Len(f) \div 2) : RAdd(f[2 * n - 1], f[2 * n]) = ROne /\ RLe(RZero, f[2 * n - 1]) /\ RLe(RZero, f[2 * n])

EmitCase == IF ~Emit THEN TRUE
    ELSE IF IsG THEN PrintT(ToJson([kind |-> kind, sys |-> S, name |-> IF kind = "cat" THEN inp ELSE "-",
                                    G |-> IF kind = "gate" THEN inp ELSE QGate(inp),
                                    here |-> ChoiStd(hs, DD), there |-> ChoiOther(hs, DD),
                                    tomo |-> IF kind = "cat" THEN TomoFlat(QGate(inp)) ELSE <<>>,
                                    qst |-> IF kind = "cat" THEN StateFlat(ApplyH(QGate(inp), QState("x0"))) ELSE <<>>,
                                    rho |-> IF kind = "cat" THEN FromH(ApplyH(QGate(inp), QState("x0")), BasisOf(S)) ELSE <<>>]))
    ELSE IF IsD THEN LET ds == DsOf(inp) IN
                     PrintT(ToJson([kind |-> "dists", label |-> inp.label, common |-> inp.common, shots |-> ShotsOf(ds), flat |-> FlatOf(ds),
                                    want |-> Unflatten(FlatOf(ds), ShotsOf(ds), LabelsOf(ds)),
                                    ascoded |-> IF inp.common THEN UnflattenCommon(FlatOf(ds), 1000, LabelsOf(ds))
                                                ELSE UnflattenAsCodedList(FlatOf(ds), ShotsOf(ds), LabelsOf(ds))]))
    ELSE TRUE
=============================================================================
