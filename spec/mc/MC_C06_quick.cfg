SPECIFICATION Spec
CONSTANT MaxLen = 4
CONSTANT Emit = FALSE
CONSTANT StateNames = {"z0", "y1", "mix1"}
CONSTANT GateNames = {"h", "x90", "ad"}
CONSTANT MProcNames = {"mz", "m3", "m4"}
CONSTANT PovmNames = {"y", "p3", "p4", "p5"}
CONSTANT GenModes = {0, 1, 2}
INVARIANT Associative
INVARIANT Normalised
INVARIANT NonNegative
INVARIANT ShapeIsTimeOrder
INVARIANT InducedPovmStatistics
INVARIANT GenInducesPovm
INVARIANT EmitCase
