SPECIFICATION Spec19
CONSTANT Types4 = {"qst", "povmt", "qpt"}
CONSTANT StateSets = {"S4", "S6"}
CONSTANT PovmSets = {"P3"}
CONSTANT SchedVariants = {"all"}
CONSTANT Ms = {2, 3}
CONSTANT NLists = 3
CONSTANT Emit = TRUE
INVARIANT CovAndMseEmpiExact
INVARIANT MseLinearExact
INVARIANT MseObjVsVar
INVARIANT ScalingInN
INVARIANT EmitCase19
