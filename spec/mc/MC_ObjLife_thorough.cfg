SPECIFICATION Spec
CONSTANT Kinds <- AllKinds
CONSTANT Reads <- QuickReads
CONSTANT Emit = FALSE
INVARIANT TypeOK
INVARIANT ReadTerm
PROPERTY ReadsArePure
PROPERTY OneSlot
PROPERTY ZeroAbsorbing
PROPERTY CopyFaithful
