SPECIFICATION Spec
CONSTANT Kinds <- PairSG
CONSTANT Reads <- QuickReads
CONSTANT Emit = TRUE
VIEW View
