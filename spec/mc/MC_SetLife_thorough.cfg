SPECIFICATION Spec
CONSTANT Pool <- ThoroughPool
CONSTANT Emit = FALSE
INVARIANT TotalLen
INVARIANT TotalBijective
PROPERTY OneMode
PROPERTY Shifted
