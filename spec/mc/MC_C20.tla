------------------------------- MODULE MC_C20 -------------------------------
(* Model-checking instance for C20: (a) the schedule language on an abstract alphabet -    *)
(* declarative order rule == automaton, error classes well defined; (b) the Experiment      *)
(* machine with setters.                                                                    *)
EXTENDS QSchedule, TLC

CONSTANTS MaxLen

\* ---------- (a) language: words over ok-items of the four kinds and one malformed token
Tok == {It("state", 0), It("povm", 0), It("gate", 0), It("mprocess", 0), It("povm", 1),
        It("gate", 5), [t |-> "arity1", k |-> "state", i |-> 0], It("State", 0)}
SZ == [k \in Kinds |-> IF k = "povm" THEN 2 ELSE 1]

VARIABLE w
Init == w = <<>>
Next == /\ Len(w) < MaxLen
        /\ \E tk \in Tok : w' = Append(w, tk)
Spec == Init /\ [][Next]_w

WellFormedKinds(s) == \A j \in 1..Len(s) : s[j].k \in Kinds
AutEqDecl == WellFormedKinds(w) => (OrderOK(w) <=> OrderOKAut(w))
\* error classes: a rejected one-schedule list has exactly one allowed class
OneClass == ~Accept(<<w>>, SZ) => \E c \in {"item", "order"} : AllowedErrors(<<w>>, SZ) = {c}
\* accepted words start with the only state, have at most one povm, end in povm/mprocess
AcceptedShape == Accept(<<w>>, SZ) =>
    /\ Len(w) >= 2 /\ w[1].k = "state" /\ w[Len(w)].k \in {"povm", "mprocess"}
    /\ \A j \in 2..Len(w) : w[j].k # "state"
    /\ \A j, l \in 1..Len(w) : (w[j].k = "povm" /\ w[l].k = "povm") => j = l
\* a list is accepted iff each member is
ListRule == \A n \in 0..Len(w) :
    Accept(<<SubSeq(w, 1, n), w>>, SZ) <=> (Accept(<<SubSeq(w, 1, n)>>, SZ) /\ Accept(<<w>>, SZ))
\* tomography shapes are special accepted schedules
TomoSub == \A ty \in {"qst", "povmt", "qpt", "qmpt"} :
    TomoShapeOK(ty, w, 1, 2) => SchedOK(w, SZ)
=============================================================================
