SPECIFICATION Spec
CONSTANT NSample = 2
CONSTANT NRep = 2
CONSTANT NCase = 2
CONSTANT LossCases = {2}
CONSTANT Draws = 2
CONSTANT PrivateCopies = TRUE
CONSTANT ParSet <- ParAll
CONSTANT Emit = FALSE
VIEW view
INVARIANT Reproducible
INVARIANT OwnData
INVARIANT RepsIndependent
INVARIANT SamplesIndependent
INVARIANT WidthRespected
PROPERTY Terminates
