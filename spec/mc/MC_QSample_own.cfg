SPECIFICATION Spec
CONSTANT Seeds = {7, 11}
CONSTANT EnsSizes = {1, 2}
CONSTANT MaxLen = 5
CONSTANT UseOwnStream = TRUE
CONSTANT EnsembleSamplingFails = TRUE
CONSTANT Emit = FALSE
INVARIANT SeedDetermines
INVARIANT OwnPositionsContiguous
PROPERTY NoSamplingNoDraw
