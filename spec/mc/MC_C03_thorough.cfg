SPECIFICATION Spec
CONSTANT Dims = {2, 3, 4, 6}
CONSTANT Ms = {2, 3, 4, 5}
CONSTANT SetDims = {2, 3}
CONSTANT SetMs = {2, 3}
CONSTANT MaxObjs = 3
CONSTANT Emit = FALSE
INVARIANT LenIsNumVar
INVARIANT Injective
INVARIANT CoversNonImplied
INVARIANT StackBijective
INVARIANT RoundTripVar
INVARIANT RoundTripCell
INVARIANT OrderPreserved
INVARIANT ImpliedWellFormed
INVARIANT ImpliedCount
INVARIANT SubtractedConsistent
INVARIANT TotalLen
INVARIANT TotalBijective
INVARIANT TotalLocalInRange
INVARIANT EmitCase
