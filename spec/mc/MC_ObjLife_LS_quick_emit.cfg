SPECIFICATION Spec
CONSTANT Kinds <- PairLS
CONSTANT Reads <- QuickReads
CONSTANT Emit = TRUE
VIEW View
