------------------------------- MODULE MC_C19 -------------------------------
(* C19: analytical error formulas equal exact multinomial expectations.                          *)
EXTENDS MC_C08, QStats, QLoss

CONSTANTS NLists        \* number of sample-size lists tried per (configuration, true object)
VARIABLES mdl, step, st
vars19 == <<tomo, cand, mdl, step, st>>

Sizes(tm) == [s \in 1..Len(tm.scheds) |-> NOut(tm, s)]
NV(tm) == TNumVar(tm)
\* sample-size lists: small, different per schedule
NList(tm, k) == [s \in 1..Len(tm.scheds) |-> 1 + ((s + k) % 3) + (IF k = 2 THEN 1 ELSE 0)]

\* scale^2 of the library coordinate of a cell: nu_r (state / povm), nu_r / nu_c (gate / mprocess)
Scale2(tm, cell) == LET nu == TNu(tm) IN
    IF TypeOf(tm) \in {"state", "povm"} THEN RI(nu[cell[2] + 1]) ELSE R(nu[cell[2] + 1], nu[cell[3] + 1])
\* object cells as affine functions of the variables: row of the map for a cell
ObjRow(tm, cell) == LET T == TypeOf(tm) d == TDim(tm) m == tm.m IN
    [v \in 1..NV(tm) |->
        LET vc == VarCell(T, d, m, tm.para, v - 1) IN
        IF vc = cell THEN ROne
        ELSE IF tm.para /\ IsImplied(T, d, m, cell) /\ vc \in ImpliedForm(T, d, m, cell).minus THEN RI(-1) ELSE RZero]

Quantities(tm, m, name, k) ==
    LET sizes == Sizes(tm)
        v == PhysVar(name)
        p == Predict(m.A, m.b, v)
        ns == NList(tm, k)
        nS == Len(sizes)
        covs == [s \in 1..nS |-> CovMat(Block(p, sizes, s), ns[s])]
        \* covariance of the linear estimate (H-coordinates): sum_s P_s Cov_s P_s^T
        Ps == [s \in 1..nS |-> [r \in 1..NV(tm) |-> Block(m.pinv[r], sizes, s)]]
        covLin == FoldLeft(LAMBDA acc, x : MatAdd(acc, x), MatZero(NV(tm), NV(tm)),
                           [s \in 1..nS |-> MatMul(Ps[s], MatMul(covs[s], Transpose(Ps[s])))])
        T == TypeOf(tm) d == TDim(tm)
        varCells == [vv \in 1..NV(tm) |-> VarCell(T, d, tm.m, tm.para, vv - 1)]
        mseVar == RSum([vv \in 1..NV(tm) |-> RMul(Scale2(tm, varCells[vv]), covLin[vv][vv])])
        cells == SetToSeq(Cells(T, d, tm.m))
        mseObj == RSum([c \in 1..Len(cells) |->
                     LET row == ObjRow(tm, cells[c]) IN RMul(Scale2(tm, cells[c]), Dot(row, MatVec(covLin, row)))])
        fishers == [s \in 1..nS |-> Fisher(RowsOfSched(m.A, sizes, s), Block(p, sizes, s))]
    IN [name |-> name, k |-> k, v |-> v, p |-> p, ns |-> ns, covs |-> covs, covLin |-> covLin,
        mseEmpi |-> RSum([s \in 1..nS |-> MseEmpi(Block(p, sizes, s), ns[s])]),
        mseVar |-> mseVar, mseObj |-> mseObj,
        positive |-> \A r \in 1..Len(p) : RLt(RZero, p[r]),
        fishers |-> IF \A r \in 1..Len(p) : RLt(RZero, p[r]) THEN fishers ELSE <<>>]

NoModel == [A |-> <<>>, b |-> <<>>, pinv |-> <<>>]
Init19 == Init /\ mdl = NoModel /\ step = <<"none", 0>> /\ st = <<>>
Prepare == /\ step[1] = "none" /\ step' = <<"ready", 0>>
           /\ LET A == TLCEval(MatA(tomo)) IN mdl' = [A |-> A, b |-> VecB(tomo), pinv |-> LeftInverse(A)]
           /\ UNCHANGED <<tomo, cand, st>>
Evaluate == /\ step[1] = "ready"
            /\ \E n \in PhysNames, k \in 1..NLists :
                  /\ step' = <<n, k>>
                  /\ st' = Quantities(tomo, mdl, n, k)
            /\ UNCHANGED <<tomo, cand, mdl>>
Next19 == Prepare \/ Evaluate
Spec19 == Init19 /\ [][Next19]_vars19

Have == step[2] > 0
\* ---- exact expectations by complete enumeration, schedule by schedule
SchedOK(s) == LET sizes == Sizes(tomo) ps == Block(st.p, sizes, s) N == st.ns[s] IN
    /\ Expect(LAMBDA f : ROne, N, ps) = ROne
    /\ \A i \in 1..Len(ps) : Expect(LAMBDA f : f[i], N, ps) = ps[i]
    /\ \A i, j \in 1..Len(ps) : Expect(LAMBDA f : RMul(RSub(f[i], ps[i]), RSub(f[j], ps[j])), N, ps) = st.covs[s][i][j]
    /\ Expect(LAMBDA f : Dot(VSub(f, ps), VSub(f, ps)), N, ps) = MseEmpi(ps, N)
CovAndMseEmpiExact == Have => \A s \in 1..Len(tomo.scheds) : SchedOK(s)
\* E | P_s (f_s - p_s) |^2 in library coordinates, summed over the (independent, zero-mean) schedules = analytic MSE (variables)
MseLinearExact == Have =>
    LET sizes == Sizes(tomo)
        T == TypeOf(tomo) d == TDim(tomo)
        w == [vv \in 1..NV(tomo) |-> Scale2(tomo, VarCell(T, d, tomo.m, tomo.para, vv - 1))]
    IN RSum([s \in 1..Len(sizes) |->
          LET ps == Block(st.p, sizes, s)
              Psub == [r \in 1..NV(tomo) |-> Block(mdl.pinv[r], sizes, s)]
          IN Expect(LAMBDA f : LET e == MatVec(Psub, VSub(f, ps)) IN WDot(w, e, e), st.ns[s], ps)]) = st.mseVar
\* the object-parametrisation MSE is at least the variable one, with equality iff nothing is implied
MseObjVsVar == Have => /\ RLe(st.mseVar, st.mseObj)
                       /\ (~tomo.para => st.mseObj = st.mseVar)
\* scaling 1/N: doubling every sample size halves the analytic quantities (checked on the formulas)
ScalingInN == Have => LET sizes == Sizes(tomo) IN
    \A s \in 1..Len(sizes) : MseEmpi(Block(st.p, sizes, s), 2 * st.ns[s]) = RMul(R(1, 2), MseEmpi(Block(st.p, sizes, s), st.ns[s]))

EmitCase19 == IF Emit /\ Have
              THEN PrintT(ToJson([tomo |-> tomo, sizes |-> Sizes(tomo), obj |-> PhysObj(st.name), st |-> st]))
              ELSE TRUE
=============================================================================
