------------------------------- MODULE MC_C04 -------------------------------
(* C04: equality and inequality projections are nearest-point projections.                       *)
(*   phase "ineq": spectral coordinates, every grid vector u: clipping is feasible, idempotent,   *)
(*        fixes exactly the feasible points and satisfies the variational inequality against     *)
(*        every feasible grid competitor of the same frame;                                      *)
(*   phase "eq": H-coordinates, a family of rational objects of the four types: the equality     *)
(*        projection is feasible, idempotent, fixes exactly the feasible objects, and its        *)
(*        residual is orthogonal (stacked-parameter metric) to every direction of the constraint.*)
EXTENDS QProj, QObjects, TLC, Json

CONSTANTS Ns, GridNum, GridDen, NObjs, Emit
QuickGrid == {-3, -1, 0, 1, 2, 4}
ThoroughGrid == {-4, -3, -2, -1, 0, 1, 2, 3, 4}

VARIABLES phase, u, obj
vars == <<phase, u, obj>>

GridVals == {R(g, GridDen) : g \in GridNum}
\* a deterministic family of rational test objects (1 qubit), indexed by k; every third one already satisfies the constraint
Val(k, a, b) == R(((k * 7 + a * 3 + b * 5 + a * b) % 9) - 4, 1 + (k % 3))
MkState(k) == [a \in 1..4 |-> Val(k, a, 0)]
MkPovm(k, m) == [x \in 1..m |-> [a \in 1..4 |-> Val(k + x, a, x)]]
MkGate(k) == [a \in 1..4 |-> [b \in 1..4 |-> Val(k, a, b)]]
MkMProcess(k, m) == [x \in 1..m |-> [a \in 1..4 |-> [b \in 1..4 |-> Val(k + 2 * x, a, b)]]]
Raw(k) == CASE k % 4 = 0 -> [type |-> "state", v |-> MkState(k)]
            [] k % 4 = 1 -> [type |-> "povm", v |-> MkPovm(k, 2 + (k % 3))]
            [] k % 4 = 2 -> [type |-> "gate", v |-> MkGate(k)]
            [] k % 4 = 3 -> [type |-> "mprocess", v |-> MkMProcess(k, 2 + (k % 3))]      \* 2, 3 or 4 outcomes (4: also laid out as a 2 x 2 grid)
ProjEq(o) == CASE o.type = "state" -> [o EXCEPT !.v = EqStateH(o.v, 2)]
               [] o.type = "povm" -> [o EXCEPT !.v = EqPovmH(o.v)]
               [] o.type = "gate" -> [o EXCEPT !.v = EqGateH(o.v)]
               [] o.type = "mprocess" -> [o EXCEPT !.v = EqMProcessH(o.v)]
Obj(k) == IF k % 3 = 0 THEN ProjEq(Raw(k)) ELSE Raw(k)       \* every third object is feasible already

Init == \/ phase = "ineq" /\ obj = [type |-> "none", v |-> <<>>] /\ \E n \in Ns : u \in [1..n -> GridVals]
        \/ phase = "eq" /\ u = <<>> /\ \E k \in 1..NObjs : obj = Obj(k)
Next == UNCHANGED vars /\ FALSE
Spec == Init /\ [][Next]_vars

\* ---------------------------------------------------------------- inequality (spectral)
IneqFeasible == phase = "ineq" => FeasibleIneq(ProjIneqV(u))
IneqIdempotent == phase = "ineq" => ProjIneqV(ProjIneqV(u)) = ProjIneqV(u)
IneqFixedIffFeasible == phase = "ineq" => ((ProjIneqV(u) = u) <=> FeasibleIneq(u))
IneqNearest == phase = "ineq" =>
    \A z \in {w \in [1..Len(u) -> GridVals] : FeasibleIneq(w)} : VI(u, ProjIneqV(u), z)

\* ---------------------------------------------------------------- equality (H-coordinates)
EqFeasibleObj(o) ==
    CASE o.type = "state" -> TraceH(o.v, 2) = ROne
      [] o.type = "povm" -> IsPovmSumH(o.v)
      [] o.type = "gate" -> IsTPH(o.v)
      [] o.type = "mprocess" -> IsTPH(SumMatsR(o.v, 4))
EqFeasible == phase = "eq" => EqFeasibleObj(ProjEq(obj))
EqIdempotent == phase = "eq" => ProjEq(ProjEq(obj)) = ProjEq(obj)
EqFixedIffFeasible == phase = "eq" => ((ProjEq(obj) = obj) <=> EqFeasibleObj(obj))
\* stacked-parameter metric in H-coordinates: weights nu_a (vectors), nu_a / nu_b (superoperator entries); Pauli: all 2 resp. 1
\* residual r = obj - P(obj); constraint directions: state e_a (a >= 2); povm: (delta on outcome x) - (delta on outcome x+1) for each
\* coordinate; gate: E_ab (a >= 2); mprocess: E_ab (a >= 2) per outcome and first-row differences between outcomes
FlatObj(o) == CASE o.type = "state" -> o.v
                [] o.type = "povm" -> ConcatAll(o.v)
                [] o.type = "gate" -> Flatten(o.v)
                [] o.type = "mprocess" -> ConcatAll([x \in 1..Len(o.v) |-> Flatten(o.v[x])])
Residual(o) == VSub(FlatObj(o), FlatObj(ProjEq(o)))
Directions(o) ==
    CASE o.type = "state" -> {VUnit(4, a) : a \in 2..4}
      [] o.type = "povm" -> LET m == Len(o.v) IN
            {[i \in 1..(4 * m) |-> IF i = (x - 1) * 4 + a THEN ROne ELSE IF i = x * 4 + a THEN RI(-1) ELSE RZero] : x \in 1..(m - 1), a \in 1..4}
      [] o.type = "gate" -> {VUnit(16, i) : i \in 5..16}
      [] o.type = "mprocess" -> LET m == Len(o.v) IN
            {VUnit(16 * m, (x - 1) * 16 + i) : x \in 1..m, i \in 5..16}
            \cup {[i \in 1..(16 * m) |-> IF i = (x - 1) * 16 + b THEN ROne ELSE IF i = x * 16 + b THEN RI(-1) ELSE RZero] : x \in 1..(m - 1), b \in 1..4}
EqResidualOrthogonal == phase = "eq" => \A dir \in Directions(obj) : Dot(Residual(obj), dir) = RZero

EmitCase == IF ~Emit THEN TRUE
            ELSE IF phase = "ineq" THEN PrintT(ToJson([kind |-> "ineq", u |-> u, proj |-> ProjIneqV(u), simplex |-> ProjSimplexV(u)]))
            ELSE PrintT(ToJson([kind |-> "eq", type |-> obj.type, v |-> obj.v, proj |-> ProjEq(obj).v, feasible |-> EqFeasibleObj(obj)]))
=============================================================================
