------------------------------- MODULE MC_C04 -------------------------------
(* C04: equality and inequality projections are nearest-point projections.                       *)
(*   phase "ineq": spectral coordinates, every grid vector u: clipping is feasible, idempotent,   *)
(*        fixes exactly the feasible points and satisfies the variational inequality against     *)
(*        every feasible grid competitor of the same frame;                                      *)
(*   phase "eq": H-coordinates, a family of rational objects of the four types: the equality     *)
(*        projection is feasible, idempotent, fixes exactly the feasible objects, and its        *)
(*        residual is orthogonal (stacked-parameter metric) to every direction of the constraint.*)
EXTENDS QProj, QObjects, TLC, Json

CONSTANTS Ns, GridNum, GridDen, NObjs, Dims, Emit
QuickGrid == {-3, -1, 0, 1, 2, 4}
ThoroughGrid == {-4, -3, -2, -1, 0, 1, 2, 3, 4}

VARIABLES phase, u, obj
vars == <<phase, u, obj>>

GridVals == {R(g, GridDen) : g \in GridNum}
\* a deterministic family of rational test objects, indexed by k and the dimension; every third one already satisfies the constraint
Val(k, a, b) == R(((k * 7 + a * 3 + b * 5 + a * b) % 9) - 4, 1 + (k % 3))
MkState(k, n) == [a \in 1..n |-> Val(k, a, 0)]
MkPovm(k, m, n) == [x \in 1..m |-> [a \in 1..n |-> Val(k + x, a, x)]]
MkGate(k, n) == [a \in 1..n |-> [b \in 1..n |-> Val(k, a, b)]]
MkMProcess(k, m, n) == [x \in 1..m |-> [a \in 1..n |-> [b \in 1..n |-> Val(k + 2 * x, a, b)]]]
\* d = dimension of the system (2: one qubit, 3: one qutrit, 4: two qubits); d * d coordinates
Raw(k, d) == CASE k % 4 = 0 -> [type |-> "state", d |-> d, v |-> MkState(k, d * d)]
              [] k % 4 = 1 -> [type |-> "povm", d |-> d, v |-> MkPovm(k, 2 + (k % 3), d * d)]
              [] k % 4 = 2 -> [type |-> "gate", d |-> d, v |-> MkGate(k, d * d)]
              [] k % 4 = 3 -> [type |-> "mprocess", d |-> d, v |-> MkMProcess(k, 2 + (k % 3), d * d)]      \* 2, 3 or 4 outcomes (4: also laid out as a 2 x 2 grid)
ProjEq(o) == CASE o.type = "state" -> [o EXCEPT !.v = EqStateH(o.v, o.d)]
               [] o.type = "povm" -> [o EXCEPT !.v = EqPovmH(o.v)]
               [] o.type = "gate" -> [o EXCEPT !.v = EqGateH(o.v)]
               [] o.type = "mprocess" -> [o EXCEPT !.v = EqMProcessH(o.v)]
Obj(k, d) == IF k % 3 = 0 THEN ProjEq(Raw(k, d)) ELSE Raw(k, d)       \* every third object is feasible already

Init == \/ phase = "ineq" /\ obj = [type |-> "none", d |-> 0, v |-> <<>>] /\ \E n \in Ns : u \in [1..n -> GridVals]
        \/ phase = "eq" /\ u = <<>> /\ \E k \in 1..NObjs, d \in Dims : obj = Obj(k, d)
Next == UNCHANGED vars /\ FALSE
Spec == Init /\ [][Next]_vars

\* ---------------------------------------------------------------- inequality (spectral)
IneqFeasible == phase = "ineq" => FeasibleIneq(ProjIneqV(u))
IneqIdempotent == phase = "ineq" => ProjIneqV(ProjIneqV(u)) = ProjIneqV(u)
IneqFixedIffFeasible == phase = "ineq" => ((ProjIneqV(u) = u) <=> FeasibleIneq(u))
\* clipping is positively homogeneous (the feasible set is a cone): the binding replays scaled inputs with non-default tolerances
IneqHomogeneous == phase = "ineq" => \A c \in {R(1, 1000), RI(100)} : ProjIneqV(VScale(c, u)) = VScale(c, ProjIneqV(u))
IneqNearest == phase = "ineq" =>
    \A z \in {w \in [1..Len(u) -> GridVals] : FeasibleIneq(w)} : VI(u, ProjIneqV(u), z)

\* ---------------------------------------------------------------- equality (H-coordinates)
EqFeasibleObj(o) ==
    CASE o.type = "state" -> TraceH(o.v, o.d) = ROne
      [] o.type = "povm" -> IsPovmSumH(o.v)
      [] o.type = "gate" -> IsTPH(o.v)
      [] o.type = "mprocess" -> IsTPH(SumMatsR(o.v, o.d * o.d))
EqFeasible == phase = "eq" => EqFeasibleObj(ProjEq(obj))
EqIdempotent == phase = "eq" => ProjEq(ProjEq(obj)) = ProjEq(obj)
EqFixedIffFeasible == phase = "eq" => ((ProjEq(obj) = obj) <=> EqFeasibleObj(obj))
\* stacked-parameter metric in H-coordinates: weights nu_a (vectors), nu_a / nu_b (superoperator entries); Pauli: all 2 resp. 1
\* residual r = obj - P(obj); constraint directions: state e_a (a >= 2); povm: (delta on outcome x) - (delta on outcome x+1) for each
\* coordinate; gate: E_ab (a >= 2); mprocess: E_ab (a >= 2) per outcome and first-row differences between outcomes
FlatObj(o) == CASE o.type = "state" -> o.v
                [] o.type = "povm" -> ConcatAll(o.v)
                [] o.type = "gate" -> Flatten(o.v)
                [] o.type = "mprocess" -> ConcatAll([x \in 1..Len(o.v) |-> Flatten(o.v[x])])
Residual(o) == VSub(FlatObj(o), FlatObj(ProjEq(o)))
\* directions are sparse: +1 at `plus`, -1 at `minus` (0: none); <r, dir> = r[plus] - r[minus]
Directions(o) ==
    LET n == o.d * o.d IN
    CASE o.type = "state" -> {[plus |-> a, minus |-> 0] : a \in 2..n}
      [] o.type = "povm" -> LET m == Len(o.v) IN
            {[plus |-> (x - 1) * n + a, minus |-> x * n + a] : x \in 1..(m - 1), a \in 1..n}
      [] o.type = "gate" -> {[plus |-> i, minus |-> 0] : i \in (n + 1)..(n * n)}
      [] o.type = "mprocess" -> LET m == Len(o.v) IN
            {[plus |-> (x - 1) * n * n + i, minus |-> 0] : x \in 1..m, i \in (n + 1)..(n * n)}
            \cup {[plus |-> (x - 1) * n * n + b, minus |-> x * n * n + b] : x \in 1..(m - 1), b \in 1..n}
SparseDot(r, dir) == IF dir.minus = 0 THEN r[dir.plus] ELSE RSub(r[dir.plus], r[dir.minus])
ResidualOrthogonal(o) == LET r == TLCEval(Residual(o)) IN \A dir \in Directions(o) : SparseDot(r, dir) = RZero
EqResidualOrthogonal == phase = "eq" => ResidualOrthogonal(obj)

EmitCase == IF ~Emit THEN TRUE
            ELSE IF phase = "ineq" THEN PrintT(ToJson([kind |-> "ineq", u |-> u, proj |-> ProjIneqV(u), simplex |-> ProjSimplexV(u)]))
            ELSE PrintT(ToJson([kind |-> "eq", type |-> obj.type, d |-> obj.d, v |-> obj.v, proj |-> ProjEq(obj).v, feasible |-> EqFeasibleObj(obj)]))
=============================================================================
