SPECIFICATION Spec
CONSTANT Ns = {2, 3}
CONSTANT GridNum <- ThoroughGrid
CONSTANT GridDen = 2
CONSTANT K = 6
CONSTANT ListNs = {4, 5, 6, 8, 9, 12}
CONSTANT NList = 40
CONSTANT Emit = TRUE

INVARIANT EmitCase
