SPECIFICATION Spec
CONSTANT States1 = {"x0", "y1", "z0", "z1"}
CONSTANT Gates2 = {"id", "cx", "cz", "swap", "zx90"}
CONSTANT Locals = {"id", "hadamard", "x90"}
CONSTANT Axes2 = {"x", "y", "z"}
CONSTANT Emit = TRUE
INVARIANT Normalised
INVARIANT NonNegative
INVARIANT Marginals
INVARIANT Independence
INVARIANT SwapRule
INVARIANT OutputIsState
INVARIANT BellRule
INVARIANT CxBits
INVARIANT EmitCase
