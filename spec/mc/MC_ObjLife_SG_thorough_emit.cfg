SPECIFICATION Spec
CONSTANT Kinds <- PairSG
CONSTANT Reads <- AllReads
CONSTANT Emit = TRUE
VIEW View
