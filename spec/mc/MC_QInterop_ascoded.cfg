SPECIFICATION Spec
CONSTANT Systems = {"q"}
CONSTANT NDense = 0
CONSTANT HotStride <- QuickStride
CONSTANT MaxSched = 3
CONSTANT MaxOut = 3
CONSTANT Emit = FALSE
INVARIANT AsCodedListRoundTrip
