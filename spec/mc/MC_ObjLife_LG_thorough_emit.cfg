SPECIFICATION Spec
CONSTANT Kinds <- PairLG
CONSTANT Reads <- AllReads
CONSTANT Emit = TRUE
VIEW View
