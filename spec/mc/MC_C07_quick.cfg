SPECIFICATION Spec
CONSTANT NameSets <- QuickNameSets
CONSTANT DimChoices = {2, 3}
CONSTANT Emit = FALSE
CONSTANT FullLayoutMax = 800
INVARIANT KronBijective
INVARIANT KronIsRowMajor
INVARIANT FoldIsCanonical
INVARIANT EmitCase
