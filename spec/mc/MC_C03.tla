------------------------------- MODULE MC_C03 -------------------------------
(* C03: variable <-> object correspondence.  States: an object configuration `cfg` and an  *)
(* operation set `set` that grows by Add; invariants are evaluated in every state.          *)
EXTENDS QIndex, TLC, Json

CONSTANTS Dims, Ms, SetDims, SetMs, MaxObjs, Emit

VARIABLES cfg, set
vars == <<cfg, set>>

Desc(T, d, m, para) == [T |-> T, d |-> d, m |-> IF T \in {"povm", "mprocess"} THEN m ELSE 1, para |-> para]
Cfgs == {Desc(T, d, m, p) : T \in Types, d \in Dims, m \in Ms, p \in BOOLEAN}
SetCfgs == {Desc(T, d, m, p) : T \in Types, d \in SetDims, m \in SetMs, p \in BOOLEAN}
EmptySet == [k \in Types |-> <<>>]
NObjs(s) == Len(s["state"]) + Len(s["gate"]) + Len(s["povm"]) + Len(s["mprocess"])

Init == cfg \in Cfgs /\ set = EmptySet
Add(desc) == /\ NObjs(set) < MaxObjs
             /\ Len(set[desc.T]) < 3
             /\ set' = [set EXCEPT ![desc.T] = Append(@, desc)]
             /\ cfg' = desc
Next == \E desc \in SetCfgs : Add(desc)
Spec == Init /\ [][Next]_vars

\* ----------------------------------------------------------------- object-level invariants
T == cfg.T
d == cfg.d
m == cfg.m
para == cfg.para
VL == VarLayout(T, d, m, para)
SL == StackLayout(T, d, m)
NonImplied == IF para THEN {c \in Cells(T, d, m) : ~IsImplied(T, d, m, c)} ELSE Cells(T, d, m)

LenIsNumVar == Len(VL) = NumVar(T, d, m, para)
Injective == LET vl == VL IN Cardinality({vl[v] : v \in 1..Len(vl)}) = Len(vl)
CoversNonImplied == LET vl == VL IN {vl[v] : v \in 1..Len(vl)} = NonImplied
StackBijective == Cardinality(Cells(T, d, m)) = StackLen(T, d, m)
RoundTripVar == \A v \in 0..(NumVar(T, d, m, para) - 1) : CellVar(T, d, m, para, VarCell(T, d, m, para, v)) = v
RoundTripCell == \A c \in NonImplied : VarCell(T, d, m, para, CellVar(T, d, m, para, c)) = c
\* variable order is the stacked order with the implied cells removed
OrderPreserved == LET ni == NonImplied IN SelectSeq(SL, LAMBDA c : c \in ni) = VL
ImpliedWellFormed == para => LET ni == NonImplied IN \A c \in Cells(T, d, m) \ ni :
                        ImpliedForm(T, d, m, c).minus \subseteq ni
SubtractedConsistent == para => \A c \in NonImplied : \A ic \in ImpliedCells(T, d, m) :
                        (c \in ImpliedForm(T, d, m, ic).minus) <=> (ic \in SubtractedIn(T, d, m, c))
\* counting: implied cells = what the equality constraint removes
ImpliedCount == para => StackLen(T, d, m) - NumVar(T, d, m, para) =
                         (CASE T = "state" -> 1 [] T = "povm" -> Sq(d) [] T = "gate" -> Sq(d) [] T = "mprocess" -> Sq(d))

\* ----------------------------------------------------------------- operation-set invariants
TL == TotalLayout(set)
TotalLen == Len(TL) = TotalSize(set)
TotalBijective == LET tl == TL IN \A k \in 1..Len(tl) : TotalIndex(set, tl[k][1], tl[k][2], tl[k][3]) = k - 1
TotalLocalInRange == LET tl == TL IN \A k \in 1..Len(tl) :
    LET o == set[tl[k][1]][tl[k][2] + 1] IN tl[k][3] < NumVar(o.T, o.d, o.m, o.para)

\* ----------------------------------------------------------------- emission for replay
ImpliedList == IF para THEN {[cell |-> c, const |-> ImpliedForm(T, d, m, c).const,
                               minus |-> ImpliedForm(T, d, m, c).minus] : c \in Cells(T, d, m) \ NonImplied}
               ELSE {}
EmitCase ==
    IF ~Emit THEN TRUE
    ELSE IF set = EmptySet
         THEN PrintT(ToJson([kind |-> "object", cfg |-> cfg, numvar |-> NumVar(T, d, m, para),
                             var |-> VL, stack |-> SL, implied |-> ImpliedList]))
         ELSE PrintT(ToJson([kind |-> "set", set |-> set, size |-> TotalSize(set), total |-> TL]))
=============================================================================
