SPECIFICATION Spec
CONSTANT MaxVars = 4
CONSTANT MaxVal = 5
CONSTANT TShapes <- ThoroughShapes
CONSTANT Weights <- ThoroughWeights
CONSTANT Emit = FALSE
INVARIANT SerialMultiInverse
INVARIANT RowMajor
INVARIANT InRange
INVARIANT MarginalTotal
INVARIANT MarginalOfMarginal
INVARIANT ChainRule
INVARIANT EmitCase
