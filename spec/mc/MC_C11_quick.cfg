SPECIFICATION Spec
CONSTANT AVals <- QuickA
CONSTANT AModes = {"single_difference_loss", "sum_absolute_difference_loss", "sum_absolute_difference_variable", "sum_absolute_difference_projected_gradient"}
CONSTANT EpsDen = 100
CONSTANT K = 4
CONSTANT Emit = TRUE
PROPERTY LossMonotone
INVARIANT IteratesFeasible
INVARIANT ArmijoAtAcceptance
INVARIANT StopRule
INVARIANT FixedPointOptimal
INVARIANT OptimumIsFeasibleAndBest
INVARIANT EmitCase
