SPECIFICATION Spec
CONSTANT Kinds <- PairSP
CONSTANT Reads <- AllReads
CONSTANT Emit = TRUE
VIEW View
