SPECIFICATION Spec
CONSTANT Ns = {2, 3, 4}
CONSTANT GridNum <- QuickGrid
CONSTANT GridDen = 2
CONSTANT NObjs = 60
CONSTANT Dims = {2, 3, 4}
CONSTANT Emit = TRUE

INVARIANT EmitCase
