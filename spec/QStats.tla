------------------------------- MODULE QStats -------------------------------
(***************************************************************************)
(* Exact multinomial expectations (property C19).                          *)
(***************************************************************************)
EXTENDS QNum

RECURSIVE Fact(_)
Fact(n) == IF n <= 1 THEN 1 ELSE n * Fact(n - 1)
RECURSIVE RPow(_, _)
RPow(x, k) == IF k = 0 THEN ROne ELSE RMul(x, RPow(x, k - 1))
\* all count vectors of N trials over m outcomes
Counts(m, N) == {c \in [1..m -> 0..N] : FoldLeft(LAMBDA a, x : a + x, 0, [i \in 1..m |-> c[i]]) = N}
MultiCoef(c, N) == FoldLeft(LAMBDA acc, x : acc \div Fact(x), Fact(N), [i \in 1..Len(c) |-> c[i]])
\* probability of the count vector c under p
MultiProb(c, N, p) == FoldLeft(LAMBDA acc, x : RMul(acc, x), RI(MultiCoef(c, N)), [i \in 1..Len(p) |-> RPow(p[i], c[i])])
\* expectation of g(empirical distribution) over the multinomial distribution (N, p)
Expect(g(_), N, p) ==
    LET cs == SetToSeq(Counts(Len(p), N))
    IN RSum([k \in 1..Len(cs) |-> RMul(MultiProb(cs[k], N, p), g([i \in 1..Len(p) |-> R(cs[k][i], N)]))])
\* analytic formulas
CovMat(p, N) == [i \in 1..Len(p) |-> [j \in 1..Len(p) |->
    RDiv(RSub(IF i = j THEN p[i] ELSE RZero, RMul(p[i], p[j])), RI(N))]]
MseEmpi(p, N) == RSum([i \in 1..Len(p) |-> RDiv(RMul(p[i], RSub(ROne, p[i])), RI(N))])
Trace(M) == RSum([i \in 1..Len(M) |-> M[i][i]])
\* Fisher matrix of one distribution p(v) with gradient rows G (rows = outcomes): sum_o G_o G_o^T / p_o  (p_o > 0)
Fisher(G, p) == LET n == Cols(G) IN
    [i \in 1..n |-> [j \in 1..n |-> RSum([o \in 1..Len(p) |-> RDiv(RMul(G[o][i], G[o][j]), p[o])])]]
=============================================================================
