------------------------------ MODULE QInterop ------------------------------
(***************************************************************************)
(* Exchange formats (quara.interface.qiskit.conversion), exact.            *)
(*                                                                         *)
(* Gates travel as Choi matrices.  The two packages order the two tensor   *)
(* factors of the Choi matrix differently:                                 *)
(*    here   (QConv!ChoiStd)   sum_kl G(E_kl) (x) E_kl                     *)
(*    there  (ChoiOther)       sum_kl E_kl (x) G(E_kl)                     *)
(* and the conversion is the conjugation with the swap of the two factors. *)
(*                                                                         *)
(* Empirical distributions travel as ONE flat vector plus the list of      *)
(* outcome counts ("label") and the shots (one number for all schedules or *)
(* a list); here they are a list of (shots, distribution) pairs.           *)
(***************************************************************************)
EXTENDS QConv

\* ------------------------------------------------------------------ gates
ChoiOther(hs, d) ==
    SumMats([c \in 1..(d * d) |-> Kron(Eij(d, IdxRow(d, c)[1], IdxRow(d, c)[2]), ImageOf(hs, d, c))], d * d)
\* index of (j, i) for the row-major index of (i, j)
SwapIdx(d, k) == (IdxRow(d, k)[2] - 1) * d + IdxRow(d, k)[1]
SwapConj(CM, d) == [r \in 1..(d * d) |-> [c \in 1..(d * d) |-> CM[SwapIdx(d, r)][SwapIdx(d, c)]]]
\* partial traces of a (d*d) x (d*d) matrix over its first / second factor
PTrFirst(CM, d) == [i \in 1..d |-> [j \in 1..d |-> CSum([k \in 1..d |-> CM[(k - 1) * d + i][(k - 1) * d + j]])]]
PTrSecond(CM, d) == [i \in 1..d |-> [j \in 1..d |-> CSum([k \in 1..d |-> CM[(i - 1) * d + k][(j - 1) * d + k]])]]

\* ------------------------------------------------------------------ empirical distributions
\* ds : sequence of records [shots, dist] ; dist a non-empty sequence
ConcatSeqs(ss) == FoldLeft(LAMBDA acc, x : acc \o x, <<>>, ss)
FlatOf(ds) == ConcatSeqs([i \in 1..Len(ds) |-> ds[i].dist])
LabelsOf(ds) == [i \in 1..Len(ds) |-> Len(ds[i].dist)]
ShotsOf(ds) == [i \in 1..Len(ds) |-> ds[i].shots]
SumTo(label, n) == FoldLeft(LAMBDA acc, x : acc + x, 0, SubSeq(label, 1, n))
\* numpy slice a[lo : hi] (0-based, clipped without complaint)
Slice(s, lo, hi) == SubSeq(s, lo + 1, IF hi <= Len(s) THEN hi ELSE Len(s))
\* the inverse of FlatOf: schedule i owns the positions after those of schedules 1..i-1
Unflatten(flat, shots, label) ==
    [i \in 1..Len(label) |-> [shots |-> shots[i], dist |-> Slice(flat, SumTo(label, i - 1), SumTo(label, i))]]
\* AS CODED for a LIST of shots: schedule i is read at (i-1) * label[i] - the positions of schedule i only if all earlier
\* schedules have as many outcomes as schedule i
UnflattenAsCodedList(flat, shots, label) ==
    [i \in 1..Len(label) |-> [shots |-> shots[i], dist |-> Slice(flat, (i - 1) * label[i], (i - 1) * label[i] + label[i])]]
\* as coded for ONE number of shots: cumulative offsets
UnflattenCommon(flat, n, label) == Unflatten(flat, [i \in 1..Len(label) |-> n], label)
Uniform(label) == \A i, j \in 1..Len(label) : label[i] = label[j]
=============================================================================
