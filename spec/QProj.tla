------------------------------- MODULE QProj -------------------------------
(***************************************************************************)
(* Projections onto the physicality constraints (properties C04, C05).     *)
(*                                                                         *)
(* Spectral coordinates (layer S).  All four object types reduce, on their *)
(* unitarily covariant fragments, to a rational vector u of length n:      *)
(*   state             u = spectrum of the density matrix (any frame), n=d *)
(*   POVM, common      u = the entries of the elements at one diagonal      *)
(*     eigenframe          position across the m outcomes, n = m           *)
(*   gate, Weyl-       u = weights of the d^2 Weyl unitaries in a local    *)
(*     diagonal            frame (Choi spectrum = d u), n = d^2            *)
(*   measurement       u = joint weights over (outcome, Weyl unitary)      *)
(*     process                                                             *)
(* In these coordinates the stacked-parameter (Frobenius) metric is a      *)
(* multiple of the Euclidean one, the equality constraint is sum u = 1,    *)
(* the inequality constraint is u >= 0, and a twirling argument shows that *)
(* the nearest physical object stays in the fragment.                      *)
(***************************************************************************)
EXTENDS QNum

SumV(u) == RSum(u)
\* Euclidean projection onto the hyperplane sum = 1 / onto the orthant / onto the simplex
ProjEqV(u) == LET s == RDiv(RSub(SumV(u), ROne), RI(Len(u))) IN [i \in 1..Len(u) |-> RSub(u[i], s)]
ProjIneqV(u) == [i \in 1..Len(u) |-> RMax(u[i], RZero)]
\* simplex projection: sort descending, largest rho with u_(rho) - (sum_{i<=rho} u_(i) - 1)/rho > 0
Desc(u) == SortSeq(u, LAMBDA a, b : RLt(b, a))
Theta(u) == LET s == Desc(u)
                cs == [j \in 1..Len(s) |-> RSum(SubSeq(s, 1, j))]
                ok == {j \in 1..Len(s) : RLt(RZero, RSub(s[j], RDiv(RSub(cs[j], ROne), RI(j))))}
                rho == CHOOSE j \in ok : \A l \in ok : l <= j
            IN RDiv(RSub(cs[rho], ROne), RI(rho))
ProjSimplexV(u) == LET th == Theta(u) IN [i \in 1..Len(u) |-> RMax(RSub(u[i], th), RZero)]

FeasibleEq(u) == SumV(u) = ROne
FeasibleIneq(u) == \A i \in 1..Len(u) : RLe(RZero, u[i])
Physical(u) == FeasibleEq(u) /\ FeasibleIneq(u)
Dist2(u, v) == LET dlt == VSub(u, v) IN Dot(dlt, dlt)
\* variational inequality  <x - Px, z - Px> <= 0  characterising the nearest point Px of a convex set
VI(x, px, z) == RLe(Dot(VSub(x, px), VSub(z, px)), RZero)

\* ---------------------------------------------------------------- equality projections in H-coordinates (layer A)
\* state: x_0 := 1/d
EqStateH(x, d) == [a \in 1..Len(x) |-> IF a = 1 THEN R(1, d) ELSE x[a]]
\* POVM: y_k - mean + e_0 / m
EqPovmH(ys) == LET m == Len(ys) n == Len(ys[1])
                   mean == VScale(R(1, m), FoldLeft(LAMBDA acc, y : VAdd(acc, y), VZero(n), ys))
               IN [k \in 1..m |-> VAdd(VSub(ys[k], mean), VScale(R(1, m), VUnit(n, 1)))]
\* gate: first row := e_0
EqGateH(G) == [a \in 1..Len(G) |-> IF a = 1 THEN VUnit(Len(G), 1) ELSE G[a]]
\* measurement process: the defect of the summed first row is spread evenly over the outcomes
EqMProcessH(Ms) == LET m == Len(Ms) n == Len(Ms[1])
                       defect == VSub(FoldLeft(LAMBDA acc, M : VAdd(acc, M[1]), VZero(n), Ms), VUnit(n, 1))
                   IN [k \in 1..m |-> [a \in 1..n |-> IF a = 1 THEN VSub(Ms[k][1], VScale(R(1, m), defect)) ELSE Ms[k][a]]]

\* ---------------------------------------------------------------- the Dykstra-type alternation of calc_proj_physical
\* one sweep, exactly in the order of the code; order = "eq_ineq" | "ineq_eq"
ProjFirst(order, u) == IF order = "eq_ineq" THEN ProjEqV(u) ELSE ProjIneqV(u)
ProjSecond(order, u) == IF order = "eq_ineq" THEN ProjIneqV(u) ELSE ProjEqV(u)
Sweep(order, s) ==          \* s = [x, y, p, q, k, err]
    LET yn == ProjFirst(order, VAdd(s.x, s.p))
        pn == VSub(VAdd(s.x, s.p), yn)
        xn == ProjSecond(order, VAdd(yn, s.q))
        qn == VSub(VAdd(yn, s.q), xn)
    IN [x |-> xn, y |-> yn, p |-> pn, q |-> qn, k |-> s.k + 1,
        err |-> RAdd(Dist2(s.p, pn), Dist2(s.q, qn))]
Start(u) == [x |-> u, y |-> u, p |-> VZero(Len(u)), q |-> VZero(Len(u)), k |-> 0, err |-> RI(-1)]
=============================================================================
