----------------------------- MODULE QSimSingle -----------------------------
(* The single-setting entry point (execute_simulation): sequential repetitions in one process; the seed *)
(* is an integer (a stream named by the seed) or a generator object.  RestartPerRep = TRUE is the        *)
(* behaviour of the library before the repair (every repetition restarts the integer seed's stream);     *)
(* TLC must refute SRepsIndependent for it - the vacuity check of the independence property.             *)
EXTENDS Naturals, Sequences, FiniteSets
CONSTANTS NRep, Draws, RestartPerRep
VARIABLES spos, sdata, srep
svars == <<spos, sdata, srep>>
Reps == 1..NRep
None == <<>>
DrawsOf(stream, from, n) == [k \in 1..n |-> <<stream, from + k - 1>>]
DrawSet(d) == IF d = None THEN {} ELSE {d[2][k] : k \in 1..Len(d[2])}
SInit == spos = 0 /\ sdata = [r \in Reps |-> None] /\ srep = 1
SRun == /\ srep <= NRep
        /\ LET from == IF RestartPerRep THEN 0 ELSE spos IN
           /\ sdata' = [sdata EXCEPT ![srep] = <<"given", DrawsOf(<<"seed">>, from, Draws)>>]
           /\ spos' = from + Draws
        /\ srep' = srep + 1
SSpec == SInit /\ [][SRun]_svars
SRepsIndependent == \A r1, r2 \in Reps : r1 # r2 => DrawSet(sdata[r1]) \cap DrawSet(sdata[r2]) = {}
SReproducible == srep > NRep => \A r \in Reps : sdata[r] = <<"given", DrawsOf(<<"seed">>, (r - 1) * Draws, Draws)>>
=============================================================================
