------------------------------- MODULE QBasis -------------------------------
(***************************************************************************)
(* Integer Hermitian matrix bases and H-coordinates (layer A).             *)
(*                                                                         *)
(* The library works in ORTHONORMAL Hermitian bases B_a (normalised Pauli, *)
(* normalised Gell-Mann, their Kronecker products), whose entries are      *)
(* irrational (1/sqrt2, 1/sqrt3, 1/sqrt6).  The specification uses the     *)
(* proportional integer matrices H_a = sqrt(nu_a) B_a with                 *)
(* nu_a = Tr H_a^2, and represents an operator X = sum_a x_a H_a by its    *)
(* H-coordinates x_a = Tr(H_a X) / nu_a, which are rational for every      *)
(* object of the exact catalogue.  Library coordinate c_a = x_a sqrt(nu_a)  *)
(* (harness, coords.py).                                                   *)
(***************************************************************************)
EXTENDS QNum

\* ---------------------------------------------------------------- one-system bases
\* matrices as rows of <<re, im>> integer pairs
P_I == << <<<<1,0>>, <<0,0>>>>, <<<<0,0>>, <<1,0>>>> >>
P_X == << <<<<0,0>>, <<1,0>>>>, <<<<1,0>>, <<0,0>>>> >>
P_Y == << <<<<0,0>>, <<0,-1>>>>, <<<<0,1>>, <<0,0>>>> >>
P_Z == << <<<<1,0>>, <<0,0>>>>, <<<<0,0>>, <<-1,0>>>> >>
PauliBasis == <<CMatInt(P_I), CMatInt(P_X), CMatInt(P_Y), CMatInt(P_Z)>>
PauliNu == <<2, 2, 2, 2>>

Z3 == <<0,0>>
O3 == <<1,0>>
G_0 == << <<O3, Z3, Z3>>, <<Z3, O3, Z3>>, <<Z3, Z3, O3>> >>
G_1 == << <<Z3, O3, Z3>>, <<O3, Z3, Z3>>, <<Z3, Z3, Z3>> >>
G_2 == << <<Z3, <<0,-1>>, Z3>>, <<<<0,1>>, Z3, Z3>>, <<Z3, Z3, Z3>> >>
G_3 == << <<O3, Z3, Z3>>, <<Z3, <<-1,0>>, Z3>>, <<Z3, Z3, Z3>> >>
G_4 == << <<Z3, Z3, O3>>, <<Z3, Z3, Z3>>, <<O3, Z3, Z3>> >>
G_5 == << <<Z3, Z3, <<0,-1>>>>, <<Z3, Z3, Z3>>, <<<<0,1>>, Z3, Z3>> >>
G_6 == << <<Z3, Z3, Z3>>, <<Z3, Z3, O3>>, <<Z3, O3, Z3>> >>
G_7 == << <<Z3, Z3, Z3>>, <<Z3, Z3, <<0,-1>>>>, <<Z3, <<0,1>>, Z3>> >>
G_8 == << <<O3, Z3, Z3>>, <<Z3, O3, Z3>>, <<Z3, Z3, <<-2,0>>>> >>       \* sqrt3 * lambda_8
GellMannBasis == <<CMatInt(G_0), CMatInt(G_1), CMatInt(G_2), CMatInt(G_3), CMatInt(G_4),
                   CMatInt(G_5), CMatInt(G_6), CMatInt(G_7), CMatInt(G_8)>>
GellMannNu == <<3, 2, 2, 2, 2, 2, 2, 2, 6>>

Basis1(d) == IF d = 2 THEN PauliBasis ELSE GellMannBasis
Nu1(d) == IF d = 2 THEN PauliNu ELSE GellMannNu

\* ---------------------------------------------------------------- composite bases (Kronecker order)
RECURSIVE BasisOf(_)
BasisOf(dims) ==
    IF Len(dims) = 1 THEN Basis1(dims[1])
    ELSE LET rest == BasisOf(Tail(dims))
             first == Basis1(dims[1])
             n == Len(rest)
         IN [k \in 1..(Len(first) * n) |-> Kron(first[((k - 1) \div n) + 1], rest[((k - 1) % n) + 1])]
RECURSIVE NuOf(_)
NuOf(dims) ==
    IF Len(dims) = 1 THEN Nu1(dims[1])
    ELSE LET rest == NuOf(Tail(dims))
             first == Nu1(dims[1])
             n == Len(rest)
         IN [k \in 1..(Len(first) * n) |-> first[((k - 1) \div n) + 1] * rest[((k - 1) % n) + 1]]
RECURSIVE DimOf(_)
DimOf(dims) == IF Len(dims) = 0 THEN 1 ELSE Head(dims) * DimOf(Tail(dims))

\* ---------------------------------------------------------------- coordinates
\* H-coordinates of a (Hermitian) matrix X: x_a = Tr(H_a X) / nu_a  (real part; imaginary part is 0 for Hermitian X)
HCoordC(X, basis, nu) == [a \in 1..Len(basis) |-> CScale(R(1, nu[a]), HSInner(basis[a], X))]
HCoord(X, basis, nu) == [a \in 1..Len(basis) |-> RMul(R(1, nu[a]), HSInner(basis[a], X)[1])]
\* the matrix with H-coordinates x
SumMats(ms, n) == FoldLeft(LAMBDA acc, x : CMatAdd(acc, x), CMatZero(n, n), ms)
FromH(x, basis) == SumMats([a \in 1..Len(basis) |-> CMatScale(x[a], basis[a])], Len(basis[1]))

\* orthogonality of the basis: Tr(H_a H_b) = nu_a delta_ab
Orthogonal(basis, nu) == \A a, b \in 1..Len(basis) :
    HSInner(basis[a], basis[b]) = (IF a = b THEN CI(nu[a], 0) ELSE CZero)
AllHermitian(basis) == \A a \in 1..Len(basis) : IsHermitian(basis[a])
FirstIsIdentity(basis) == basis[1] = CMatId(Len(basis[1]))

\* ---------------------------------------------------------------- computational basis
\* E_{ij} in row-major order (i major) or column-major order
Eij(d, i, j) == [r \in 1..d |-> [c \in 1..d |-> IF r = i /\ c = j THEN COne ELSE CZero]]
CompBasis(d, rowMajor) == [k \in 1..(d * d) |->
    IF rowMajor THEN Eij(d, ((k - 1) \div d) + 1, ((k - 1) % d) + 1)
    ELSE Eij(d, ((k - 1) % d) + 1, ((k - 1) \div d) + 1)]
=============================================================================
