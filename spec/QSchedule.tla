----------------------------- MODULE QSchedule -----------------------------
(***************************************************************************)
(* The language of schedules of quara.qcircuit.Experiment and of the four  *)
(* standard tomography classes (property C20).                             *)
(*                                                                         *)
(* An item is a record [t, k, i]:                                          *)
(*   t : "ok"      a 2-tuple (str, int)                                    *)
(*       malformed shapes: "arity1", "arity3", "list" (not a tuple),       *)
(*       "kindint" (kind not a str), "idxfloat", "idxbool", "idxstr",      *)
(*       "idxnone"                                                         *)
(*   k : kind string (possibly unknown, e.g. "State", "foo")               *)
(*   i : index (integer; meaningless for malformed shapes)                 *)
(* sizes : [state, povm, gate, mprocess -> Nat]   lengths of the lists     *)
(***************************************************************************)
EXTENDS Naturals, Integers, Sequences, FiniteSets

Kinds == {"state", "povm", "gate", "mprocess"}

ItemOK(it, sizes) ==
    /\ it.t = "ok"
    /\ it.k \in Kinds
    /\ 0 <= it.i
    /\ it.i < sizes[it.k]

CountKind(s, k) == Cardinality({j \in 1..Len(s) : s[j].k = k})

\* declarative form of the order rule (only meaningful when every item is well formed)
OrderOK(s) ==
    /\ Len(s) >= 2
    /\ s[1].k = "state"
    /\ s[Len(s)].k \in {"povm", "mprocess"}
    /\ CountKind(s, "state") = 1
    /\ CountKind(s, "povm") <= 1

\* the same rule as a left-to-right automaton: states "start", "run" (after the state, no povm
\* yet, last item not terminal), "runM" (last item mprocess, no povm yet), "doneP" (exactly one
\* povm seen and it is last), "afterP" (a povm seen, something non-terminal after it),
\* "afterPM" (a povm seen earlier, last item mprocess), "dead".
Step(q, k) ==
    CASE q = "start" -> IF k = "state" THEN "run0" ELSE "dead"
      [] q = "run0"  -> CASE k = "state" -> "dead" [] k = "gate" -> "run" [] k = "mprocess" -> "runM" [] k = "povm" -> "doneP" [] OTHER -> "dead"
      [] q = "run"   -> CASE k = "state" -> "dead" [] k = "gate" -> "run" [] k = "mprocess" -> "runM" [] k = "povm" -> "doneP" [] OTHER -> "dead"
      [] q = "runM"  -> CASE k = "state" -> "dead" [] k = "gate" -> "run" [] k = "mprocess" -> "runM" [] k = "povm" -> "doneP" [] OTHER -> "dead"
      [] q = "doneP" -> CASE k = "state" -> "dead" [] k = "gate" -> "afterP" [] k = "mprocess" -> "afterPM" [] k = "povm" -> "dead" [] OTHER -> "dead"
      [] q = "afterP" -> CASE k = "state" -> "dead" [] k = "gate" -> "afterP" [] k = "mprocess" -> "afterPM" [] k = "povm" -> "dead" [] OTHER -> "dead"
      [] q = "afterPM" -> CASE k = "state" -> "dead" [] k = "gate" -> "afterP" [] k = "mprocess" -> "afterPM" [] k = "povm" -> "dead" [] OTHER -> "dead"
      [] OTHER -> "dead"

RECURSIVE RunAut(_, _, _)
RunAut(s, j, q) == IF j > Len(s) THEN q ELSE RunAut(s, j + 1, Step(q, s[j].k))

OrderOKAut(s) == RunAut(s, 1, "start") \in {"runM", "doneP", "afterPM"}

AllItemsOK(s, sizes) == \A j \in 1..Len(s) : ItemOK(s[j], sizes)

SchedOK(s, sizes) == AllItemsOK(s, sizes) /\ OrderOK(s)

Accept(scheds, sizes) == \A n \in 1..Len(scheds) : SchedOK(scheds[n], sizes)

\* Which error classes the property allows for a rejected list.  An item error is an item that
\* is malformed or out of range; an order error is a schedule all of whose items are fine but
\* whose order is not.  When both occur in the list, either class may be reported (the property
\* does not fix a precedence).
AllowedErrors(scheds, sizes) ==
    {"item" : n \in {m \in 1..Len(scheds) : ~AllItemsOK(scheds[m], sizes)}} \cup
    {"order" : n \in {m \in 1..Len(scheds) : AllItemsOK(scheds[m], sizes) /\ ~OrderOK(scheds[m])}}

\* The verdict an implementation may give: "accept", "item", "order".
VerdictAllowed(scheds, sizes, v) ==
    IF Accept(scheds, sizes) THEN v = "accept" ELSE v \in AllowedErrors(scheds, sizes)

(***************************************************************************)
(* Tomography shapes.  n = number of tester states, p = number of tester   *)
(* POVMs.  "all" expands to the full list in the order given.              *)
(***************************************************************************)
It(k, i) == [t |-> "ok", k |-> k, i |-> i]

TomoShapeOK(type, s, nStates, nPovms) ==
    CASE type = "qst" ->
           /\ Len(s) = 2 /\ s[1].t = "ok" /\ s[2].t = "ok"
           /\ s[1].k = "state" /\ s[1].i = 0
           /\ s[2].k = "povm" /\ s[2].i >= 0 /\ s[2].i < nPovms
      [] type = "povmt" ->
           /\ Len(s) = 2 /\ s[1].t = "ok" /\ s[2].t = "ok"
           /\ s[1].k = "state" /\ s[1].i >= 0 /\ s[1].i < nStates
           /\ s[2].k = "povm" /\ s[2].i = 0
      [] type = "qpt" ->
           /\ Len(s) = 3 /\ s[1].t = "ok" /\ s[2].t = "ok" /\ s[3].t = "ok"
           /\ s[1].k = "state" /\ s[1].i >= 0 /\ s[1].i < nStates
           /\ s[2].k = "gate" /\ s[2].i = 0
           /\ s[3].k = "povm" /\ s[3].i >= 0 /\ s[3].i < nPovms
      [] type = "qmpt" ->
           /\ Len(s) = 3 /\ s[1].t = "ok" /\ s[2].t = "ok" /\ s[3].t = "ok"
           /\ s[1].k = "state" /\ s[1].i >= 0 /\ s[1].i < nStates
           /\ s[2].k = "mprocess" /\ s[2].i = 0
           /\ s[3].k = "povm" /\ s[3].i >= 0 /\ s[3].i < nPovms
      [] OTHER -> FALSE

TomoAccept(type, scheds, nStates, nPovms) ==
    \A n \in 1..Len(scheds) : TomoShapeOK(type, scheds[n], nStates, nPovms)

\* the "all" schedule list, in the order the property's forward model uses (C08): state-major
TomoAll(type, nStates, nPovms) ==
    CASE type = "qst"   -> [j \in 1..nPovms |-> <<It("state", 0), It("povm", j - 1)>>]
      [] type = "povmt" -> [j \in 1..nStates |-> <<It("state", j - 1), It("povm", 0)>>]
      [] type = "qpt"   -> [j \in 1..(nStates * nPovms) |->
                              <<It("state", (j - 1) \div nPovms), It("gate", 0), It("povm", (j - 1) % nPovms)>>]
      [] type = "qmpt"  -> [j \in 1..(nStates * nPovms) |->
                              <<It("state", (j - 1) \div nPovms), It("mprocess", 0), It("povm", (j - 1) % nPovms)>>]

=============================================================================
