------------------------------ MODULE QExpLife ------------------------------
(* Life cycle of one Experiment object (quara.qcircuit.experiment): its object lists are changed by item          *)
(* assignment (`exp.states[i] = s`, the idiom of the tomography classes), by the list setters, or the experiment     *)
(* is copied; in between the schedules are run (calc_prob_dist).  What a run returns is the TERM                      *)
(*    [state, gate, povm]   -  the objects the schedule's indices name NOW -                                          *)
(* never what occupied those slots at an earlier run (C13; the circuit side of C08).                                   *)
EXTENDS Naturals, Sequences, FiniteSets, TLC, Json

CONSTANTS StateToks, GateToks, PovmToks,     \* candidate objects per kind
          NS, NP,                             \* numbers of state / POVM slots (one gate slot)
          S0, G0, P0,                         \* initial occupants
          Emit
VARIABLES st, gt, pv, last
evars == <<st, gt, pv, last>>

\* schedules: every (state slot, the gate slot, povm slot), state slot major
Scheds == [k \in 1..(NS * NP) |-> <<((k - 1) \div NP) + 1, ((k - 1) % NP) + 1>>]
Term(s) == [state |-> st[Scheds[s][1]], gate |-> gt, povm |-> pv[Scheds[s][2]]]
Mark(n) == [state |-> n, gate |-> "-", povm |-> "-"]
Pr(act, arg, res) ==
    IF Emit THEN PrintT(ToJson([from |-> [st |-> st, gt |-> gt, pv |-> pv], act |-> act, arg |-> arg, res |-> res,
                                to |-> [st |-> st', gt |-> gt', pv |-> pv']]))
    ELSE TRUE

Init == /\ st = [i \in 1..NS |-> S0]
        /\ gt = G0
        /\ pv = [j \in 1..NP |-> P0]
        /\ last = Mark("init")
\* item assignment into a list (no setter involved)
AssignState(i, t) == /\ st[i] # t /\ st' = [st EXCEPT ![i] = t] /\ UNCHANGED <<gt, pv>> /\ last' = Mark("assign")
                     /\ Pr("AssignItem", [kind |-> "state", index |-> i - 1, tok |-> t], Mark("assign"))
AssignPovm(j, t) == /\ pv[j] # t /\ pv' = [pv EXCEPT ![j] = t] /\ UNCHANGED <<st, gt>> /\ last' = Mark("assign")
                    /\ Pr("AssignItem", [kind |-> "povm", index |-> j - 1, tok |-> t], Mark("assign"))
AssignGate(t) == /\ gt # t /\ gt' = t /\ UNCHANGED <<st, pv>> /\ last' = Mark("assign")
                 /\ Pr("AssignItem", [kind |-> "gate", index |-> 0, tok |-> t], Mark("assign"))
\* the list setter with a new list (same length)
SetStates(l) == /\ st # l /\ st' = l /\ UNCHANGED <<gt, pv>> /\ last' = Mark("setlist")
                /\ Pr("SetList", [kind |-> "state", list |-> l], Mark("setlist"))
\* copy(): work continues on the copy (same contents)
Copy == /\ UNCHANGED <<st, gt, pv>> /\ last' = Mark("copy") /\ Pr("Copy", [x |-> 0], Mark("copy"))
Run(s) == /\ UNCHANGED <<st, gt, pv>> /\ last' = Term(s) /\ Pr("Run", [schedule |-> s - 1], Term(s))
RunAll == /\ UNCHANGED <<st, gt, pv>> /\ last' = Mark("runall")
          /\ Pr("RunAll", [x |-> 0], [all |-> [s \in 1..Len(Scheds) |-> Term(s)]])

Next == \/ \E i \in 1..NS, t \in StateToks : AssignState(i, t)
        \/ \E j \in 1..NP, t \in PovmToks : AssignPovm(j, t)
        \/ \E t \in GateToks : AssignGate(t)
        \/ \E l \in [1..NS -> StateToks] : SetStates(l)
        \/ Copy \/ RunAll
        \/ \E s \in 1..Len(Scheds) : Run(s)
Spec == Init /\ [][Next]_evars
View == <<st, gt, pv>>

\* a run changes nothing; what it returns names the current occupants of the slots of its schedule
RunsArePure == [][last'.gate # "-" => UNCHANGED <<st, gt, pv>>]_evars
RunTerm == last.gate # "-" => \E s \in 1..Len(Scheds) : last = Term(s)
=============================================================================
