------------------------------ MODULE QRandom ------------------------------
(***************************************************************************)
(* Random streams of quara's data generation (property C14; the stream     *)
(* part of C15).                                                           *)
(*                                                                         *)
(* A stream is [root, used]: `root` identifies how it was seeded, `used`   *)
(* is the sequence of draw descriptors it has served so far.  A pseudo-    *)
(* random generator is deterministic, so the block a draw returns is a     *)
(* function of (root, used, descriptor): the output of a call is modelled  *)
(* by that token.  Equal tokens <=> equal outputs is what the binding      *)
(* checks on the implementation (unequal tokens give unequal outputs       *)
(* except with negligible probability for the draw sizes used).            *)
(*                                                                         *)
(* to_stream(None) is the process-global legacy stream, to_stream(int s)   *)
(* a FRESH stream seeded by s, to_stream(g) the generator g itself.        *)
(***************************************************************************)
EXTENDS Naturals, Sequences, FiniteSets, TLC, Json

CONSTANTS Seeds,        \* integer seeds
          GenIds,       \* generator objects the caller holds
          GenSeed,      \* GenIds -> Seeds : how each was created
          EPs,          \* entry points (opaque names), each consuming from the stream it is given
          MaxCalls,     \* bound on the history length
          Emit

VARIABLES glob,         \* the global legacy stream
          gens,         \* GenIds -> stream
          ncalls,
          last,         \* the last call: [kind, ep, who, tok]
          log           \* history: set of all calls made so far (with their index)

rvars == <<glob, gens, ncalls, last, log>>

Fresh(s) == [root |-> <<"gen", s>>, used |-> <<>>]
Legacy(s) == [root |-> <<"legacy", s>>, used |-> <<>>]
Token(stream, ep) == [root |-> stream.root, used |-> stream.used, ep |-> ep]
NoTok == [root |-> <<"none", 0>>, used |-> <<>>, ep |-> "none"]
Advance(stream, ep) == [stream EXCEPT !.used = Append(@, ep)]
Call(kind, ep, who, tok) == [kind |-> kind, ep |-> ep, who |-> who, tok |-> tok, n |-> ncalls]

Pr(act, arg, o) ==
    IF Emit THEN PrintT(ToJson([from |-> [glob |-> glob, gens |-> gens], act |-> act, arg |-> arg, out |-> o,
                                to |-> [glob |-> glob', gens |-> gens']]))
    ELSE TRUE

Init == /\ glob = Legacy(0)
        /\ gens = [g \in GenIds |-> Fresh(GenSeed[g])]
        /\ ncalls = 0
        /\ last = Call("init", "none", "none", NoTok)
        /\ log = {}

Record(c) == last' = c /\ log' = log \cup {c}

CallInt(ep, s) ==            \* integer seed: fresh stream, nothing else touched
    /\ Record(Call("int", ep, ToString(s), Token(Fresh(s), ep)))
    /\ UNCHANGED <<glob, gens>>
    /\ Pr("CallInt", [ep |-> ep, seed |-> s], Token(Fresh(s), ep))

CallGen(ep, g) ==            \* caller's generator: advances it
    /\ Record(Call("gen", ep, g, Token(gens[g], ep)))
    /\ gens' = [gens EXCEPT ![g] = Advance(@, ep)]
    /\ UNCHANGED glob
    /\ Pr("CallGen", [ep |-> ep, gen |-> g], Token(gens[g], ep))

CallNone(ep) ==              \* no seed: the global stream advances
    /\ Record(Call("none", ep, "global", Token(glob, ep)))
    /\ glob' = Advance(glob, ep)
    /\ UNCHANGED gens
    /\ Pr("CallNone", [ep |-> ep], Token(glob, ep))

UnrelatedGlobalDraw ==       \* somebody else uses numpy's global stream
    /\ glob' = Advance(glob, "unrelated")
    /\ Record(Call("unrelated", "none", "global", NoTok))
    /\ UNCHANGED gens
    /\ Pr("UnrelatedGlobalDraw", [x |-> 0], NoTok)

ResetSeed(s) ==              \* Experiment.reset_seed_data / QTomography.reset_seed
    /\ glob' = Legacy(s)
    /\ Record(Call("reset", "none", ToString(s), NoTok))
    /\ UNCHANGED gens
    /\ Pr("ResetSeed", [seed |-> s], NoTok)

Next == /\ ncalls < MaxCalls
        /\ ncalls' = ncalls + 1
        /\ \/ \E ep \in EPs, s \in Seeds : CallInt(ep, s)
           \/ \E ep \in EPs, g \in GenIds : CallGen(ep, g)
           \/ \E ep \in EPs : CallNone(ep)
           \/ UnrelatedGlobalDraw
           \/ \E s \in Seeds : ResetSeed(s)

Spec == Init /\ [][Next]_rvars
View == <<glob, gens, ncalls>>

\* ------------------------------------------------------------------ properties
\* an integer-seeded output is a function of (seed, entry point) only: whatever happened before
SeededDeterministic == \A a, b \in log :
    (a.kind = "int" /\ b.kind = "int" /\ a.ep = b.ep /\ a.who = b.who) => a.tok = b.tok
\* a shared generator advances: its successive draws are pairwise different blocks
GeneratorAdvances == \A a, b \in log :
    (a.kind = "gen" /\ b.kind = "gen" /\ a.who = b.who /\ a.n # b.n) => a.tok # b.tok
\* global draws between two resets are pairwise different blocks
GlobalAdvances == \A a, b \in log :
    (a.kind = "none" /\ b.kind = "none" /\ a.n < b.n /\ ~\E c \in log : c.kind = "reset" /\ a.n < c.n /\ c.n < b.n)
        => a.tok # b.tok
\* seeded and generator calls never touch the global stream, nor other generators
GlobalUntouched == [][last'.kind \in {"int", "gen"} => glob' = glob]_rvars
OthersUntouched == [][/\ last'.kind \in {"int", "none", "unrelated", "reset"} => gens' = gens
                      /\ last'.kind = "gen" => \A g \in GenIds : g # last'.who => gens'[g] = gens[g]]_rvars
\* streams only grow (prefix order) unless reseeded
IsPrefixSeq(a, b) == Len(a) <= Len(b) /\ SubSeq(b, 1, Len(a)) = a
StreamsGrow == [][/\ \A g \in GenIds : gens'[g].root = gens[g].root /\ IsPrefixSeq(gens[g].used, gens'[g].used)
                  /\ (last'.kind # "reset" => glob'.root = glob.root /\ IsPrefixSeq(glob.used, glob'.used))]_rvars
\* two generators created from the same seed and used alike return the same blocks
TwinGenerators == \A g, h \in GenIds :
    (GenSeed[g] = GenSeed[h] /\ gens[g].used = gens[h].used) => \A ep \in EPs : Token(gens[g], ep) = Token(gens[h], ep)
=============================================================================
