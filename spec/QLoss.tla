------------------------------- MODULE QLoss -------------------------------
(***************************************************************************)
(* Loss functions of the estimators (property C12), exact over rationals.  *)
(* A model is (A, b) with rows grouped by schedule (sizes[s] rows each),   *)
(* p(v) = A v + b, data q of the same shape.                               *)
(*   squared error     : sum_s (p_s - q_s)^T W_s (p_s - q_s)               *)
(*   relative entropy  : sum_s w_s sum_o q_so log(q_so / p_so)   (q_so > 0)*)
(* Weighting modes: identity, custom, inverse sample / unbiased covariance *)
(* (squared error only): W_s = inverse of the leading (m-1)-block of       *)
(* (diag q - q q^T)/n' regularised by I / n^(3/2), zero-padded; n' = n or  *)
(* n - 1; n a perfect square so that n^(3/2) is an integer.                *)
(***************************************************************************)
EXTENDS QNum

Offsets(sizes) == [s \in 1..(Len(sizes) + 1) |-> FoldLeft(LAMBDA a, x : a + x, 0, SubSeq(sizes, 1, s - 1))]
Block(v, sizes, s) == SubSeq(v, Offsets(sizes)[s] + 1, Offsets(sizes)[s + 1])
RowsOfSched(A, sizes, s) == SubSeq(A, Offsets(sizes)[s] + 1, Offsets(sizes)[s + 1])
Predict(A, b, v) == VAdd(MatVec(A, v), b)
QuadForm(W, u, v) == Dot(u, MatVec(W, v))

\* ---------------------------------------------------------------- weights
RECURSIVE ISqrt(_, _)
ISqrt(n, k) == IF k * k >= n THEN k ELSE ISqrt(n, k + 1)
Pow32(n) == LET r == ISqrt(n, 0) IN r * r * r                         \* n^(3/2) for a perfect square n
CovBlock(q, nEff) == LET m == Len(q) IN
    [i \in 1..(m - 1) |-> [j \in 1..(m - 1) |->
        RDiv(RSub(IF i = j THEN q[i] ELSE RZero, RMul(q[i], q[j])), RI(nEff))]]
InvCovWeight(q, n, unbiased) ==
    LET m == Len(q)
        reg == R(1, Pow32(n))
        blk == CovBlock(q, IF unbiased THEN n - 1 ELSE n)
        ext == [i \in 1..(m - 1) |-> [j \in 1..(m - 1) |-> IF i = j THEN RAdd(blk[i][j], reg) ELSE blk[i][j]]]
        inv == MatInverse(ext)
    IN [i \in 1..m |-> [j \in 1..m |-> IF i < m /\ j < m THEN inv[i][j] ELSE RZero]]
IdentityW(sizes) == [s \in 1..Len(sizes) |-> MatId(sizes[s])]

\* ---------------------------------------------------------------- squared error
SEValue(A, b, sizes, q, W, v) ==
    LET p == Predict(A, b, v) IN
    RSum([s \in 1..Len(sizes) |-> LET d == VSub(Block(p, sizes, s), Block(q, sizes, s)) IN QuadForm(W[s], d, d)])
SEGradient(A, b, sizes, q, W, v) ==
    LET p == Predict(A, b, v)
        parts == [s \in 1..Len(sizes) |->
                    MatVec(Transpose(RowsOfSched(A, sizes, s)), MatVec(W[s], VSub(Block(p, sizes, s), Block(q, sizes, s))))]
    IN VScale(RI(2), FoldLeft(LAMBDA acc, x : VAdd(acc, x), VZero(Cols(A)), parts))
SEHessian(A, sizes, W) ==
    LET parts == [s \in 1..Len(sizes) |->
                    LET As == RowsOfSched(A, sizes, s) IN MatMul(Transpose(As), MatMul(W[s], As))]
    IN MatScale(RI(2), FoldLeft(LAMBDA acc, x : MatAdd(acc, x), MatZero(Cols(A), Cols(A)), parts))

\* ---------------------------------------------------------------- relative entropy
\* the value is the multiset of terms  coef * log(num / den)
RETerms(A, b, sizes, q, w, v) ==
    LET p == Predict(A, b, v)
        off == Offsets(sizes)
    IN ConcatAll([s \in 1..Len(sizes) |->
         SelectSeq([o \in 1..sizes[s] |-> [coef |-> RMul(w[s], q[off[s] + o]), num |-> q[off[s] + o], den |-> p[off[s] + o]]],
                   LAMBDA t : ~RIsZero(t.num))])
\* gradient = sum_r g_r A_r ,  Hessian = sum_r h_r A_r A_r^T  with the per-row coefficients below
\* (kept per row: their common denominator over many rows would not fit TLC's 32-bit integers)
REGradCoef(A, b, sizes, q, w, v) ==
    LET p == Predict(A, b, v)
        off == Offsets(sizes)
    IN ConcatAll([s \in 1..Len(sizes) |-> [o \in 1..sizes[s] |-> RNeg(RDiv(RMul(w[s], q[off[s] + o]), p[off[s] + o]))]])
REHessCoef(A, b, sizes, q, w, v) ==
    LET p == Predict(A, b, v)
        off == Offsets(sizes)
    IN ConcatAll([s \in 1..Len(sizes) |-> [o \in 1..sizes[s] |-> RDiv(RMul(w[s], q[off[s] + o]), RSq(p[off[s] + o]))]])
=============================================================================
