SPECIFICATION Spec
INVARIANT Report
