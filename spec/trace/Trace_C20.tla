----------------------------- MODULE Trace_C20 -----------------------------
(* C->S: every line is one observed call of the implementation:                            *)
(*   {"op":"exp",  "sizes":{kind:n}, "scheds":[[item..]..], "v":"accept"|"item"|"order"|other}*)
(*   {"op":"tomo", "type":.., "ns":.., "np":.., "scheds":.., "v":"accept"|"reject"}          *)
(* The specification's verdict is evaluated for every line; lines it does not allow are     *)
(* collected in `bad` (total verdict: validation continues after a mismatch).               *)
EXTENDS QSchedule, TLC, Json, IOUtils

Tr == ndJsonDeserialize(IOEnv.TRACE_FILE)

VARIABLES l, bad
tvars == <<l, bad>>

LineOK(e) ==
    IF e.op = "exp" THEN VerdictAllowed(e.scheds, e.sizes, e.v)
    ELSE IF e.op = "tomo" THEN
        (e.v = "accept") <=> (TomoAccept(e.type, e.scheds, e.ns, e.np))
    ELSE FALSE

Init == l = 1 /\ bad = {}
Next == /\ l <= Len(Tr)
        /\ l' = l + 1
        /\ bad' = IF LineOK(Tr[l]) THEN bad ELSE bad \cup {l}
Spec == Init /\ [][Next]_tvars

Report == l = Len(Tr) + 1 => PrintT(ToJson([consumed |-> l - 1, bad |-> bad]))
=============================================================================
