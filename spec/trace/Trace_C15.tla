----------------------------- MODULE Trace_C15 -----------------------------
(* C->S for C15: events recorded from REAL threaded executions of the estimation level of the simulation  *)
(* flow are replayed on the actions of QSim.  The implementation logs, at the two linearisation points   *)
(* of a loss-minimisation task,                                                                          *)
(*   SetE  (s, c, r, loss = identity of the loss object it configures, own = digest of its own data)     *)
(*   OptE  (s, c, r, loss, held = digest of the data the loss object holds when algo.optimize starts)    *)
(* The specification's LossObj is taken from the log (the object identity is what the implementation     *)
(* decides); TLC checks on every step that the logged `held` data is the data the model says the object  *)
(* holds (refinement), QSim's OwnData on the resulting estimate, and that the repetitions of one case     *)
(* never configure the same loss object (private copies).                                                 *)
EXTENDS QSim, Json, IOUtils

Tr == ndJsonDeserialize(IOEnv.TRACE_FILE)
VARIABLES l, bad, dig, objOf
tvars == <<vars, l, bad, dig, objOf>>

\* all data are generated and every case is open: the trace covers level 4 only
TInit == /\ par = [ps |-> 1, pd |-> 1, pu |-> 1, pe |-> 2]
         /\ sst = [s \in Samples |-> "cases"]
         /\ dst = [s \in Samples |-> [r \in Reps |-> "done"]]
         /\ ust = [s \in Samples |-> [c \in Cases |-> "run"]]
         /\ est_ = [s \in Samples |-> [c \in Cases |-> [r \in Reps |-> "new"]]]
         /\ tru = [s \in Samples |-> ExpTrue(s)]
         /\ qpos = [s \in Samples |-> 1]
         /\ data = [s \in Samples |-> [r \in Reps |-> ExpData(s, r)]]
         /\ loss = [o \in {} |-> None]
         /\ est = [s \in Samples |-> [c \in Cases |-> [r \in Reps |-> None]]]
         /\ sched = <<>>
         /\ l = 1 /\ bad = {} /\ dig = [x \in {} |-> ""] /\ objOf = [x \in {} |-> 0]

E == Tr[l]
Task(e) == <<e.s, e.c, e.r>>
\* which repetition's data does the model say object o holds?
HeldRep(s, o) == {r \in Reps : o \in DOMAIN loss /\ loss[o] = data[s][r]}

TSet == /\ l <= Len(Tr) /\ E.ev = "SetE"
        /\ LET o == <<"obj", E.loss>>
               clash == \E t \in DOMAIN objOf : t # Task(E) /\ t[1] = E.s /\ t[2] = E.c /\ objOf[t] = E.loss
           IN /\ loss' = [x \in DOMAIN loss \cup {o} |-> IF x = o THEN data[E.s][E.r] ELSE loss[x]]
              /\ objOf' = [t \in DOMAIN objOf \cup {Task(E)} |-> IF t = Task(E) THEN E.loss ELSE objOf[t]]
              /\ dig' = [x \in DOMAIN dig \cup {<<E.s, E.r>>} |-> IF x = <<E.s, E.r>> THEN E.own ELSE dig[x]]
              /\ bad' = IF est_[E.s][E.c][E.r] # "new" \/ clash THEN bad \cup {l} ELSE bad
        /\ est_' = [est_ EXCEPT ![E.s][E.c][E.r] = "opt"]
        /\ l' = l + 1
        /\ UNCHANGED <<par, sst, dst, ust, tru, qpos, data, est, sched>>

TOpt == /\ l <= Len(Tr) /\ E.ev = "OptE"
        /\ LET o == <<"obj", E.loss>>
               held == HeldRep(E.s, o)
               okOrder == est_[E.s][E.c][E.r] = "opt" /\ Task(E) \in DOMAIN objOf /\ objOf[Task(E)] = E.loss
               \* refinement: the implementation holds the data the model says it holds
               okHeld == \E r \in held : <<E.s, r>> \in DOMAIN dig /\ dig[<<E.s, r>>] = E.held
               newEst == <<E.c, Stored(o)>>
           IN /\ est' = [est EXCEPT ![E.s][E.c][E.r] = newEst]
              \* QSim!OwnData on the estimate just produced
              /\ bad' = IF okOrder /\ okHeld /\ newEst = <<E.c, data[E.s][E.r]>> THEN bad ELSE bad \cup {l}
        /\ est_' = [est_ EXCEPT ![E.s][E.c][E.r] = "done"]
        /\ l' = l + 1
        /\ UNCHANGED <<par, sst, dst, ust, tru, qpos, data, loss, sched, dig, objOf>>

TNext == TSet \/ TOpt
TSpec == TInit /\ [][TNext]_tvars
Report == l = Len(Tr) + 1 => PrintT(ToJson([consumed |-> l - 1, bad |-> bad,
                                            done |-> Cardinality({t \in Samples \X Cases \X Reps : est_[t[1]][t[2]][t[3]] = "done"})]))
=============================================================================
