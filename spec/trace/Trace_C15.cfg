SPECIFICATION TSpec
CONSTANT NSample = 2
CONSTANT NRep = 4
CONSTANT NCase = 2
CONSTANT LossCases = {1, 2}
CONSTANT Draws = 1
CONSTANT PrivateCopies = TRUE
CONSTANT ParSet = {}
INVARIANT Report
