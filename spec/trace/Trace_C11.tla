----------------------------- MODULE Trace_C11 -----------------------------
(* C->S: recorded runs of the backtracking projected-gradient algorithm validated against the     *)
(* control structure of the optimisation loop.  One line per iteration:                            *)
(*  {"tid", "k", "j", "armijo": accepted step satisfies the Armijo inequality,                      *)
(*   "prevrej": j = 0 or the doubled step was rejected, "noninc": loss did not increase,            *)
(*   "feasible": iterate physical, "stop": windowed stopping value <= eps, "kmax": k = max_iteration,*)
(*   "last": the run ended with this iteration}                                                    *)
EXTENDS Naturals, Integers, Sequences, FiniteSets, TLC, Json, IOUtils

Tr == ndJsonDeserialize(IOEnv.TRACE_FILE)
VARIABLES l, bad, cur      \* cur = [tid, k, ended] : the run being read
tvars == <<l, bad, cur>>

StepOK(e, c) ==
    /\ e.armijo /\ e.prevrej /\ e.noninc /\ e.feasible
    /\ (e.last <=> (e.stop \/ e.kmax))
    /\ IF e.tid = c.tid THEN (~c.ended /\ e.k = c.k + 1) ELSE (e.k = 1 /\ (c.tid = -1 \/ c.ended))

Init == l = 1 /\ bad = {} /\ cur = [tid |-> -1, k |-> 0, ended |-> TRUE]
Next == /\ l <= Len(Tr)
        /\ l' = l + 1
        /\ bad' = IF StepOK(Tr[l], cur) THEN bad ELSE bad \cup {l}
        /\ cur' = [tid |-> Tr[l].tid, k |-> Tr[l].k, ended |-> Tr[l].last]
Spec == Init /\ [][Next]_tvars
Report == l = Len(Tr) + 1 => PrintT(ToJson([consumed |-> l - 1, bad |-> bad, open |-> ~cur.ended]))
=============================================================================
