SPECIFICATION Spec
INVARIANT Report
