SPECIFICATION Spec
INVARIANT Report
