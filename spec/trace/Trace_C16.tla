----------------------------- MODULE Trace_C16 -----------------------------
(* C->S: recorded calls of quara.utils.index_util validated against QIndex.                *)
(*   {"shape":[..], "n":serial, "multi":[..] (library: serial -> multi), "back": (multi -> serial)} *)
EXTENDS QIndex, TLC, Json, IOUtils

Tr == ndJsonDeserialize(IOEnv.TRACE_FILE)
VARIABLES l, bad
tvars == <<l, bad>>

LineOK(e) == /\ e.multi = Multi(e.shape, e.n)
             /\ e.back = Serial(e.shape, e.multi)
             /\ e.back = e.n

Init == l = 1 /\ bad = {}
Next == /\ l <= Len(Tr)
        /\ l' = l + 1
        /\ bad' = IF LineOK(Tr[l]) THEN bad ELSE bad \cup {l}
Spec == Init /\ [][Next]_tvars
Report == l = Len(Tr) + 1 => PrintT(ToJson([consumed |-> l - 1, bad |-> bad]))
=============================================================================
