------------------------------- MODULE QTomo -------------------------------
(***************************************************************************)
(* The affine forward model of standard quantum tomography (properties     *)
(* C08, C09, C12, C19), in H-coordinates.                                  *)
(*                                                                         *)
(* tomo = [type   : "qst" | "povmt" | "qpt" | "qmpt",                      *)
(*         sys    : sequence of subsystem dimensions,                      *)
(*         m      : number of outcomes of the unknown (povmt, qmpt; else 1)*)
(*         para   : BOOLEAN  (equality constraint built into the variables)*)
(*         states : sequence of tester states  (H-coordinate vectors),     *)
(*         povms  : sequence of tester POVMs   (sequences of vectors),     *)
(*         scheds : sequence of <<i, j>> : tester state i, tester POVM j   *)
(*                  (1-based; the unused component is 1)]                  *)
(* Rows are ordered by (schedule, outcome); for qmpt the outcome is the    *)
(* pair (unknown's outcome, POVM outcome), unknown's outcome major.        *)
(***************************************************************************)
EXTENDS QObjects, QIndex

TypeOf(tomo) == CASE tomo.type = "qst" -> "state" [] tomo.type = "povmt" -> "povm"
                  [] tomo.type = "qpt" -> "gate" [] tomo.type = "qmpt" -> "mprocess"
TDim(tomo) == DimOf(tomo.sys)
TNu(tomo) == NuOf(tomo.sys)
TNumVar(tomo) == NumVar(TypeOf(tomo), TDim(tomo), tomo.m, tomo.para)

\* number of outcomes of schedule s
NOut(tomo, s) ==
    CASE tomo.type = "qst"   -> Len(tomo.povms[tomo.scheds[s][2]])
      [] tomo.type = "povmt" -> tomo.m
      [] tomo.type = "qpt"   -> Len(tomo.povms[tomo.scheds[s][2]])
      [] tomo.type = "qmpt"  -> tomo.m * Len(tomo.povms[tomo.scheds[s][2]])

\* rows: sequence of <<schedule, outcome (0-based serial)>>
RowList(tomo) == ConcatAll([s \in 1..Len(tomo.scheds) |-> [o \in 1..NOut(tomo, s) |-> <<s, o - 1>>]])

\* coefficient of the unknown's cell <<x, r, c>> (0-based) in the probability of a row
Coef(tomo, row, cell) ==
    LET s == row[1]
        o == row[2]
        i == tomo.scheds[s][1]
        j == tomo.scheds[s][2]
        nu == TNu(tomo)
    IN CASE tomo.type = "qst" ->
              RMul(RI(nu[cell[2] + 1]), tomo.povms[j][o + 1][cell[2] + 1])
         [] tomo.type = "povmt" ->
              IF cell[1] = o THEN RMul(RI(nu[cell[2] + 1]), tomo.states[i][cell[2] + 1]) ELSE RZero
         [] tomo.type = "qpt" ->
              RMul(RMul(RI(nu[cell[2] + 1]), tomo.povms[j][o + 1][cell[2] + 1]), tomo.states[i][cell[3] + 1])
         [] tomo.type = "qmpt" ->
              LET np == Len(tomo.povms[j])
                  k == o \div np
                  l == o % np
              IN IF cell[1] = k
                 THEN RMul(RMul(RI(nu[cell[2] + 1]), tomo.povms[j][l + 1][cell[2] + 1]), tomo.states[i][cell[3] + 1])
                 ELSE RZero

\* value of the symbolic constants of QIndex!ImpliedForm in H-coordinates
ConstH(name, d) == CASE name = "0" -> RZero [] name = "1" -> ROne
                     [] name = "INV_SQRT_D" -> R(1, d)     \* state: x_0 = 1/d   (library: 1/sqrt d)
                     [] name = "SQRT_D" -> ROne            \* povm: sum of y_0 = 1 (library: sqrt d)

MatA(tomo) ==
    LET T == TypeOf(tomo) d == TDim(tomo) m == tomo.m
        rows == RowList(tomo)
        nv == TNumVar(tomo)
    IN [r \in 1..Len(rows) |-> [v \in 1..nv |->
          LET cell == VarCell(T, d, m, tomo.para, v - 1)
              direct == Coef(tomo, rows[r], cell)
          IN IF ~tomo.para THEN direct
             ELSE LET sub == SubtractedIn(T, d, m, cell)
                  IN IF sub = {} THEN direct
                     ELSE RSub(direct, Coef(tomo, rows[r], CHOOSE ic \in sub : TRUE))]]

VecB(tomo) ==
    LET T == TypeOf(tomo) d == TDim(tomo) m == tomo.m
        rows == RowList(tomo)
        imp == IF tomo.para THEN SetToSeq({c \in ImpliedCells(T, d, m) : ImpliedForm(T, d, m, c).const # "0"}) ELSE <<>>
    IN [r \in 1..Len(rows) |->
          RSum([k \in 1..Len(imp) |-> RMul(Coef(tomo, rows[r], imp[k]), ConstH(ImpliedForm(T, d, m, imp[k]).const, d))])]

\* ---------------------------------------------------------------- the circuit side (independent of MatA)
\* value of every cell of the unknown for a variable vector v (H-coordinates)
CellValue(tomo, v, cell) ==
    LET T == TypeOf(tomo) d == TDim(tomo) m == tomo.m IN
    IF tomo.para /\ IsImplied(T, d, m, cell)
    THEN LET f == ImpliedForm(T, d, m, cell)
             ms == SetToSeq(f.minus)
         IN RSub(ConstH(f.const, d), RSum([k \in 1..Len(ms) |-> v[CellVar(T, d, m, TRUE, ms[k]) + 1]]))
    ELSE v[CellVar(T, d, m, tomo.para, cell) + 1]
\* the unknown object rebuilt from v
UnknownState(tomo, v) == [a \in 1..Sq(TDim(tomo)) |-> CellValue(tomo, v, <<0, a - 1, 0>>)]
UnknownPovm(tomo, v) == [k \in 1..tomo.m |-> [a \in 1..Sq(TDim(tomo)) |-> CellValue(tomo, v, <<k - 1, a - 1, 0>>)]]
UnknownGate(tomo, v) == [a \in 1..Sq(TDim(tomo)) |-> [b \in 1..Sq(TDim(tomo)) |-> CellValue(tomo, v, <<0, a - 1, b - 1>>)]]
UnknownMProcess(tomo, v) == [k \in 1..tomo.m |-> [a \in 1..Sq(TDim(tomo)) |-> [b \in 1..Sq(TDim(tomo)) |->
                                CellValue(tomo, v, <<k - 1, a - 1, b - 1>>)]]]
\* Born-rule statistics of running schedule s on the rebuilt object (linear extension: no clipping)
CircuitDist(tomo, v, s) ==
    LET i == tomo.scheds[s][1] j == tomo.scheds[s][2] nu == TNu(tomo) IN
    CASE tomo.type = "qst"   -> [k \in 1..Len(tomo.povms[j]) |-> Born(tomo.povms[j][k], UnknownState(tomo, v), nu)]
      [] tomo.type = "povmt" -> [k \in 1..tomo.m |-> Born(UnknownPovm(tomo, v)[k], tomo.states[i], nu)]
      [] tomo.type = "qpt"   -> LET out == ApplyH(UnknownGate(tomo, v), tomo.states[i])
                                IN [k \in 1..Len(tomo.povms[j]) |-> Born(tomo.povms[j][k], out, nu)]
      [] tomo.type = "qmpt"  -> LET mp == UnknownMProcess(tomo, v)
                                    np == Len(tomo.povms[j])
                                IN [o \in 1..(tomo.m * np) |->
                                      Born(tomo.povms[j][((o - 1) % np) + 1], ApplyH(mp[((o - 1) \div np) + 1], tomo.states[i]), nu)]
CircuitAll(tomo, v) == ConcatAll([s \in 1..Len(tomo.scheds) |-> CircuitDist(tomo, v, s)])
ModelAll(tomo, v) == VAdd(MatVec(MatA(tomo), v), VecB(tomo))

\* the variable vector of a given object (inverse of Unknown*)
VarOfCells(tomo, cellval(_)) == [v \in 1..TNumVar(tomo) |-> cellval(VarCell(TypeOf(tomo), TDim(tomo), tomo.m, tomo.para, v - 1))]
=============================================================================
