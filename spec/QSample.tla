------------------------------- MODULE QSample -------------------------------
(* Sampling mode of a measurement process (MProcess.set_mode_sampling, compose_qoperations): in sampling mode    *)
(* applying the process to a state returns ONE post-measurement state drawn with the outcome probabilities,      *)
(* applying it to an ensemble draws one branch per member.  set_mode_sampling(True, seed) stores a stream        *)
(* made from the seed in the object.  The model records, for every draw, WHICH stream it consumed:              *)
(*   UseOwnStream = TRUE   the stream the object was given (what the seed argument promises),                    *)
(*   UseOwnStream = FALSE  the process-wide global stream (what the code does: scipy's multinomial.rvs is       *)
(*                         called without random_state).                                                         *)
(* SeedDetermines - every draw comes from the object's own stream, so the sampled branches are a function of     *)
(* the seed and of the number of earlier draws on this object - holds for the first and is refuted by TLC for   *)
(* the second; the binding shows that the implementation conforms to the second.                                 *)
EXTENDS Naturals, Sequences, FiniteSets, TLC, Json

CONSTANTS Seeds, EnsSizes, MaxLen, UseOwnStream,
          EnsembleSamplingFails,   \* as coded with the installed scipy: the member-wise draw is handed probabilities that sum to the member's weight, which multinomial.rvs rejects
          Emit
VARIABLES sampling, own, glob, hist, sched
qvars == <<sampling, own, glob, hist, sched>>

NoStream == [seed |-> 0, pos |-> 0]            \* seeds are positive
Init == sampling = FALSE /\ own = NoStream /\ glob = 0 /\ hist = <<>> /\ sched = <<>>

Step(a) == sched' = Append(sched, a) /\ Len(sched) < MaxLen
SetMode(s) == /\ sampling' = TRUE /\ own' = [seed |-> s, pos |-> 0] /\ UNCHANGED <<glob, hist>> /\ Step([a |-> "SetMode", seed |-> s])
Clear == /\ sampling /\ sampling' = FALSE /\ own' = NoStream /\ UNCHANGED <<glob, hist>> /\ Step([a |-> "Clear"])
Global == /\ glob' = glob + 1 /\ UNCHANGED <<sampling, own, hist>> /\ Step([a |-> "Global"])     \* an unrelated draw elsewhere
\* k draws (k = 1: the process applied to a state; k > 1: applied to an ensemble with k members)
Draws(k) == IF UseOwnStream THEN [i \in 1..k |-> <<"own", own.seed, own.pos + i - 1>>] ELSE [i \in 1..k |-> <<"glob", 0, glob + i - 1>>]
Fails(k) == sampling /\ k > 1 /\ ~UseOwnStream /\ EnsembleSamplingFails
Apply(k) ==
    /\ IF Fails(k) THEN UNCHANGED <<hist, own, glob>>       \* raises before anything is drawn
       ELSE IF sampling
       THEN /\ hist' = hist \o Draws(k)
            /\ IF UseOwnStream THEN own' = [own EXCEPT !.pos = @ + k] /\ glob' = glob ELSE glob' = glob + k /\ own' = own
       ELSE UNCHANGED <<hist, own, glob>>          \* without sampling the whole ensemble is returned: nothing is drawn
    /\ UNCHANGED sampling
    /\ Step([a |-> "Apply", k |-> k])
Next == \/ \E s \in Seeds : SetMode(s) \/ Clear \/ Global \/ \E k \in EnsSizes : Apply(k)
Spec == Init /\ [][Next]_qvars
View == <<sampling, own, glob, hist>>

SeedDetermines == \A i \in 1..Len(hist) : hist[i][1] = "own"
NoSamplingNoDraw == [][~sampling => hist' = hist]_qvars
\* the n-th draw on one seeded object is always the n-th value of its stream, whatever happened elsewhere (own stream only)
OwnPositionsContiguous == UseOwnStream => \A i \in 1..Len(hist) : \A j \in 1..Len(hist) :
    (i < j /\ hist[i][2] = hist[j][2] /\ \A m \in (i + 1)..(j - 1) : hist[m][2] # hist[i][2]) => (hist[j][3] = hist[i][3] + 1 \/ hist[j][3] = 0)
EmitSched == IF Emit /\ Len(sched) = MaxLen THEN PrintT(ToJson([sched |-> sched, hist |-> hist])) ELSE TRUE
=============================================================================
