------------------------------- MODULE QNoise -------------------------------
(* Depolarising noise of rate p in H-coordinates: the ideal object mixed with the maximally mixed one   *)
(* in proportion p.  For one qubit (Pauli coordinates) the channel is diag(1, 1-p, 1-p, 1-p).            *)
EXTENDS QObjects

DepG(p, n) == [a \in 1..n |-> [b \in 1..n |-> IF a # b THEN RZero ELSE IF a = 1 THEN ROne ELSE RSub(ROne, p)]]
Mix(p, ideal, mixed) == VAdd(VScale(RSub(ROne, p), ideal), VScale(p, mixed))
MixM(p, ideal, mixed) == MatAdd(MatScale(RSub(ROne, p), ideal), MatScale(p, mixed))
\* completely depolarising versions of an object
MixedState(x, d) == MixedH(Len(x), d)                                  \* I / d
MixedEffect(y) == [a \in 1..Len(y) |-> IF a = 1 THEN y[1] ELSE RZero]   \* Tr(E)/d * I
MixedMap(G, d) == [a \in 1..Len(G) |-> IF a = 1 THEN G[1] ELSE VZero(Len(G))]   \* rho |-> Tr(G rho) I / d
\* noisy objects as the library builds them: composition with the depolarising channel
DepState(p, x) == MatVec(DepG(p, Len(x)), x)
DepEffect(p, y) == [b \in 1..Len(y) |-> RMul(DepG(p, Len(y))[b][b], y[b])]      \* Heisenberg picture: y o D
DepMap(p, G) == MatMul(DepG(p, Len(G)), G)
=============================================================================
