"""C18 - Lindbladian generators decompose, recompose and exponentiate correctly.

TLC (MC_C18 over QLind, exact Gaussian rationals): for Hamiltonians x dissipator coefficient matrices
(PSD: diagonal, rank one with complex entries, dense; indefinite) and jump-operator sets with 1..4
elements, the generator assembled from its three parts acts on every matrix unit as the GKSL
right-hand side, annihilates the trace, its dissipator matrix and the traceless Hamiltonian are
recovered by the trace formulas, recomposition reproduces it, the parts sum to the whole, and the
jump-operator form has the Gram matrix of the jump coordinates as dissipator matrix.  Binding: the
library generators (from_h / from_k / from_hk / from_hjk / from jump operators) must have the exact
HS matrix; calc_h/j/k_mat and calc_*_part (both basis modes) the exact matrices / parts; is_tp,
is_cp, is_physical and the constructor the verdicts "first row zero /\\ K >= 0"; the equality
projection zeroes exactly the first row, the inequality projection clips the dissipator spectrum
(also for degenerate spectra in generic frames) and fixes physical generators; to_gate() is physical
over four orders of magnitude of the generation time, expm(0) = identity, to_gate(2L) = to_gate(L)^2."""
import numpy as np

from harness import core, coords, qobjs, spectral
from harness.props.c02 import cmat


def lib_hs_of_super(shape, S):
    """HS matrix (library basis) of the superoperator with row-major computational matrix S."""
    B = spectral.basis_dense(shape)
    d = B[0].shape[0]
    n = len(B)
    hs = np.zeros((n, n), dtype=np.complex128)
    for b in range(n):
        img = (S @ B[b].reshape(-1)).reshape(d, d)
        for a in range(n):
            hs[a, b] = np.trace(B[a].conj().T @ img)
    return hs


def gksl_super(shape, H, Klib):
    """numpy transcription of QLind!Gksl (validated against TLC's exact generators before use)."""
    B = spectral.basis_dense(shape)
    d = B[0].shape[0]
    I = np.eye(d)
    J = -0.5 * sum(Klib[a, b] * (B[b + 1].conj().T @ B[a + 1]) for a in range(len(Klib)) for b in range(len(Klib)))
    S = -1j * (np.kron(H, I) - np.kron(I, H.conj())) + np.kron(J, I) + np.kron(I, J.conj())
    S = S + sum(Klib[a, b] * np.kron(B[a + 1], B[b + 1].conj()) for a in range(len(Klib)) for b in range(len(Klib)))
    return S, J


def close(a, b, tol=1e-9):
    a, b = np.asarray(a), np.asarray(b)
    return a.shape == b.shape and np.allclose(a, b, rtol=0, atol=tol * (1 + np.max(np.abs(b))))


def series_exp(M):
    """exp(M) by scaling and squaring of the Taylor series (independent of scipy's Pade routine and of any eigendecomposition:
    correct for non-diagonalisable matrices too)."""
    M = np.asarray(M, dtype=float)
    nrm = np.max(np.sum(np.abs(M), axis=1)) if M.size else 0.0
    s = max(0, int(np.ceil(np.log2(max(nrm, 1e-300)))) + 4)
    X = M / (2.0 ** s)
    term = np.eye(len(M))
    out = np.eye(len(M))
    for k in range(1, 40):
        term = term @ X / k
        out = out + term
    for _ in range(s):
        out = out @ out
    return out


def run_case(chk, case):
    from quara.objects import effective_lindbladian as EL
    c = qobjs.csys("qubit", 1)
    tag = "%s:%s:%s" % (case["h"], case["k"], case["j"])
    H = cmat(case["H"])
    Klib = 2.0 * cmat(case["K"])                      # sqrt(nu_a nu_b) = 2 for the Pauli basis
    L = cmat(case["L"])
    hs_want = lib_hs_of_super("q", L)
    psd = case["psd"]
    chk.count(1, ("gen", tag))

    def bad(clause, msg):
        chk.violation("%s:%s" % (clause, tag), msg, dict(h=case["h"], k=case["k"], j=case["j"], clause=clause))

    if np.max(np.abs(hs_want.imag)) > 1e-12:
        raise core.MachineryError("exact generator has a complex HS matrix: " + tag)
    hs_want = hs_want.real
    # the harness' numpy transcription agrees with the specification's exact generator
    if case["j"] == "none":
        S, _ = gksl_super("q", H, Klib)
        if not close(S, L, 1e-12):
            raise core.MachineryError("numpy transcription of Gksl disagrees with the specification for " + tag)
    els = {}
    try:
        if case["j"] != "none":
            els["from_jump_operators"] = EL.generate_effective_lindbladian_from_jump_operators(c, [cmat(j) for j in case["jumps"]])
        else:
            els["from_hk"] = EL.generate_effective_lindbladian_from_hk(c, H.copy(), Klib.copy(), is_physicality_required=False)
            els["from_hjk"] = EL.generate_effective_lindbladian_from_hjk(c, H.copy(), cmat(case["jmat"]), Klib.copy(), is_physicality_required=False)
            if case["k"] == "zero":
                els["from_h"] = EL.generate_effective_lindbladian_from_h(c, H.copy(), is_physicality_required=False)
            if case["h"] == "zero":
                els["from_k"] = EL.generate_effective_lindbladian_from_k(c, Klib.copy(), is_physicality_required=False)
    except Exception as e:
        bad("generate:exception", "%r" % e)
        return
    for name, el in els.items():
        if not close(el.hs, hs_want):
            bad("generate:%s" % name, "HS matrix of the generated Lindbladian differs from the GKSL generator (max dev %.3g)" % float(np.max(np.abs(el.hs - hs_want))))
    el = list(els.values())[0]
    # extracted matrices
    try:
        if not close(el.calc_h_mat(), cmat(case["hmat"])):
            bad("calc_h_mat", "Hamiltonian matrix differs from the traceless part of H")
        if not close(el.calc_k_mat(), 2.0 * cmat(case["kmat"])):
            bad("calc_k_mat", "dissipator matrix differs")
        if not close(el.calc_j_mat(), cmat(case["jmat"])):
            bad("calc_j_mat", "anti-commutator matrix J differs from -1/2 sum K_ab B_b^dagger B_a (max dev %.3g)" % float(np.max(np.abs(el.calc_j_mat() - cmat(case["jmat"])))))
        # parts, both bases; they sum to the whole
        hp, kp = cmat(case["hpart"]), cmat(case["kpart"])
        jp = L - hp - kp
        for part, want in (("h", hp), ("j", jp), ("k", kp)):
            got = getattr(el, "calc_%s_part" % part)(mode_basis="comp_basis")
            if not close(got, want):
                bad("calc_%s_part:comp_basis" % part, "%s part (computational basis) differs from the exact part" % part)
            got = getattr(el, "calc_%s_part" % part)(mode_basis="hermitian_basis")
            if not close(got, lib_hs_of_super("q", want).real, 1e-9):
                bad("calc_%s_part:hermitian_basis" % part, "%s part (Hermitian basis) differs from the exact part" % part)
        for mode in ("comp_basis", "hermitian_basis"):
            tot = el.calc_h_part(mode) + el.calc_j_part(mode) + el.calc_k_part(mode)
            want = L if mode == "comp_basis" else hs_want
            if not close(tot, want):
                bad("parts_sum:%s" % mode, "h + j + k parts do not sum to the generator")
        dp = el.calc_d_part("comp_basis")
        if not close(dp, jp + kp):
            bad("calc_d_part", "dissipator part is not j part + k part")
    except Exception as e:
        bad("parts:exception", "%r" % e)
    # verdicts
    try:
        if not el.is_tp(1e-10):
            bad("is_tp", "a GKSL generator is judged not trace preserving")
        if bool(el.is_cp(1e-10)) != psd or bool(el.is_physical(1e-10, 1e-10)) != psd:
            bad("is_cp", "is_cp=%s / is_physical=%s, dissipator matrix PSD: %s" % (el.is_cp(1e-10), el.is_physical(1e-10, 1e-10), psd))
        if case["j"] == "none":
            try:
                EL.generate_effective_lindbladian_from_hk(c, H.copy(), Klib.copy(), is_physicality_required=True)
                made = True
            except ValueError:
                made = False
            if made != psd:
                bad("construct", "construction with physicality required %s, dissipator matrix PSD: %s" % (made, psd))
        # ... and ONLY then: one non-zero entry anywhere in the first row (the (0, 0) entry - a uniform loss of trace - included)
        # makes the generator non trace preserving, hence unphysical and refused by the constructor
        for b_ in range(el.hs.shape[0]):
            for delta, expect_tp in ((1e-6, False), (-3e-4, False), (1e-13, True)):
                hs_b = el.hs.copy()
                hs_b[0, b_] += delta
                eb = EL.EffectiveLindbladian(c, hs_b, is_physicality_required=False)
                # the decomposition does not presuppose trace preservation: the Hamiltonian, anti-commutator and dissipator parts
                # of ANY generator sum to it, in both bases, and the dissipator part is j part + k part
                for mode in ("comp_basis", "hermitian_basis"):
                    tot_b = eb.calc_h_part(mode) + eb.calc_j_part(mode) + eb.calc_k_part(mode)
                    whole = eb.hs if mode == "hermitian_basis" else None
                    if whole is None:
                        from quara.objects.gate import convert_hs
                        whole = convert_hs(eb.hs, c.basis(), c.comp_basis())
                    if not close(tot_b, whole, 1e-9) or not close(eb.calc_d_part(mode), eb.calc_j_part(mode) + eb.calc_k_part(mode), 1e-9):
                        bad("parts_sum:non_tp:%s" % mode, "first-row entry (0, %d) changed by %g: h + j + k parts do not sum to the generator (max dev %.3g)" % (
                            b_, delta, float(np.max(np.abs(tot_b - whole)))))
                        break
                if bool(eb.is_tp(1e-10)) != expect_tp or bool(eb.is_eq_constraint_satisfied(1e-10)) != expect_tp or (not expect_tp and eb.is_physical(1e-10, 1e-10)):
                    bad("is_tp:first_row_entry", "first-row entry (0, %d) changed by %g: is_tp=%s, is_physical=%s; by definition trace preserving: %s" % (
                        b_, delta, eb.is_tp(1e-10), eb.is_physical(1e-10, 1e-10), expect_tp))
                    break
                if not expect_tp and psd:
                    try:
                        EL.EffectiveLindbladian(c, hs_b.copy(), is_physicality_required=True)
                        bad("construct:first_row_entry", "a generator with first-row entry (0, %d) = %g is accepted with physicality required" % (b_, delta))
                        break
                    except ValueError:
                        pass
        # equality projection: zero exactly the first row
        pert = el.hs.copy()
        pert[0, :] += np.array([0.3, -0.2, 0.1, 0.05])
        pe = EL.EffectiveLindbladian(c, pert, is_physicality_required=False).calc_proj_eq_constraint()
        if not close(pe.hs, el.hs, 1e-12):
            bad("proj_eq", "the equality projection does not zero exactly the first row")
        # inequality projection: clips the dissipator spectrum; physical generators unchanged
        pi = el.calc_proj_ineq_constraint()
        w, V = np.linalg.eigh(2.0 * cmat(case["kmat"]))      # total dissipator matrix (jump operators included)
        Kclip = (V * np.clip(w, 0, None)) @ V.conj().T
        # the property asks for a physical dissipator (and a fixed point on physical generators); the model's
        # ClipK is the nearest positive semidefinite matrix.  The anti-commutator matrix of the result is the
        # library's business (it keeps the original J), so only K and H are compared.
        if not close(pi.calc_k_mat(), Kclip, 1e-8):
            bad("proj_ineq", "dissipator matrix after the inequality projection differs from the clipped spectrum (max dev %.3g)" % float(np.max(np.abs(pi.calc_k_mat() - Kclip))))
        if not close(pi.calc_h_mat(), el.calc_h_mat(), 1e-8):
            bad("proj_ineq:h", "the inequality projection changes the Hamiltonian")
        if psd and not close(pi.hs, el.hs, 1e-8):
            bad("proj_ineq:fixed_point", "a physical generator is changed by the inequality projection")
        if not pi.is_cp(1e-8):
            bad("proj_ineq:unphysical", "result of the inequality projection has an indefinite dissipator matrix")
    except Exception as e:
        bad("verdicts:exception", "%r" % e)
    # exponentiation of physical generators
    if psd:
        try:
            for tscale in (1e-3, 1e-1, 1.0, 10.0):
                et = EL.EffectiveLindbladian(c, tscale * hs_want, is_physicality_required=False)
                g = et.to_gate()
                if not g.is_physical(1e-9, 1e-9):
                    bad("to_gate:unphysical", "exp(t L) is not physical for t=%g" % tscale)
                if not close(g.hs, series_exp(tscale * hs_want), 1e-9):
                    bad("to_gate:value", "to_gate() differs from the exponential series of t L for t=%g" % tscale)
                g2 = EL.EffectiveLindbladian(c, 2 * tscale * hs_want, is_physicality_required=False).to_gate()
                if not close(g2.hs, g.hs @ g.hs, 1e-9):
                    bad("to_gate:semigroup", "to_gate(2 t L) != to_gate(t L)^2 for t=%g" % tscale)
            z = EL.EffectiveLindbladian(c, 0.0 * hs_want, is_physicality_required=False).to_gate()
            if not close(z.hs, np.eye(4), 1e-12):
                bad("to_gate:zero", "exp(0) is not the identity gate")
        except Exception as e:
            bad("to_gate:exception", "%r" % e)


def degenerate_frames(chk, rs):
    """inequality projection for degenerate dissipator spectra in generic (complex) eigenframes."""
    from quara.objects import effective_lindbladian as EL
    c = qobjs.csys("qubit", 1)
    for k in ((0.3, 0.3, -0.2), (0.5, -0.1, -0.1), (0.2, 0.2, 0.2), (0.4, 0.0, -0.3)):
        for fk in ("identity", "real", "complex"):
            V = spectral.frame(fk, 3, rs)
            K = (V * np.array(k)) @ V.conj().T
            H = np.array([[0.2, 0.1 - 0.05j], [0.1 + 0.05j, -0.2]])
            chk.count(1, ("degenerate", k, fk))
            try:
                el = EL.generate_effective_lindbladian_from_hk(c, H, K, is_physicality_required=False)
                pi = el.calc_proj_ineq_constraint()
                Kclip = (V * np.clip(k, 0, None)) @ V.conj().T
                dev = float(np.max(np.abs(pi.calc_k_mat() - Kclip)))
                if dev > 1e-8:
                    chk.violation("proj_ineq:degenerate:%s" % fk, "dissipator spectrum %s in a %s frame: projected dissipator differs from the clipped one (max dev %.3g)" % (k, fk, dev),
                                  dict(k=k, frame=fk))
                if not pi.is_cp(1e-8):
                    chk.violation("proj_ineq:degenerate:unphysical:%s" % fk, "dissipator spectrum %s in a %s frame: projected dissipator is not positive semidefinite" % (k, fk), dict(k=k, frame=fk))
                if min(k) >= 0 and not close(pi.hs, el.hs, 1e-8):
                    chk.violation("proj_ineq:degenerate:fixed_point:%s" % fk, "physical generator with spectrum %s changed by the projection" % (k,), dict(k=k, frame=fk))
                if bool(el.is_cp(1e-10)) != (min(k) >= 0):
                    chk.violation("is_cp:frame:%s" % fk, "CP verdict wrong for spectrum %s" % (k,), dict(k=k, frame=fk))
            except Exception as e:
                chk.violation("proj_ineq:degenerate:exception:%s" % fk, "%r" % e, dict(k=k, frame=fk))


def other_systems(chk, rs):
    """qutrit and two qubits: GKSL action on states, decomposition / recomposition, trace annihilation (relational)."""
    from quara.objects import effective_lindbladian as EL
    for shape in ("t", "qq"):
        c = spectral.csys_of(shape)
        d = c.dim
        n = d * d - 1
        for trial in range(2 if chk.tier == "quick" else 8):
            A = rs.randn(d, d) + 1j * rs.randn(d, d)
            H = (A + A.conj().T) / 2
            Bm = rs.randn(n, n) + 1j * rs.randn(n, n)
            K = Bm @ Bm.conj().T / n
            chk.count(1, ("other", shape, trial))
            try:
                el = EL.generate_effective_lindbladian_from_hk(c, H, K)
                S, J = gksl_super(shape, H, K)
                want = lib_hs_of_super(shape, S)
                if np.max(np.abs(want.imag)) > 1e-9 or not close(el.hs, want.real, 1e-8):
                    chk.violation("generate:from_hk:%s" % shape, "HS matrix differs from the GKSL generator", dict(shape=shape))
                if not close(el.calc_k_mat(), K, 1e-8) or not close(el.calc_j_mat(), J, 1e-8):
                    chk.violation("calc_mats:%s" % shape, "extracted J / K matrices differ", dict(shape=shape))
                Ht = H - np.trace(H) / d * np.eye(d)
                if not close(el.calc_h_mat(), Ht, 1e-8):
                    chk.violation("calc_h_mat:%s" % shape, "extracted Hamiltonian differs from the traceless part", dict(shape=shape))
                re = EL.generate_effective_lindbladian_from_hjk(c, el.calc_h_mat(), el.calc_j_mat(), el.calc_k_mat())
                if not close(re.hs, el.hs, 1e-8):
                    chk.violation("recompose:%s" % shape, "rebuilding from the extracted matrices does not reproduce the generator", dict(shape=shape))
                if not el.is_physical(1e-9, 1e-9) or not el.to_gate().is_physical(1e-8, 1e-8):
                    chk.violation("physical:%s" % shape, "physical generator / its exponential judged non-physical", dict(shape=shape))
            except Exception as e:
                chk.violation("other:exception:%s" % shape, "%r" % e, dict(shape=shape))


def exceptional_points(chk):
    """generators that are NOT diagonalisable (Jordan blocks: critical damping of a driven qubit, equal-rate ladder decay of a
    qutrit, and the same with a detuning): physical generators whose exponential must be physical and equal to the series."""
    from quara.objects import effective_lindbladian as EL
    X = np.array([[0, 1], [1, 0]], dtype=complex)
    Z = np.array([[1, 0], [0, -1]], dtype=complex)

    def super_of(H, jumps):
        d = len(H)
        I = np.eye(d)
        S = -1j * (np.kron(H, I) - np.kron(I, H.conj()))
        for cj in jumps:
            n = cj.conj().T @ cj
            S = S + np.kron(cj, cj.conj()) - 0.5 * np.kron(n, I) - 0.5 * np.kron(I, n.T)
        return S
    e = lambda d, i, j: np.eye(d, dtype=complex)[:, [i]] @ np.eye(d, dtype=complex)[[j], :]
    cases = []
    for om in (1.0, 0.1, 0.5):
        cases.append(("q", "critical_damping:%g" % om, om * X / 2, [np.sqrt(om) * Z]))
    for rate in (1.0, 0.25):
        cases.append(("t", "ladder:%g" % rate, np.zeros((3, 3), dtype=complex), [np.sqrt(rate) * e(3, 0, 1), np.sqrt(rate) * e(3, 1, 2)]))
        cases.append(("t", "ladder_detuned:%g" % rate, np.diag([0.0, 0.3, 0.6]).astype(complex), [np.sqrt(rate) * e(3, 0, 1), np.sqrt(rate) * e(3, 1, 2)]))
    for shape, name, H, jumps in cases:
        c = spectral.csys_of(shape)
        chk.count(1, ("exceptional", name))
        ctx = dict(shape=shape, case=name)
        hs = lib_hs_of_super(shape, super_of(H, jumps))
        if np.max(np.abs(hs.imag)) > 1e-12:
            raise core.MachineryError("GKSL generator with complex HS matrix")
        hs = hs.real
        try:
            el = EL.EffectiveLindbladian(c, hs.copy(), is_physicality_required=False)
            if not el.is_physical(1e-9, 1e-9):
                chk.violation("exceptional:physical:%s" % name, "a GKSL generator is judged non-physical", ctx)
            for t in (1.0, 0.1, 3.0):
                g = EL.EffectiveLindbladian(c, t * hs, is_physicality_required=False).to_gate()
                want = series_exp(t * hs)
                if not close(g.hs, want, 1e-9):
                    chk.violation("exceptional:to_gate:value:%s" % name, "to_gate() of the non-diagonalisable generator differs from the exponential series "
                                  "(t=%g, max dev %.3g)" % (t, float(np.max(np.abs(np.asarray(g.hs) - want)))), ctx)
                    break
                if not g.is_physical(1e-8, 1e-8):
                    chk.violation("exceptional:to_gate:unphysical:%s" % name, "exp(t L) of a physical generator is not physical (t=%g)" % t, ctx)
                    break
        except Exception as ex:
            chk.violation("exceptional:exception:%s" % name, "%r" % ex, ctx)


def run(chk):
    rs = np.random.RandomState(chk.seed % (2 ** 31))
    t = chk.tier
    r = chk.tlc("mc/MC_C18", "mc/MC_C18_%s.cfg" % t, workers=16, label="MC_C18 " + t)
    for i, case in enumerate(r.emitted):
        run_case(chk, case)
        chk.replayed += 1
        if i in (2, 15):
            chk.sample(dict(h=case["h"], k=case["k"], j=case["j"], K=case["K"], L_row0=case["L"][0]))
    degenerate_frames(chk, rs)
    other_systems(chk, rs)
    exceptional_points(chk)
    chk.assumptions += [
        "exact generators for one qubit (rational H, K, jump operators); qutrit and two qubits through seeded generic (H, K) against the numpy transcription of QLind!Gksl, which is itself validated against TLC's exact generators",
        "the matrix exponential is not computed in the specification: physicality, exp(0) = identity, the semigroup law, and agreement with an independent scaling-and-squaring Taylor series (also at non-diagonalisable generators)",
    ]
    return chk.finish(exhaustive=True, rule="every (H, K, jump set) emitted by TLC; degenerate spectra x frames; seeded generators on larger systems; distinct = generators")
