"""QSAMPLE - sampling mode of a measurement process (spec/QSample.tla).

Not one of the listed properties (growth of the specification, DESIGN.md 9.7).  The model records which random stream
every draw of `compose_qoperations(mprocess in sampling mode, state | ensemble)` consumes.  TLC proves SeedDetermines for
the variant that draws from the stream given to `set_mode_sampling(True, seed)` and REFUTES it for the as-coded variant
(draws from the process-wide global stream); every schedule of the as-coded variant (SetMode / Clear / unrelated global
draw / Apply to a state / Apply to a two-member ensemble, length 5) is replayed on a real MProcess and after every step
the movement of both streams is compared with the model, together with the type and support of what is returned.
The implementation conforms to the as-coded variant, so the seed of set_mode_sampling has no effect: printed as
OBSERVATION (it violates none of the twenty listed properties).  Evidence: /verif/extra/evidence/QSAMPLE.json."""
import os
import pickle

import numpy as np

from harness import core, qobjs
from harness.props.c15 import expect_refuted


def gstate():
    return pickle.dumps(np.random.get_state())


def run(chk):
    from quara.objects.operators import compose_qoperations
    from quara.objects.state import State
    from quara.objects.state_ensemble import StateEnsemble
    if not os.environ.get("VERIF_OUT"):
        chk._out = os.path.join(core.VERIF, "extra")
        chk._replay_dir = os.path.join(chk._out, "replays")
    chk.tlc("mc/MC_QSample", "mc/MC_QSample_own.cfg", workers=8, label="MC_QSample own stream")
    expect_refuted(chk, "mc/MC_QSample", "mc/MC_QSample_ascoded.cfg", ("SeedDetermines",), "MC_QSample as coded")
    c = qobjs.csys("qubit", 1)
    state = qobjs.gen("state", "a", c)
    plain = qobjs.gen("mprocess", "x-type1", c)
    ens2 = compose_qoperations(plain, state)                      # a two-member ensemble, both members likely
    # which as-coded variant applies here: does the member-wise draw on an ensemble work with the installed scipy?
    probe = qobjs.gen("mprocess", "z-type1", c)
    probe.set_mode_sampling(True, 1)
    try:
        compose_qoperations(probe, ens2)
        ens_fails = False
    except ValueError:
        ens_fails = True
    chk.notes["ensemble_sampling_fails"] = ens_fails
    r = chk.tlc("mc/MC_QSample", "mc/MC_QSample_emit.cfg" if ens_fails else "mc/MC_QSample_emit_ensok.cfg", workers=1, label="MC_QSample emit (as coded)")
    branches = [s.vec for s in compose_qoperations(qobjs.gen("mprocess", "z-type1", c), state).states]
    seed_matters = 0
    global_matters = 0
    scheds = r.emitted if chk.tier == "thorough" else r.emitted[::7]
    for n, case in enumerate(scheds):
        sched = case["sched"]
        tag = ",".join(a["a"] + (str(a.get("k", a.get("seed", ""))) if a["a"] in ("Apply", "SetMode") else "") for a in sched)
        chk.count(1, ("sched", tag))
        ctx = dict(sched=sched)
        outs = {}
        for g0 in (101, 202):
            np.random.seed(g0)
            m = qobjs.gen("mprocess", "z-type1", c)
            sampling = False
            picked = []
            ok = True
            for i, a in enumerate(sched):
                before_g = gstate()
                before_o = pickle.dumps(m.random_state.bit_generator.state) if m.random_state is not None else None
                expect_fail = a["a"] == "Apply" and sampling and a["k"] > 1 and ens_fails
                try:
                    if a["a"] == "SetMode":
                        m.set_mode_sampling(True, int(a["seed"]))
                        sampling = True
                    elif a["a"] == "Clear":
                        m.set_mode_sampling(False)
                        sampling = False
                    elif a["a"] == "Global":
                        np.random.random()
                    else:
                        res = compose_qoperations(m, state if a["k"] == 1 else ens2)
                    if expect_fail:
                        chk.violation("ensemble_sampling", "step %d of [%s]: the model (as coded) says the member-wise draw raises, it returned" % (i, tag), ctx)
                        ok = False
                        break
                except Exception as e:
                    if expect_fail and isinstance(e, ValueError) and gstate() == before_g:
                        continue          # as the model says: raised before anything was drawn
                    chk.violation("exception:%s" % a["a"], "step %d of [%s]: %r" % (i, tag, e), ctx)
                    ok = False
                    break
                moved_g = gstate() != before_g
                moved_o = (m.random_state is not None and before_o is not None and a["a"] == "Apply"
                           and pickle.dumps(m.random_state.bit_generator.state) != before_o)
                if a["a"] == "Apply":
                    # the as-coded model: a draw moves the global stream and never the object's own stream
                    if moved_g != sampling or moved_o:
                        chk.violation("stream:%s" % ("sampling" if sampling else "plain"),
                                      "step %d of [%s]: global stream moved=%s, own stream moved=%s; the as-coded model says %s / False" % (i, tag, moved_g, moved_o, sampling), ctx)
                        ok = False
                        break
                    if sampling:
                        members = [res] if a["k"] == 1 else list(res.states)
                        if (a["k"] == 1 and not isinstance(res, State)) or (a["k"] == 2 and not (isinstance(res, StateEnsemble) and len(members) == 2)):
                            chk.violation("result_type", "step %d of [%s]: sampling mode returned %s" % (i, tag, type(res).__name__), ctx)
                            ok = False
                            break
                        for s in members:
                            idx = [j for j, b in enumerate(branches) if np.allclose(s.vec, b, atol=1e-12)]
                            if not idx:
                                chk.violation("support", "step %d of [%s]: the sampled state is not a post-measurement state of the process" % (i, tag), ctx)
                                ok = False
                                break
                            picked.append(idx[0])
                    elif not isinstance(res, StateEnsemble):
                        chk.violation("result_type", "step %d of [%s]: without sampling a %s is returned" % (i, tag, type(res).__name__), ctx)
                        ok = False
                        break
                elif a["a"] in ("SetMode", "Clear") and moved_g:
                    chk.violation("stream:setmode", "step %d of [%s]: %s consumed the global stream" % (i, tag, a["a"]), ctx)
                    ok = False
                    break
            if not ok:
                break
            outs[g0] = picked
        if len(outs) == 2:
            chk.replayed += 1
            if len(case["hist"]) >= 3 and outs[101] != outs[202]:
                global_matters += 1
        if n == 5:
            chk.sample(dict(sched=sched, hist=case["hist"]))
    # the same seeded object, the same calls, another seed: are the branches different at all?
    for seed_pair in ((7, 11), (1, 2), (3, 4)):
        seqs = []
        for sd in seed_pair:
            np.random.seed(55)
            m = qobjs.gen("mprocess", "z-type1", c)
            m.set_mode_sampling(True, sd)
            seqs.append([tuple(np.round(compose_qoperations(m, state).vec, 9)) for _ in range(12)])
        if seqs[0] != seqs[1]:
            seed_matters += 1
    chk.notes["schedules_with_branches_depending_on_the_global_seed"] = global_matters
    chk.notes["seed_pairs_giving_different_branches"] = seed_matters
    if global_matters and not seed_matters:
        print("OBSERVATION: check=QSAMPLE the branches sampled by a measurement process in sampling mode follow the global random state "
              "(%d replayed schedules give other branches under another global seed) and not the seed given to set_mode_sampling "
              "(3 seed pairs, identical branches): operators.py calls multinomial.rvs without random_state. Outside the twenty listed properties; not repaired."
              % global_matters)
    if ens_fails:
        print("OBSERVATION: check=QSAMPLE a measurement process in sampling mode cannot be applied to an ensemble with more than one member: "
              "the member-wise draw passes probabilities that sum to the member's weight and multinomial.rvs of the installed scipy rejects them (ValueError). "
              "Outside the twenty listed properties; not repaired.")
    chk.assumptions += ["one qubit, projective z process on a state with both outcomes likely; stream movement observed through the generator states",
                        "the binding target is the AS-CODED variant of the model; the variant that honours the seed is model-checked only"]
    return chk.finish(exhaustive=(chk.tier == "thorough"), rule="every 7th (quick) / every (thorough) schedule of length 5 of the as-coded model; distinct = schedules")
