"""C07 - tensor products and embeddings respect subsystem structure.

TLC (MC_C07 over QIndex): for 2..3 (4 thorough) subsystems with dimensions in {2,3}, EVERY order of
the arguments and EVERY grouping of the pairwise products, folding the tree with the pairwise merge
of one-hot objects lands at the canonical Kronecker index (names ascending, row-major radices d^2);
the canonical index map is a bijection.  Binding: for every emitted configuration the factors are
real objects on single named subsystems filled with seeded generic entries (any layout error moves a
value), the tree is evaluated through pairwise tensor_product calls (and the n-ary call), and every
entry of the result must be the product of the factor entries the canonical layout names - for
states, POVMs (outcome layout by ascending name), gates, measurement processes (outcome layout as the
reported shape says), mixed gate / measurement-process products, state ensembles and matrix bases.
Product statistics and the qutrit -> two-qubit embedding are checked on the physical catalogue."""
import itertools
import random

import numpy as np

from harness import core, coords, qobjs


HS_MAX = 64


def esys(name, d):
    from quara.objects.elemental_system import ElementalSystem
    from quara.objects.matrix_basis import get_normalized_pauli_basis, get_normalized_gell_mann_basis
    return ElementalSystem(name, get_normalized_pauli_basis() if d == 2 else get_normalized_gell_mann_basis())


def csys1(name, d):
    from quara.objects.composite_system import CompositeSystem
    return CompositeSystem([esys(name, d)])


def make_factors(kind, names, dims, outcomes, rs):
    from quara.objects.state import State
    from quara.objects.povm import Povm
    from quara.objects.gate import Gate
    from quara.objects.mprocess import MProcess
    from quara.objects.state_ensemble import StateEnsemble
    from quara.objects.multinomial_distribution import MultinomialDistribution
    objs, data = {}, {}
    for rank, (s, d, m) in enumerate(zip(names, dims, outcomes)):
        c = csys1(s, d)
        n = d * d
        k = kind
        if kind == "mixed":
            k = "gate" if rank % 2 == 0 else "mprocess"
        if kind == "mixed2":
            # one gate and several measurement processes: a product of measurement processes (multi-axis shape) meets a gate
            k = "gate" if rank == 0 else "mprocess"
        if k == "state":
            v = np.round(rs.uniform(0.5, 2.0, n), 3)
            objs[s] = State(c, v, is_physicality_required=False)
            data[s] = ("state", v)
        elif k == "povm":
            vs = [np.round(rs.uniform(0.5, 2.0, n), 3) for _ in range(m)]
            objs[s] = Povm(c, vs, is_physicality_required=False)
            data[s] = ("povm", vs)
        elif k == "gate":
            h = np.round(rs.uniform(0.5, 2.0, (n, n)), 3)
            objs[s] = Gate(c, h, is_physicality_required=False)
            data[s] = ("gate", h)
        elif k == "mprocess":
            hs = [np.round(rs.uniform(0.5, 2.0, (n, n)), 3) for _ in range(m)]
            objs[s] = MProcess(c, hs, is_physicality_required=False)
            data[s] = ("mprocess", hs)
        elif k == "ensemble":
            sts = [np.round(rs.uniform(0.5, 2.0, n), 3) for _ in range(m)]
            ps = np.arange(1, m + 1, dtype=float)
            ps = ps / ps.sum()
            objs[s] = StateEnsemble([State(c, v, is_physicality_required=False) for v in sts], MultinomialDistribution(ps.copy()))
            data[s] = ("ensemble", sts, ps)
    return objs, data


def eval_tree(tree, order, objs):
    from quara.objects.operators import tensor_product
    if len(tree) == 1:
        return objs[order[tree[0] - 1]]
    return tensor_product(eval_tree(tree[0], order, objs), eval_tree(tree[1], order, objs))


def expected_coeff(names, dims, vecs):
    """Kronecker product of per-subsystem vectors in ascending-name order (canonical layout)."""
    out = np.array([1.0])
    for s in names:
        out = np.kron(out, vecs[s])
    return out


def expected_hs(names, dims, mats):
    # HS of a product map in the product basis (ascending names): entries hs[(a_1..a_n),(b_1..b_n)] = prod hs_s[a_s][b_s]
    out = np.array([[1.0]])
    for s in names:
        out = np.kron(out, mats[s])
    return out


def check_layout_formula(case):
    """The harness' vectorised canonical layout (np.kron in ascending-name order) must be the specification's:
    compare on the index samples printed by TLC."""
    dims = case["dims"]
    radices = [d * d for d in dims]
    for smp in case["samples"]:
        if int(np.ravel_multi_index(smp["digits"], radices)) != smp["index"]:
            raise core.MachineryError("harness layout formula disagrees with the specification: %r" % smp)


def replay(chk, case, rs):
    names, dims, outcomes = case["names"], case["dims"], case["outcomes"]
    order, tree = case["order"], case["tree"]
    check_layout_formula(case)
    n = len(names)
    cfg = "n%d:d%s:order%s:tree%s" % (n, "".join(map(str, dims)), "".join(str(names.index(o)) for o in order), str(tree).replace(" ", ""))
    short = "n%d:%s" % (n, "sorted" if list(order) == list(names) else "unsorted")
    for kind in ("state", "povm", "gate", "mprocess", "mixed", "mixed2", "ensemble"):
        if kind == "mixed2" and n < 3:
            continue
        if kind in ("gate", "mprocess", "mixed", "mixed2") and int(np.prod([d * d for d in dims])) > HS_MAX:
            continue      # the library's HS tensor product builds a dense (D^2 x D^2) vec-permutation matrix: D <= 64 only
        if kind == "ensemble" and (n > 2 and int(np.prod([d * d for d in dims])) > 64):
            continue      # one composite system per pair of member states: small systems only
        objs, data = make_factors(kind, names, dims, outcomes, rs)

        def bad(clause, msg):
            chk.violation("%s:%s:%s" % (kind, clause, short), "%s [%s]" % (msg, cfg), dict(case={k: case[k] for k in ("names", "dims", "outcomes", "order", "tree")}, kind=kind))
        chk.count(1, (kind, cfg))
        try:
            res = eval_tree(tree, order, objs)
        except Exception as e:
            bad("exception", "tensor_product raised %r" % e)
            continue
        got_names = [e.name for e in res.composite_system.elemental_systems] if kind != "ensemble" else \
            [e.name for e in res.states[0].composite_system.elemental_systems]
        if got_names != list(names):
            bad("system_order", "composite system order %s, expected ascending %s" % (got_names, names))
            continue
        if kind == "state":
            want = expected_coeff(names, dims, {s: data[s][1] for s in names})
            if not coords.close(res.vec, want, 1e-12):
                bad("layout", "product state entries are not at the canonical Kronecker positions")
        elif kind == "povm":
            shape = list(res.nums_local_outcomes)
            if shape != list(outcomes):
                bad("shape", "nums_local_outcomes %s, expected outcome counts by ascending name %s" % (shape, outcomes))
                continue
            ok = len(res.vecs) == int(np.prod(outcomes))
            for ser, xs in enumerate(itertools.product(*[range(m) for m in outcomes])):
                if not ok:
                    break
                want = expected_coeff(names, dims, {s: data[s][1][x] for s, x in zip(names, xs)})
                ok = coords.close(res.vecs[ser], want, 1e-12)
            if not ok:
                bad("layout", "product POVM elements are not laid out as nums_local_outcomes says")
        elif kind == "gate":
            want = expected_hs(names, dims, {s: data[s][1] for s in names})
            if not coords.close(res.hs, want, 1e-12):
                bad("layout", "HS matrix of the product gate is not the canonical Kronecker arrangement")
        elif kind in ("mprocess", "mixed", "mixed2"):
            meas = [(s, m) for s, m in zip(names, outcomes) if data[s][0] == "mprocess"]
            shape = list(res.shape)
            counts = [m for _, m in meas]
            if sorted(shape) != sorted(counts):
                bad("shape", "reported shape %s is not a rearrangement of the factors' outcome counts %s" % (shape, counts))
                continue
            axis_names = [dict((m, s) for s, m in meas)[m] for m in shape]     # outcome counts are pairwise different
            ok = len(res.hss) == int(np.prod(shape))
            for ser, xs in enumerate(itertools.product(*[range(m) for m in shape])):
                if not ok:
                    break
                sel = dict(zip(axis_names, xs))
                mats = {s: (data[s][1][sel[s]] if data[s][0] == "mprocess" else data[s][1]) for s in names}
                ok = coords.close(res.hss[ser], expected_hs(names, dims, mats), 1e-12)
            if not ok:
                bad("layout", "outcomes of the product measurement process are not laid out as the reported shape %s says" % (shape,))
        elif kind == "ensemble":
            shape = list(res.prob_dist.shape)
            counts = list(outcomes)
            if sorted(shape) != sorted(counts):
                bad("shape", "ensemble shape %s vs outcome counts %s" % (shape, counts))
                continue
            axis_names = [dict((m, s) for s, m in zip(names, outcomes))[m] for m in shape]
            ok = True
            for ser, xs in enumerate(itertools.product(*[range(m) for m in shape])):
                sel = dict(zip(axis_names, xs))
                want = expected_coeff(names, dims, {s: data[s][1][sel[s]] for s in names})
                pw = float(np.prod([data[s][2][sel[s]] for s in names]))
                if not coords.close(res.states[ser].vec, want, 1e-12) or abs(res.prob_dist.ps[ser] - pw) > 1e-12:
                    ok = False
                    break
            if not ok:
                bad("layout", "product ensemble states / probabilities are not laid out as its shape says")
    # n-ary call = left fold in the order given
    try:
        from quara.objects.operators import tensor_product
        objs, data = make_factors("state", names, dims, outcomes, rs)
        res = tensor_product(*[objs[s] for s in order])
        want = expected_coeff(names, dims, {s: data[s][1] for s in names})
        if not coords.close(res.vec, want, 1e-12):
            chk.violation("state:nary:%s" % short, "tensor_product(*factors) is not the canonical Kronecker arrangement [%s]" % cfg, dict(case=cfg))
    except Exception as e:
        chk.violation("state:nary:exception:%s" % short, "%r [%s]" % (e, cfg), dict(case=cfg))


def basis_products(chk):
    from quara.objects.matrix_basis import get_normalized_pauli_basis, get_normalized_gell_mann_basis
    from quara.objects.operators import tensor_product
    for b1, b2 in itertools.product((get_normalized_pauli_basis(), get_normalized_gell_mann_basis()), repeat=2):
        res = tensor_product(b1, b2)
        n2 = len(b2.basis)
        ok = len(res.basis) == len(b1.basis) * n2
        for k in range(len(res.basis) if ok else 0):
            m = res.basis[k]
            m = m.toarray() if hasattr(m, "toarray") else np.asarray(m)
            if not np.allclose(m, np.kron(np.asarray(b1.basis[k // n2]), np.asarray(b2.basis[k % n2])), atol=1e-14):
                ok = False
                break
        chk.count(1, ("basis", len(b1.basis), n2))
        if not ok:
            chk.violation("basis:layout", "tensor product of matrix bases is not the row-major list of Kronecker products", dict(n1=len(b1.basis), n2=n2))


def product_statistics(chk):
    """Product state / gate / measurement statistics on the physical catalogue (qubit x qubit, qubit x qutrit)."""
    from quara.objects.operators import tensor_product, compose_qoperations
    from quara.objects.composite_system import CompositeSystem
    from quara.objects.qoperation_typical import generate_qoperation
    combos = [((7, "qubit"), (3, "qubit")), ((2, "qubit"), (9, "qutrit")), ((8, "qutrit"), (4, "qubit"))]
    for (na, ma), (nb, mb) in combos:
        ca = qobjs.csys(ma, 1, (na,))
        cb = qobjs.csys(mb, 1, (nb,))
        sa = generate_qoperation("state", "a" if ma == "qubit" else "01y0", ca)
        sb = generate_qoperation("state", "y0" if mb == "qubit" else "02x1", cb)
        ga = generate_qoperation("gate", "x90" if ma == "qubit" else "01x90", ca)
        gb = generate_qoperation("gate", "hadamard" if mb == "qubit" else "12y90", cb)
        pa = generate_qoperation("povm", "x" if ma == "qubit" else "01x3", ca)
        pb = generate_qoperation("povm", "z" if mb == "qubit" else "02y3", cb)
        ma_ = generate_qoperation("mprocess", "x-type1" if ma == "qubit" else "z3-type1", ca)
        mb_ = generate_qoperation("mprocess", "z-type1" if mb == "qubit" else "z2-type1", cb)
        first_is_a = na < nb
        tag = "%s%dx%s%d" % (ma, na, mb, nb)
        chk.count(1, ("stats", tag))
        try:
            da = np.asarray(compose_qoperations(pa, ga, sa).ps)
            db = np.asarray(compose_qoperations(pb, gb, sb).ps)
            want = np.outer(da, db) if first_is_a else np.outer(db, da)
            for (x, y) in ((0, 1), (1, 0)):
                fs = [sa, sb] if x == 0 else [sb, sa]
                fg = [ga, gb] if y == 0 else [gb, ga]
                fp = [pa, pb] if x == 0 else [pb, pa]
                sab, gab, pab = tensor_product(*fs), tensor_product(*fg), tensor_product(*fp)
                dist = compose_qoperations(pab, gab, sab)
                if tuple(pab.nums_local_outcomes) != want.shape or not coords.close(np.asarray(dist.ps), want.ravel(), 1e-9):
                    chk.violation("statistics:povm_gate_state:%s" % tag, "product measurement statistics are not the product of the factors' statistics", dict(tag=tag))
                # outcomes addressed by a multi-index (k, l) are the outcomes at the serial position the local counts define,
                # and their Born probability on the product state is the (k, l) entry of the product statistics
                n1, n2 = pab.nums_local_outcomes
                nu_vec = None
                for k in range(n1):
                    for l in range(n2):
                        ser = k * n2 + l
                        if not np.array_equal(pab.vec((k, l)), pab.vecs[ser]) or not np.array_equal(pab.vec((k, l)), pab.vec(ser)):
                            chk.violation("multi_index:povm_vec:%s" % tag, "vec((%d, %d)) is not the element at serial index %d" % (k, l, ser), dict(tag=tag))
                        if not coords.close(pab.matrix((k, l)), pab.matrices()[ser], 1e-12) or not coords.close(np.asarray(pab.matrix_with_sparsity((k, l))), pab.matrices()[ser], 1e-12):
                            chk.violation("multi_index:povm_matrix:%s" % tag, "matrix((%d, %d)) is not the element at serial index %d" % (k, l, ser), dict(tag=tag))
                        pr = float(np.real(np.trace(pab.matrix((k, l)) @ compose_qoperations(gab, sab).to_density_matrix())))
                        if abs(pr - want[k, l]) > 1e-9:
                            chk.violation("multi_index:povm_born:%s" % tag, "Born probability of outcome (%d, %d) is %.6g, product statistics %.6g" % (k, l, pr, want[k, l]), dict(tag=tag))
                # product gate acts factor-wise, product states stay product states
                out = compose_qoperations(gab, sab)
                want_state = tensor_product(compose_qoperations(ga, sa), compose_qoperations(gb, sb))
                if not coords.close(out.vec, want_state.vec, 1e-9):
                    chk.violation("statistics:gate_factorwise:%s" % tag, "(G_A x G_B)(rho_A x rho_B) != G_A(rho_A) x G_B(rho_B)", dict(tag=tag))
                if not out.is_physical() or not pab.is_physical() or not gab.is_physical():
                    chk.violation("statistics:unphysical:%s" % tag, "tensor product of physical objects is not physical", dict(tag=tag))
            # product measurement process: probabilities multiply, laid out as the reported shape says
            ea = np.asarray(compose_qoperations(ma_, sa).prob_dist.ps)
            eb = np.asarray(compose_qoperations(mb_, sb).prob_dist.ps)
            for fm, fs in (([ma_, mb_], [sa, sb]), ([mb_, ma_], [sb, sa])):
                mab = tensor_product(*fm)
                ens = compose_qoperations(mab, tensor_product(*fs))
                shape = tuple(mab.shape)
                by_count = {len(ea): ea, len(eb): eb}
                if len(ea) == len(eb):
                    continue
                want = np.outer(by_count[shape[0]], by_count[shape[1]])
                if not coords.close(np.asarray(ens.prob_dist.ps), want.ravel(), 1e-9):
                    chk.violation("statistics:mprocess:%s" % tag, "product measurement process statistics are not laid out as its shape %s says" % (shape,), dict(tag=tag))
                if not mab.is_physical():
                    chk.violation("statistics:unphysical:mprocess:%s" % tag, "tensor product of physical measurement processes is not physical", dict(tag=tag))
                for k in range(shape[0]):
                    for l in range(shape[1]):
                        ser = k * shape[1] + l
                        ok = np.array_equal(mab.hs((k, l)), mab.hss[ser]) and np.array_equal(mab.hs((k, l)), mab.hs(ser)) \
                            and coords.close(mab.to_choi_matrix((k, l)), mab.to_choi_matrix(ser), 1e-12) \
                            and coords.close(mab.to_process_matrix((k, l)), mab.to_process_matrix(ser), 1e-12) \
                            and coords.close(mab.to_choi_matrix_with_dict((k, l)), mab.to_choi_matrix(ser), 1e-12)
                        if not ok:
                            chk.violation("multi_index:mprocess:%s" % tag, "outcome (%d, %d) of the product measurement process is not the outcome at serial index %d in every accessor" % (k, l, ser), dict(tag=tag))
                        # the state after outcome (k, l), weighted by its probability, is hs((k, l)) applied to the input
                        sin = tensor_product(*fs)
                        got = mab.hs((k, l)) @ sin.vec
                        wantv = ens.prob_dist.ps[ser] * ens.states[ser].vec
                        if not coords.close(got, wantv, 1e-9):
                            chk.violation("multi_index:mprocess_state:%s" % tag, "hs((%d, %d)) applied to the input is not p * post-measurement state of that outcome" % (k, l), dict(tag=tag))
        except Exception as e:
            chk.violation("statistics:exception:%s" % tag, "%r" % e, dict(tag=tag))


def embeddings(chk):
    """Qutrit -> two qubits: physicality and all outcome statistics of embedded inputs are preserved."""
    from quara.objects.operators import compose_qoperations
    from quara.objects.qoperation import QOperation
    from quara.objects.qoperation_typical import generate_qoperation
    c3 = qobjs.csys("qutrit", 1)
    c22 = qobjs.csys("qubit", 2)
    es = list(c22.elemental_systems)
    states = [generate_qoperation("state", n, c3) for n in ("01z0", "12x1", "02y0", "0_1_2_superposition")]
    gates = [generate_qoperation("gate", n, c3) for n in ("01x90", "12y180", "02z90")]
    povms = [generate_qoperation("povm", n, c3) for n in ("z3", "01x3", "12y3", "z2")]
    mps = [generate_qoperation("mprocess", n, c3) for n in ("z3-type1", "z2-type1")]
    emb = QOperation.embed_qoperation_from_qutrits_to_qubits
    # non-unitary qutrit channels (two or more Kraus operators): mixtures of catalogue unitaries and the depolarising channel
    from quara.objects.gate import Gate, get_depolarizing_channel
    gates = gates + [Gate(c3, 0.6 * gates[0].hs + 0.4 * gates[1].hs), Gate(c3, (gates[0].hs + gates[1].hs + gates[2].hs) / 3.0),
                     get_depolarizing_channel(0.2, c3)]
    for st in states:
        for g in gates:
            for p in povms:
                chk.count(1, ("embed", id(st) % 97, id(g) % 97, id(p) % 97))
                try:
                    want = np.asarray(compose_qoperations(p, g, st).ps)
                    es_, eg, ep = emb(st, es), emb(g, es), emb(p, es)
                    got = np.asarray(compose_qoperations(ep, eg, es_).ps)
                    if not coords.close(got, want, 1e-8):
                        chk.violation("embed:statistics", "statistics change under the qutrit -> two-qubit embedding: %s vs %s" % (got, want), dict())
                    if not (es_.is_physical() and eg.is_physical() and ep.is_physical()):
                        chk.violation("embed:unphysical", "embedded object is not physical", dict())
                except Exception as e:
                    chk.violation("embed:exception", "%r" % e, dict())
        for m in mps:
            try:
                want = np.asarray(compose_qoperations(m, st).prob_dist.ps)
                em = emb(m, es)
                got = np.asarray(compose_qoperations(em, emb(st, es)).prob_dist.ps)
                if not coords.close(got, want, 1e-8) or not em.is_physical():
                    chk.violation("embed:mprocess", "measurement-process statistics change under the embedding (or unphysical)", dict())
                # post-measurement states followed by a measurement
                for p in povms[:2]:
                    w2 = np.asarray(compose_qoperations(p, m, st).ps)
                    g2 = np.asarray(compose_qoperations(emb(p, es), em, emb(st, es)).ps)
                    if not coords.close(g2, w2, 1e-8):
                        chk.violation("embed:mprocess_povm", "statistics after an embedded measurement process differ", dict())
            except Exception as e:
                chk.violation("embed:exception:mprocess", "%r" % e, dict())


def run(chk):
    rs = np.random.RandomState(chk.seed % (2 ** 31))
    rng = random.Random(chk.seed)
    t = chk.tier
    chk.tlc("mc/MC_C07", "mc/MC_C07_%s.cfg" % t, workers=16, label="MC_C07 " + t, timeout=7000)
    r = chk.tlc("mc/MC_C07", "mc/MC_C07_%s_emit.cfg" % t, workers=16, label="MC_C07 emit " + t, timeout=7000)
    cases = r.emitted
    if t == "quick":
        # four qubits: every argument order and grouping (dimension 2 only in the quick tier)
        chk.tlc("mc/MC_C07", "mc/MC_C07_quick4.cfg", workers=16, label="MC_C07 four subsystems")
        r4 = chk.tlc("mc/MC_C07", "mc/MC_C07_quick4_emit.cfg", workers=16, label="MC_C07 four subsystems emit")
        cases = cases + r4.emitted
    # four subsystems: heavy objects; quick tier takes every configuration of dimensions 2 only
    for i, case in enumerate(cases):
        total = int(np.prod([d * d for d in case["dims"]]))
        if total > 1300 or (total > 600 and rng.random() > (0.3 if t == "thorough" else 0.1)):
            continue      # composite systems with more than 1300 basis elements are not built
        replay(chk, case, rs)
        chk.replayed += 1
        if i in (3, 60):
            chk.sample({k: case[k] for k in ("names", "dims", "outcomes", "order", "tree")})
    basis_products(chk)
    product_statistics(chk)
    embeddings(chk)
    chk.assumptions += [
        "factor entries are seeded generic reals (a layout error changes a value with probability one); values through multilinearity",
        "4-subsystem configurations with total dimension^2 above 300 are sampled in the thorough tier; HS-matrix kinds skip 3-qutrit systems",
        "outcome counts are pairwise different so that every outcome axis identifies its factor",
    ]
    return chk.finish(exhaustive=(t == "quick"), rule="every (names, dims, argument order, grouping) emitted by TLC x six kinds of factors; distinct = (kind, configuration)")
