"""C14 - sampled data and empirical distributions are valid and reproducible.

(1) QRandom stream machine: TLC checks the stream properties on all call histories to the bound and
    prints the transition graph; every transition is replayed on the real entry points (edge cover
    + seeded walks).  The output of each call is hashed; the map specification-token -> output hash
    must be a bijection (equal tokens <=> equal outputs), and numpy's global state / each
    generator's state must change exactly when the specification says the stream advances.
(2) QData: exact inverse-CDF sampling on dyadic grids and prefix-count empirical distributions:
    TLC checks validity / monotonicity / exact distribution on the grid and prints the expected
    outcome for every uniform; the real sampler is fed those uniforms through a stand-in generator.
(3) postcondition-only probes where the specification has no exact value: non-dyadic probability
    vectors with adversarial uniforms, multinomial-based generation (counts sum to N, zero-probability
    outcomes have count 0, cumulative consistency), fixed-bound distributional agreement."""
import hashlib
import itertools
import json
import pickle
import random

import numpy as np

from harness import core, graphwalk, qobjs

P4 = np.array([0.125, 0.5, 0.25, 0.125])
P3 = np.array([0.5, 0.25, 0.25])
BIG = [1000, 100000]


def digest(x):
    def norm(o):
        if isinstance(o, np.ndarray):
            return ("nd", o.shape, o.astype(np.float64).round(12).tobytes())
        if isinstance(o, (list, tuple)):
            return tuple(norm(i) for i in o)
        if isinstance(o, (np.integer,)):
            return int(o)
        if isinstance(o, (np.floating,)):
            return float(o)
        return o
    return hashlib.sha1(pickle.dumps(norm(x))).hexdigest()[:16]


_HEAVY = {}


class World:
    def __init__(self, gen_seeds):
        if not _HEAVY:
            self._build()
            _HEAVY.update(self.__dict__)
        self.__dict__.update(_HEAVY)
        np.random.seed(0)
        self.gens = {g: np.random.Generator(np.random.MT19937(s)) for g, s in gen_seeds.items()}

    def _build(self):
        from quara.qcircuit.experiment import Experiment
        from quara.protocol.qtomography.standard.standard_qst import StandardQst
        from quara.protocol.qtomography.standard.standard_povmt import StandardPovmt
        from quara.protocol.qtomography.standard.standard_qpt import StandardQpt
        from quara.protocol.qtomography.standard.standard_qmpt import StandardQmpt
        pool = qobjs.pool_1qubit()
        self.pool = pool
        a = qobjs.gen("state", "a", pool["csys"])
        self.exp = Experiment(schedules=[[("state", 0), ("povm", 0)], [("state", 0), ("gate", 0), ("povm", 1)]],
                              states=[a], povms=pool["povm"][:2], gates=pool["gate"][:1], seed_data=5)
        self.true_state = a
        # the objects carry a data seed of their own (set at construction): generating data later must neither
        # re-seed the global stream nor depend on that seed unless reset_seed is called
        self.qst = StandardQst(pool["tester_povms"], seed_data=5)
        self.povmt = StandardPovmt(pool["tester_states"], 2, seed_data=6)
        self.qpt = StandardQpt(pool["tester_states"], pool["tester_povms"], seed_data=7)
        self.qmpt = StandardQmpt(pool["tester_states"], pool["tester_povms"], 2, seed_data=8)

    def call(self, ep, sg):
        from quara.qcircuit import data_generator as dg
        from quara.objects.multinomial_distribution import MultinomialDistribution
        pool = self.pool
        if ep == "data":
            return dg.generate_data_from_prob_dist(P4, 40, sg)
        if ep == "dataset":
            return dg.generate_dataset_from_prob_dists([P4, P3], [30, 30], None if sg is None else [sg, sg])
        if ep == "empi":
            return dg.generate_empi_dist_sequence_from_prob_dist(P4, BIG, sg)
        if ep == "empis":
            return dg.generate_empi_dists_sequence_from_prob_dists([P4, P3], [BIG, BIG], sg)
        if ep == "mn":
            return MultinomialDistribution(P4.copy()).execute_random_sampling(100000, 3, sg)
        if ep == "exp_data":
            return self.exp.generate_data(0, 64, sg)
        if ep == "exp_dataset":
            return self.exp.generate_dataset([40, 40], sg)
        if ep == "exp_empi":
            return self.exp.generate_empi_dist_sequence(1, [1000, 100000, 10000000], sg)
        if ep == "exp_empis":
            return self.exp.generate_empi_dists_sequence([[1000, 1000], [100000, 100000]], sg)
        if ep == "qst_empi":
            return [self.qst.generate_empi_dist(i, self.true_state, 10 ** 7, sg) for i in range(3)]
        if ep == "qst_empis":
            return self.qst.generate_empi_dists(self.true_state, 10 ** 6, sg)
        if ep == "qst_seq":
            return self.qst.generate_empi_dists_sequence(self.true_state, BIG, sg)
        if ep == "povmt_seq":
            return self.povmt.generate_empi_dists_sequence(pool["povm"][1], BIG, sg)
        if ep == "qpt_seq":
            return self.qpt.generate_empi_dists_sequence(pool["gate"][0], BIG, sg)
        if ep == "qmpt_seq":
            return self.qmpt.generate_empi_dists_sequence(pool["mprocess"][1], BIG, sg)
        raise core.MachineryError("unknown entry point " + ep)

    def state_hashes(self):
        h = {"glob": digest(list(np.random.get_state()[1][:8]) + [int(np.random.get_state()[2])])}
        for g, gen in self.gens.items():
            st = gen.bit_generator.state["state"]
            h[g] = digest([int(x) for x in st["key"][:8]] + [int(st["pos"])])
        return h


MULTI_CALL = {"dataset", "qst_empi"}


def tok_key(tok):
    return json.dumps(tok, sort_keys=True)


def replay_walk(chk, walk, gen_seeds, tokmap, digmap):
    w = World(gen_seeds)
    for n, tr in enumerate(walk):
        act, arg = tr["act"], tr["arg"]
        before = w.state_hashes()
        out = None
        try:
            if act == "CallInt":
                out = w.call(arg["ep"], int(arg["seed"]))
            elif act == "CallGen":
                out = w.call(arg["ep"], w.gens[arg["gen"]])
            elif act == "CallNone":
                out = w.call(arg["ep"], None)
            elif act == "UnrelatedGlobalDraw":
                np.random.random(3)
            elif act == "ResetSeed":
                w.exp.reset_seed_data(int(arg["seed"]))
        except Exception as e:
            chk.violation("stream:exception:%s:%s" % (act, arg.get("ep")), "%s(%s) raised %r" % (act, arg, e), dict(walk=walk, step=n))
            return
        after = w.state_hashes()
        chk.count(1)
        # which streams may change
        must_change = {"CallGen": arg.get("gen"), "CallNone": "glob", "UnrelatedGlobalDraw": "glob", "ResetSeed": None, "CallInt": None}[act]
        for name in before:
            changed = before[name] != after[name]
            if name == must_change and not changed:
                chk.violation("stream:not_advanced:%s:%s" % (act, arg.get("ep")),
                              "%s(%s): stream %s did not advance" % (act, arg, name), dict(walk=walk, step=n))
                return
            if name != must_change and changed and not (act == "ResetSeed" and name == "glob"):
                chk.violation("stream:touched:%s:%s:%s" % (act, arg.get("ep"), "glob" if name == "glob" else "othergen"),
                              "%s(%s): stream %s changed although the specification leaves it untouched" % (act, arg, name),
                              dict(walk=walk, step=n))
                return
        if out is not None:
            tok = dict(tr["out"])
            if arg["ep"] in MULTI_CALL and act == "CallInt":
                # these entry points make several library calls: with an integer seed every call restarts the
                # seed's stream, with a generator the calls continue one stream - different arguments, different token
                tok["int_seed_per_call"] = True
            tk = tok_key(tok)
            dg = digest(out)
            if tk in tokmap and tokmap[tk] != dg:
                kind = "seeded" if act == "CallInt" else ("generator" if act == "CallGen" else "global")
                chk.violation("stream:not_reproducible:%s:%s" % (kind, arg["ep"]),
                              "%s(%s) returned different data for the same (stream, history, arguments) token %s" % (act, arg, tk),
                              dict(walk=walk, step=n))
                return
            tokmap[tk] = dg
            # Different positions of ONE stream must give different data.  Two histories that consumed
            # the same amount in a different order legitimately reach the same position, so outputs are
            # only required to differ when one history is a proper prefix of the other.
            for other in digmap.get(dg, ()):
                if other != tk and _proper_prefix(json.loads(other), tr["out"]):
                    kind = "seeded" if act == "CallInt" else ("generator" if act == "CallGen" else "global")
                    chk.violation("stream:not_advancing_output:%s:%s" % (kind, arg["ep"]),
                                  "%s(%s): identical data for two different positions of one stream: %s and %s" % (act, arg, tk, other),
                                  dict(walk=walk, step=n))
                    return
            digmap.setdefault(dg, set()).add(tk)
            check_output_validity(chk, arg["ep"], out)


def _proper_prefix(a, b):
    """a, b tokens of the same entry point: same stream and one `used` a proper prefix of the other."""
    if a["root"] != b["root"] or a["ep"] != b["ep"]:
        return False
    ua, ub = a["used"], b["used"]
    if len(ua) == len(ub):
        return False
    if len(ua) > len(ub):
        ua, ub = ub, ua
    # Rejection samplers (numpy's BTPE binomial) can re-synchronise: a call that starts a few words later may
    # accept the very candidate the earlier start reached after some rejections and return identical data
    # (seen: multinomials from MT19937(0) positions 232 and 244).  "Successive draws differ" is therefore only
    # demanded when a call of the SAME entry point lies between the two positions: the later call then starts
    # behind all the words the earlier one consumed.
    return ub[:len(ua)] == ua and a["ep"] in ub[len(ua):]


def check_output_validity(chk, ep, out):
    """empirical distributions are counts / n, non-negative, summing to one; data within range."""
    def bad(clause, msg):
        chk.violation("output:%s:%s" % (clause, ep), msg, dict(ep=ep))
    if ep in ("data", "exp_data"):
        seqs = [out]
    elif ep in ("dataset", "exp_dataset"):
        seqs = out
    else:
        seqs = None
    if seqs is not None:
        for s in seqs:
            if not all(isinstance(x, (int, np.integer)) and 0 <= x < 4 for x in s):
                bad("range", "data outside range")
        return
    if ep == "mn":
        for c in out:
            if int(np.sum(c)) != 100000 or (np.asarray(c) < 0).any():
                bad("counts", "multinomial counts do not sum to N")
        return
    # (n, dist) tuples, arbitrarily nested in lists
    def walk(o):
        if isinstance(o, tuple) and len(o) == 2 and isinstance(o[1], np.ndarray):
            n, f = o
            c = f * n
            if (f < 0).any() or abs(f.sum() - 1) > 1e-9 or not np.allclose(c, np.round(c), atol=1e-6 * max(1, n)):
                bad("empi", "empirical distribution is not counts/n: n=%s f=%s" % (n, f))
        elif isinstance(o, (list, tuple)):
            for i in o:
                walk(i)
    walk(out)


class FakeGen:
    """A stand-in for numpy.random.Generator whose uniforms are dictated by the specification."""
    def __init__(self, us):
        self.us = np.asarray(us, dtype=np.float64)

    def random(self, n=None):
        if n is None:
            return self.us[0]
        if n != len(self.us):
            raise core.MachineryError("FakeGen: asked for %r uniforms, have %d" % (n, len(self.us)))
        return self.us.copy()


def replay_data(chk, cases):
    from quara.qcircuit import data_generator as dg
    for case in cases:
        if case["kind"] == "pd":
            # sub-normalised vector k/D with total mass (D-1)/D: the library function is driven directly with the whole grid
            D = case["D"]
            p = np.array(case["k"], dtype=np.float64) / D
            us = np.arange(2 * D, dtype=np.float64) / (2 * D)
            got = [dg._random_number_to_data(p, np.float64(u)) for u in us]
            chk.count(len(us), ("pd", tuple(case["k"])))
            # below the total mass the inverse CDF is determined; at or above it the property only asks for an outcome of
            # non-zero probability (the specification's choice, the last one, is one of them)
            wrong = [i for i in range(len(us)) if (got[i] != case["data"][i] if us[i] < p.sum() else not (0 <= got[i] < len(p) and p[got[i]] > 0))]
            if wrong:
                j = wrong[0]
                chk.violation("data:subnormalised:p%d%s" % (len(p), ":zero" if not (0 <= got[j] < len(p)) or p[got[j]] == 0 else ""),
                              "p=%s (mass %g): uniform %s -> outcome %s, specification %s" % (p, p.sum(), us[j], got[j], case["data"][j]), case)
            continue
        if case["kind"] == "p":
            D = case["D"]
            k = case["k"]
            p = np.array(k, dtype=np.float64) / D
            us = np.arange(2 * D, dtype=np.float64) / (2 * D)
            tag = "p%d" % len(k)
            try:
                got = dg.generate_data_from_prob_dist(p, len(us), FakeGen(us))
                got2 = [dg._random_number_to_data(p, u) for u in us]
            except Exception as e:
                chk.violation("data:exception:" + tag, "sampling raised %r for p=%s" % (e, p), case)
                continue
            chk.count(len(us), ("p", tuple(k)))
            if list(got) != case["data"] or list(got2) != case["data"]:
                j = [i for i in range(len(us)) if got[i] != case["data"][i]][:1]
                chk.violation("data:inverse_cdf:" + tag + (":zero" if any(k[g] == 0 for g in got) else ""),
                              "p=%s: uniform %s -> outcome %s, specification %s" % (p, us[j[0]] if j else "?", got[j[0]] if j else got2, case["data"][j[0]] if j else "?"), case)
            # the largest double below one, and doubles adjacent to every cumulative sum
            cum = np.cumsum(p)
            adv = [np.nextafter(1.0, 0.0)] + [float(np.nextafter(c, 0.0)) for c in cum if c < 1] + [float(c) for c in cum if c < 1]
            for u in adv:
                r = dg._random_number_to_data(p, np.float64(u))
                exp = int(np.searchsorted(cum, u, side="right"))
                if not (0 <= r < len(p)) or p[r] == 0 or r != exp:
                    chk.violation("data:adversarial_dyadic:" + tag, "p=%s u=%r -> %s (expected %s)" % (p, u, r, exp), dict(p=list(p), u=u))
            # probability vectors whose floating-point sum stays BELOW the random number (rounding deficit, or a deficit the
            # caller's atol admits): whatever is returned must be an outcome of non-zero probability - for every position of the
            # support, the first one included
            n = len(k)
            eps = 2.0 ** -53
            deficits = [np.array([1.0 - eps if j == pos else 0.0 for j in range(n)]) for pos in range(n)]
            deficits += [np.array([0.995 if j == pos else 0.0 for j in range(n)]) for pos in (0, n - 1)]
            if n >= 3:
                deficits.append(np.array([0.5 - eps, 0.0] + [0.5 - eps] + [0.0] * (n - 3)))
            for q in deficits:
                for u in (np.nextafter(1.0, 0.0), float(q.sum()), (float(q.sum()) + 1.0) / 2):
                    if u >= 1.0:
                        continue
                    try:
                        r1 = dg._random_number_to_data(q, np.float64(u))
                        r2 = dg.generate_data_from_prob_dist(q, 1, FakeGen(np.array([u])), atol=1e-2)[0]
                    except Exception as e:
                        chk.violation("data:deficit:exception:" + tag, "p=%s u=%r raised %r" % (q, u, e), dict(p=list(q), u=u))
                        continue
                    for r in (r1, r2):
                        if not (0 <= r < n) or q[r] == 0:
                            chk.violation("data:deficit:zero:" + tag, "p=%s (sum %r) u=%r -> outcome %s of probability zero" % (q, float(q.sum()), u, r), dict(p=list(q), u=u))
                            break
            chk.count(len(deficits))
        else:
            m, data = case["m"], case["data"]
            for g in case["good"]:
                ns = g["ns"]
                try:
                    r = dg.calc_empi_dist_sequence(m, list(data), list(ns))
                except Exception as e:
                    chk.violation("empi:exception", "calc_empi_dist_sequence(%s,%s,%s) raised %r" % (m, data, ns, e), dict(m=m, data=data, ns=ns))
                    continue
                ok = len(r) == len(ns)
                for (n_got, f), e in zip(r, g["e"]):
                    want = np.array(e["counts"], dtype=float) / e["n"]
                    ok = ok and n_got == e["n"] and f.shape == want.shape and np.allclose(f, want, rtol=0, atol=1e-15)
                chk.count(1, ("d", tuple(data), tuple(ns)))
                if not ok:
                    chk.violation("empi:prefix_counts", "calc_empi_dist_sequence(%s,%s,%s) = %s, specification %s" % (m, data, ns, r, g["e"]),
                                  dict(m=m, data=data, ns=ns))
            for ns in case["bad"]:
                try:
                    r = dg.calc_empi_dist_sequence(m, list(data), list(ns))
                    chk.violation("empi:bad_num_sums_accepted", "num_sums=%s accepted for data of length %d: %s" % (ns, len(data), r), dict(m=m, data=data, ns=ns))
                except ValueError:
                    pass
            # data outside the range must be rejected
            if len(data) >= 1:
                try:
                    dg.calc_empi_dist_sequence(m, list(data[:-1]) + [m], [len(data)])
                    chk.violation("empi:bad_data_accepted", "outcome %d accepted with measurement_num %d" % (m, m), dict(m=m, data=data))
                except ValueError:
                    pass
            # the sequence form equals the single form
            r1 = dg.calc_empi_dists_sequence([m, m], [list(data), list(data)], [list(range(1, len(data) + 1))] * 2)
            r0 = dg.calc_empi_dist_sequence(m, list(data), list(range(1, len(data) + 1)))
            if digest(r1) != digest([r0, r0]):
                chk.violation("empi:sequence_form", "calc_empi_dists_sequence differs from calc_empi_dist_sequence", dict(m=m, data=data))


def postcondition_probes(chk, rng):
    """Where the specification gives no exact value: validity postconditions only."""
    from quara.qcircuit import data_generator as dg
    one_minus = np.nextafter(1.0, 0.0)
    # non-dyadic probability vectors with exact zeros, adversarial uniforms
    vecs = []
    for n in range(2, 17):
        for zeros in (0, 1, 2):
            if n - zeros < 1:
                continue
            base = [1.0 / (n - zeros)] * (n - zeros)
            for pos in ("end", "start", "middle"):
                if zeros == 0 and pos != "end":
                    continue
                p = list(base)
                for z in range(zeros):
                    if pos == "end":
                        p.append(0.0)
                    elif pos == "start":
                        p.insert(0, 0.0)
                    else:
                        p.insert(len(p) // 2, 0.0)
                vecs.append(p)
    for _ in range(200):
        n = rng.randint(2, 16)
        w = [rng.choice([0, 0, 1, 2, 3, 7]) for _ in range(n)]
        if sum(w) == 0:
            continue
        vecs.append([x / sum(w) for x in w])
    for p in vecs:
        pa = np.array(p, dtype=np.float64)
        cum = np.cumsum(pa)
        us = [0.0, one_minus] + [float(np.nextafter(c, 0.0)) for c in cum] + [float(c) for c in cum if c < 1]
        us = [u for u in us if 0 <= u < 1]
        try:
            got = dg.generate_data_from_prob_dist(pa, len(us), FakeGen(us))
        except Exception as e:
            chk.violation("data:exception:nondyadic", "sampling raised %r for p=%s" % (e, p), dict(p=p))
            continue
        chk.count(len(us), ("nd", tuple(p)))
        for u, r in zip(us, got):
            if not (0 <= r < len(p)):
                chk.violation("data:out_of_range", "p=%s u=%r -> %s" % (p, u, r), dict(p=p, u=u))
            elif pa[r] == 0:
                where = "last" if r == len(p) - 1 else "inner"
                chk.violation("data:zero_probability_outcome:%s" % where,
                              "outcome %d of probability 0 generated: p=%s u=%r" % (r, p, u), dict(p=p, u=u))
    # multinomial-based generation: counts sum to N, zero-probability outcomes stay 0, cumulative consistency
    for trial in range(60):
        n = rng.randint(2, 8)
        w = [rng.choice([0, 1, 2, 5]) for _ in range(n)]
        if sum(w) == 0:
            continue
        pa = np.array(w, dtype=float) / sum(w)
        ns = sorted(rng.sample(range(1, 400), 3))
        seq = dg.generate_empi_dist_sequence_from_prob_dist(pa, ns, rng.randint(0, 10 ** 6))
        prev = None
        chk.count(1)
        for (nn, f) in seq:
            c = np.round(f * nn).astype(int)
            if abs(f.sum() - 1) > 1e-9 or (f < 0).any() or not np.allclose(f * nn, c, atol=1e-6):
                chk.violation("empi_gen:not_counts", "empirical distribution %s for n=%d is not counts/n" % (f, nn), dict(p=list(pa), ns=ns))
            if any(c[i] > 0 and pa[i] == 0 for i in range(n)):
                chk.violation("empi_gen:zero_probability_outcome", "zero-probability outcome counted", dict(p=list(pa), ns=ns))
            if prev is not None:
                pn, pc = prev
                inc = c - pc
                if (inc < 0).any() or inc.sum() != nn - pn:
                    chk.violation("empi_gen:cumulative_inconsistent",
                                  "generate_empi_dist_sequence_from_prob_dist: counts at n=%d (%s) are not an extension of counts at n=%d (%s)" % (nn, c, pn, pc),
                                  dict(p=list(pa), ns=ns))
            prev = (nn, c)
    # fixed-bound distributional agreement (sanity, not a TLA+ claim)
    N = 100000
    for p in ([0.5, 0.5], [0.125, 0.5, 0.25, 0.125], [0.0, 0.3, 0.7], [1.0 / 16] * 16):
        pa = np.array(p)
        data = dg.generate_data_from_prob_dist(pa, N, 12345)
        f = np.bincount(data, minlength=len(p)) / N
        f2 = dg.generate_empi_dist_sequence_from_prob_dist(pa, [N], 54321)[0][1]
        for name, ff in (("data", f), ("empi", f2)):
            bound = 6 * np.sqrt(pa * (1 - pa) / N) + 1e-3
            chk.count(1)
            if (np.abs(ff - pa) > bound).any():
                chk.violation("distribution:%s" % name, "frequencies %s deviate from p=%s beyond the fixed bound" % (ff, p), dict(p=p))


def dataset_seed_lists(chk):
    """generate_dataset_from_prob_dists with a LIST of seeds: the data of schedule j are a function of (p_j, n_j, seed_j) alone -
    an integer seed names a fresh stream wherever it appears in the list (also twice), a generator object is continued."""
    from quara.qcircuit import data_generator as dg
    ps = [np.array([0.5, 0.2, 0.3]), np.array([0.0, 0.6, 0.4]), np.array([0.25, 0.25, 0.5])]
    ns = [25, 30, 20]
    for seeds in ([7, 77, 7], [5, 5, 5], [3, 4, 3]):
        chk.count(1, ("dataset_seed_lists", tuple(seeds)))
        try:
            ds = dg.generate_dataset_from_prob_dists([p.copy() for p in ps], list(ns), list(seeds))
            want = [dg.generate_data_from_prob_dist(p.copy(), n, sd) for p, n, sd in zip(ps, ns, seeds)]
        except Exception as e:
            chk.violation("dataset_seed_lists:exception", "%r" % e, dict(seeds=seeds))
            continue
        bad_rows = [j for j in range(3) if list(ds[j]) != list(want[j])]
        if bad_rows:
            chk.violation("dataset_seed_lists:row", "seeds %s: the data of schedule(s) %s differ from generate_data_from_prob_dist with that schedule's own seed" % (seeds, bad_rows), dict(seeds=seeds))
    g = np.random.Generator(np.random.MT19937(9))
    ds = dg.generate_dataset_from_prob_dists([ps[0].copy(), ps[0].copy()], [40, 40], [g, g])
    if list(ds[0]) == list(ds[1]):
        chk.violation("dataset_seed_lists:shared_generator", "one generator object given for two schedules produced identical data (it must advance)", dict())


def multinomial_sampling(chk):
    """MultinomialDistribution.execute_random_sampling: counts per outcome follow the probability AT THAT POSITION (vectors in no
    particular order, with zeros, with a shape), sum to the number of trials, and an integer seed equals its generator."""
    from quara.objects.multinomial_distribution import MultinomialDistribution
    N = 100000
    for p, shape in (([0.5, 0.2, 0.3], None), ([0.3, 0.5, 0.2], None), ([0.5, 0.0, 0.3, 0.2], None), ([1.0, 0.0, 0.0, 0.0], None),
                     ([0.1, 0.2, 0.3, 0.4], None), ([0.25, 0.05, 0.4, 0.1, 0.15, 0.05], (2, 3)), ([0.7, 0.3], None)):
        pa = np.array(p, dtype=float)
        chk.count(1, ("mn_sampling", tuple(p)))
        try:
            md = MultinomialDistribution(pa.copy(), shape) if shape else MultinomialDistribution(pa.copy())
            a = md.execute_random_sampling(N, 3, 77)
            b = md.execute_random_sampling(N, 3, np.random.Generator(np.random.MT19937(77)))
        except Exception as e:
            chk.violation("mn_sampling:exception", "p=%s: %r" % (p, e), dict(p=p))
            continue
        for smp, smp2 in zip(a, b):
            smp = np.asarray(smp).ravel()
            f = smp / float(N)
            bound = 6 * np.sqrt(pa * (1 - pa) / N) + 1e-3
            if smp.sum() != N or (smp < 0).any() or (np.abs(f - pa) > bound).any() or (smp[pa == 0] != 0).any():
                chk.violation("mn_sampling:distribution", "execute_random_sampling with p=%s gives frequencies %s" % (p, np.round(f, 4)), dict(p=p))
                break
            if not np.array_equal(smp, np.asarray(smp2).ravel()):
                chk.violation("mn_sampling:seed_vs_generator", "p=%s: integer seed and the generator seeded alike give different samples" % (p,), dict(p=p))
                break


def dataset_sizes(chk):
    """generate_dataset / generate_data: one data list per schedule with exactly the requested length - zero included
    ("non-negative integers") - holding only outcomes of non-zero probability of THAT schedule."""
    from quara.qcircuit.experiment import Experiment
    from quara.qcircuit import data_generator as dg
    pool = qobjs.pool_1qubit()
    c = pool["csys"]
    exp = Experiment(schedules=[[("state", 0), ("povm", 0)], [("state", 0), ("povm", 1)], [("state", 0), ("povm", 2)]],
                     states=[qobjs.gen("state", "z0", c)], povms=[qobjs.gen("povm", n, c) for n in ("z", "x", "y")], seed_data=5)
    probs = [np.asarray(p, dtype=float) for p in exp.calc_prob_dists()]
    for nums in ([30, 40, 50], [0, 40, 50], [40, 0, 50], [40, 50, 0], [0, 0, 7], [0, 0, 0]):
        chk.count(1, ("dataset_sizes", tuple(nums)))
        try:
            ds = exp.generate_dataset(list(nums), 11)
            ds2 = dg.generate_dataset_from_prob_dists([p.copy() for p in probs], list(nums), [np.random.Generator(np.random.MT19937(11))] * 3)
        except Exception as e:
            chk.violation("dataset_sizes:exception", "generate_dataset(%s) raised %r" % (nums, e), dict(nums=nums))
            continue
        for name, d in (("Experiment.generate_dataset", ds), ("generate_dataset_from_prob_dists", ds2)):
            if len(d) != len(nums) or any(len(x) != n for x, n in zip(d, nums)):
                chk.violation("dataset_sizes:lengths", "%s(%s) returns lists of lengths %s" % (name, nums, [len(x) for x in d]), dict(nums=nums))
                break
            if any(any(probs[j][int(o)] <= 0 or not (0 <= int(o) < len(probs[j])) for o in d[j]) for j in range(len(nums))):
                chk.violation("dataset_sizes:zero_probability", "%s(%s): a schedule's data contain an outcome that schedule cannot produce" % (name, nums), dict(nums=nums))
                break


def tomography_distributions(chk):
    """All four tomography types' data-generation entry points: the data of schedule j follow the Born distribution of
    schedule j (fixed, astronomically unlikely bound), outcomes of probability zero never occur - for every schedule index,
    through the single-schedule, the all-schedules and the sequence entry points."""
    from quara.protocol.qtomography.standard.standard_qst import StandardQst
    from quara.protocol.qtomography.standard.standard_povmt import StandardPovmt
    from quara.protocol.qtomography.standard.standard_qpt import StandardQpt
    from quara.protocol.qtomography.standard.standard_qmpt import StandardQmpt
    pool = qobjs.pool_1qubit()
    c = pool["csys"]
    cfgs = [("qst", StandardQst(pool["tester_povms"], seed_data=5), qobjs.gen("state", "z0", c)),
            ("povmt", StandardPovmt(pool["tester_states"], 2, seed_data=6), qobjs.gen("povm", "z", c)),
            ("qpt", StandardQpt(pool["tester_states"], pool["tester_povms"], seed_data=7), qobjs.gen("gate", "x90", c)),
            ("qmpt", StandardQmpt(pool["tester_states"], pool["tester_povms"], 2, seed_data=8), qobjs.gen("mprocess", "z-type1", c))]
    N = 40000
    for name, qt, true in cfgs:
        want = [np.asarray(p, dtype=float) for p in qt.calc_prob_dists(true)]
        if len({tuple(np.round(w, 6)) for w in want}) < 2:
            raise core.MachineryError("tomography_distributions: all schedules of %s have the same distribution (vacuous)" % name)

        def judge(tag, j, f):
            f = np.asarray(f, dtype=float)
            bound = 6 * np.sqrt(want[j] * (1 - want[j]) / N) + 2e-3
            chk.count(1)
            if f.shape != want[j].shape or (np.abs(f - want[j]) > bound).any() or (f[want[j] < 1e-12] > 0).any():
                chk.violation("distribution:tomography:%s:%s" % (name, tag), "%s schedule %d: frequencies %s, Born distribution of that schedule %s" % (tag, j, np.round(f, 4), np.round(want[j], 4)),
                              dict(tomography=name, entry=tag, schedule=j))
                return False
            return True
        try:
            for seed in (3, np.random.Generator(np.random.MT19937(4))):
                for j in range(len(want)):
                    e = qt.generate_empi_dist(j, true, N, seed)
                    if not judge("generate_empi_dist", j, e[1]):
                        break
            es = qt.generate_empi_dists(true, N, 5)
            for j in range(len(want)):
                if not judge("generate_empi_dists", j, es[j][1]):
                    break
            seq = qt.generate_empi_dists_sequence(true, [N // 4, N], 6)
            for j in range(len(want)):
                if not judge("generate_empi_dists_sequence", j, seq[-1][j][1]):
                    break
        except Exception as e:
            chk.violation("distribution:tomography:%s:exception" % name, "%r" % e, dict(tomography=name))


def run(chk):
    rng = random.Random(chk.seed)
    t = chk.tier
    # (1) streams
    chk.tlc("mc/MC_C14", "mc/MC_C14_%s.cfg" % t, workers=16, label="MC_C14 streams " + t)
    r = chk.tlc("mc/MC_C14", "mc/MC_C14_%s_emit.cfg" % t, workers=1, label="MC_C14 streams emit " + t)
    g = graphwalk.Graph(r.emitted)
    gen_seeds = {"g1": 11, "g2": 11, "g3": 0}
    init = graphwalk.key(dict(glob=dict(root=["legacy", 0], used=[]),
                              gens={gid: dict(root=["gen", s], used=[]) for gid, s in gen_seeds.items()}))
    if init not in g.out:
        raise core.MachineryError("initial state of the stream machine not found in the emitted graph")
    tokmap, digmap = {}, {}
    # cover every transition: walk from the initial state along the (tree-like) graph
    walks = cover_from_init(g, init, rng)
    walks += g.random_walks(150 if t == "quick" else 600, 4 if t == "quick" else 3, rng, starts={init})
    for w in walks:
        replay_walk(chk, w, gen_seeds, tokmap, digmap)
        chk.replayed += 1
    chk.notes["stream_transitions"] = len(r.emitted)
    chk.notes["stream_walks"] = len(walks)
    chk.notes["distinct_tokens"] = len(tokmap)
    chk.nontrivial.update(("tok", k) for k in list(tokmap)[:100000])
    chk.sample(dict(walk=[dict(act=x["act"], arg=x["arg"], out=x["out"]) for x in walks[len(walks) // 3]]))
    # (2) data
    chk.tlc("mc/MC_C14_data", "mc/MC_C14_data_%s.cfg" % t, workers=16, label="MC_C14_data " + t)
    r = chk.tlc("mc/MC_C14_data", "mc/MC_C14_data_%s_emit.cfg" % t, workers=1, label="MC_C14_data emit " + t)
    replay_data(chk, r.emitted)
    chk.replayed += len(r.emitted)
    chk.sample([e for e in r.emitted if e["kind"] == "p"][5])
    # (3)
    postcondition_probes(chk, rng)
    tomography_distributions(chk)
    dataset_sizes(chk)
    multinomial_sampling(chk)
    dataset_seed_lists(chk)
    chk.assumptions += [
        "outputs are compared through hashes; different stream positions are expected to give different data (draw sizes chosen so that accidental equality is negligible)",
        "statistical agreement is a fixed-bound sanity check outside the TLA+ argument",
    ]
    return chk.finish(rule="every transition of the stream machine (edge cover from the initial state) + seeded walks; every dyadic probability vector k/D and every uniform j/2D; every data word and increasing num_sums; distinct = tokens/vectors/words")


def cover_from_init(g, init, rng):
    """Walks from the initial state covering every edge (the graph is a DAG by history length)."""
    covered = set()
    walks = []
    # DFS producing root-to-leaf paths
    stack = [(init, [])]
    while stack:
        node, path = stack.pop()
        outs = g.out.get(node, [])
        if not outs:
            if path:
                walks.append(path)
            continue
        new = [i for i in outs if i not in covered]
        if not new:
            if path and any(id(t) for t in path[-1:]):
                walks.append(path)
            continue
        for i in new:
            covered.add(i)
            stack.append((graphwalk.key(g.trans[i]["to"]), path + [g.trans[i]]))
    # drop walks that are prefixes of others is unnecessary; dedupe identical
    return walks
