"""C17 - Every catalogued object is physical and self-consistent.

TLC (MC_C17 over QCatalogue) enumerates the name grammars of every catalogue (states, POVMs, gates,
measurement processes, ensembles; 1-3 qubits, 1-2 qutrits) and, for every entry with a rational
description, evaluates the textbook definition exactly: scaled Gaussian-integer state vectors and
unitaries, their density matrices / H-coordinates / Hilbert-Schmidt matrices, projective POVMs, Kraus
sets.  Invariants: norms, purity, Kronecker layout of product names, unitarity, trace preservation,
Clifford signed permutations and relations (x90^2 = x180, H x H = z, swap cx01 swap = cx10,
(1 x H) cx (1 x H) = cz, ...), the named-state action table of every exact gate (closure of the six
stabiliser states, bit semantics of cx / toffoli / fredkin for every role assignment), completeness
and projector algebra of POVMs, measurement processes inducing their named POVM, reset semantics of
type-2 processes; the near-miss language is disjoint from the grammar.

Binding: the library's name lists must equal the grammar; every name is generated in every listed
object form on the system it is listed for and compared with the exact description (or, for the
irrational entries, with the textbook formula evaluated in numpy and with relational identities);
every form must agree with the others and be physical; the effective-Lindbladian catalogue must
exponentiate to the gate catalogue; every emitted (gate, roles, input name, output name) action is
replayed through compose_qoperations; every near-miss name must raise."""
import itertools
import os
from concurrent.futures import ProcessPoolExecutor

import numpy as np

from harness import core, coords, qobjs

SYS = {"q": (2,), "qq": (2, 2), "qqq": (2, 2, 2), "t": (3,), "tt": (3, 3)}
TOL = 1e-10

PAULI = [np.eye(2), np.array([[0, 1], [1, 0]]), np.array([[0, -1j], [1j, 0]]), np.array([[1, 0], [0, -1]])]
GM = [np.eye(3),
      np.array([[0, 1, 0], [1, 0, 0], [0, 0, 0]]), np.array([[0, -1j, 0], [1j, 0, 0], [0, 0, 0]]), np.diag([1, -1, 0]),
      np.array([[0, 0, 1], [0, 0, 0], [1, 0, 0]]), np.array([[0, 0, -1j], [0, 0, 0], [1j, 0, 0]]),
      np.array([[0, 0, 0], [0, 0, 1], [0, 1, 0]]), np.array([[0, 0, 0], [0, 0, -1j], [0, 1j, 0]]), np.diag([1, 1, -2])]
_hb = {}


def hbasis(sys):
    """the integer Hermitian basis of QBasis.tla (dense), Kronecker order."""
    if sys not in _hb:
        out = [np.eye(1, dtype=np.complex128)]
        for d in SYS[sys]:
            out = [np.kron(a, np.asarray(b, dtype=np.complex128)) for a in out for b in (PAULI if d == 2 else GM)]
        _hb[sys] = out
    return _hb[sys]


def nbasis(sys):
    return [h / np.sqrt(nu) for h, nu in zip(hbasis(sys), coords.nu_of(SYS[sys]))]


def coef(sys, X):
    """coefficients of X in the normalised basis (library coordinates)."""
    return np.array([np.trace(b.conj().T @ X) for b in nbasis(sys)])


def hs_of_kraus(sys, ks):
    B = nbasis(sys)
    n = len(B)
    out = np.zeros((n, n), dtype=np.complex128)
    for b in range(n):
        img = sum(K @ B[b] @ K.conj().T for K in ks)
        for a in range(n):
            out[a, b] = np.trace(B[a].conj().T @ img)
    return out


def csys_of(sys):
    return qobjs.csys("qubit" if SYS[sys][0] == 2 else "qutrit", len(SYS[sys]))


def cnum(x):
    return x[0][0] / x[0][1] + 1j * (x[1][0] / x[1][1])


def cvec(v):
    return np.array([cnum(x) for x in v])


def cmatx(m):
    return np.array([[cnum(x) for x in row] for row in m])


def join(name):
    return "_".join(name)


def close(a, b, tol=TOL):
    a, b = np.asarray(a), np.asarray(b)
    return a.shape == b.shape and np.allclose(a, b, rtol=0, atol=tol * (1 + float(np.max(np.abs(b))) if b.size else tol))


def same_ray(a, b, tol=TOL):
    """vectors / matrices equal up to a global phase."""
    a, b = np.asarray(a).reshape(-1), np.asarray(b).reshape(-1)
    if a.shape != b.shape:
        return False
    k = int(np.argmax(np.abs(b)))
    if abs(a[k]) < 1e-14:
        return False
    ph = b[k] / a[k]
    return abs(abs(ph) - 1) < 1e-9 and np.allclose(a * ph, b, rtol=0, atol=tol)


def expm_h(H):
    """exp(-i H) for Hermitian H (eigendecomposition)."""
    w, V = np.linalg.eigh(H)
    return (V * np.exp(-1j * w)) @ V.conj().T


# ---------------------------------------------------------------- textbook definitions of the irrational entries
A_VEC = np.array([1, np.exp(1j * np.pi / 4)]) / np.sqrt(2)


def sigma_t(levels, axis):
    p = {"01": (0, 1), "12": (1, 2), "02": (0, 2)}[levels]
    m = PAULI["ixyz".index(axis)]
    out = np.zeros((3, 3), dtype=np.complex128)
    for i in range(2):
        for j in range(2):
            out[p[i], p[j]] = m[i, j]
    return out


def base_t(b):
    return np.eye(3, dtype=np.complex128) if b == "i" else sigma_t(b[:2], b[2])


def split_single(name):
    """'01x12y90' -> (base0, base1, angle)."""
    parts, cur = [], ""
    for ch in name:
        cur += ch
        if ch in "ixyz" and len(parts) < 2:
            parts.append(cur)
            cur = ""
    return parts[0], parts[1], cur


def hamiltonian_tt(name):
    H = np.zeros((9, 9), dtype=np.complex128)
    for single in name.split("_"):
        b0, b1, ang = split_single(single)
        H = H + 0.5 * np.deg2rad(float(ang)) * np.kron(base_t(b0), base_t(b1))
    return H


def textbook_unitary(sys, name):
    """unitaries of the entries without a rational description."""
    if sys == "q":
        return {"piover8": np.diag([1, np.exp(1j * np.pi / 4)]), "piover8_daggered": np.diag([1, np.exp(-1j * np.pi / 4)])}[name]
    if sys == "t":
        return expm_h(0.5 * np.deg2rad(float(name[3:])) * sigma_t(name[:2], name[2]))
    if sys == "tt":
        return expm_h(hamiltonian_tt(name))
    raise KeyError(name)


class Ctx:
    def __init__(self, chk):
        self.chk = chk
        self.vec = {}       # (sys, name) -> exact pure vector
        self.unit = {}      # (sys, name, ids) -> exact unitary
        self.hs = {}        # (sys, name, ids) -> exact HS (library coordinates)
        self.names = {}     # (cat, sys) -> set of names of the specification
        self.tokens = {}    # (cat, sys, joined name) -> token sequence


def lib_names(cat, sys):
    from quara.objects import state_typical as st, povm_typical as pt, gate_typical as gt, mprocess_typical as mt
    from quara.objects import state_ensemble_typical as et
    suffix = {"q": "1qubit", "qq": "2qubit", "qqq": "3qubit", "t": "1qutrit", "tt": "2qutrit"}[sys]
    if cat == "state":
        return list(getattr(st, "get_state_names_" + suffix)())
    if cat == "povm":
        return list(getattr(pt, "get_povm_names_" + suffix)())
    if cat == "gate":
        return list(getattr(gt, "get_gate_names_" + suffix)())
    if cat == "ensemble":
        return list(et.get_state_ensemble_names()) if sys == "q" else []
    return None


# ---------------------------------------------------------------- per-kind replays
def token_vec(ctx, sys, tok):
    if tok == "a":
        return A_VEC
    fs = "t" if sys in ("t", "tt") else "q"
    return ctx.vec[(fs, tok)]


def expected_vec(ctx, sys, name):
    key = (sys, join(name))
    if key in ctx.vec:
        return ctx.vec[key]
    out = np.ones(1, dtype=np.complex128)
    for tok in name:
        out = np.kron(out, token_vec(ctx, sys, tok))
    return out


def check_state(ctx, sys, name, h=None):
    from quara.objects import state_typical as st
    from quara.objects.qoperation_typical import generate_qoperation, generate_qoperation_object
    chk, nm, c = ctx.chk, join(name), csys_of(sys)
    chk.count(1, ("state", sys, nm))

    def bad(clause, msg):
        chk.violation("state:%s:%s:%s" % (clause, sys, nm), msg, dict(kind="state", sys=sys, name=nm, clause=clause))
    try:
        want = expected_vec(ctx, sys, name)
        psv = st.generate_state_object_from_state_name_object_name(nm, "pure_state_vector")
        dm = generate_qoperation_object(mode="state", name=nm, object_name="density_mat")
        dmv = generate_qoperation_object(mode="state", name=nm, object_name="density_matrix_vector", c_sys=c)
        s = generate_qoperation("state", nm, c)
        s2 = st.generate_state_from_name(c, nm)
    except Exception as e:
        bad("exception", "listed state name cannot be generated: %r" % e)
        return
    rho = np.outer(want, want.conj())
    if not same_ray(psv, want):
        bad("pure_state_vector", "pure state vector differs from the textbook vector")
    if not close(dm, rho):
        bad("density_mat", "density matrix is not |psi><psi| of the textbook vector")
    cw = coef(sys, rho)
    if np.max(np.abs(cw.imag)) > 1e-12:
        raise core.MachineryError("complex coefficients for a Hermitian matrix")
    if h is not None and not close(np.asarray(h) * np.sqrt(coords.nu_of(SYS[sys])), cw.real, 1e-12):
        raise core.MachineryError("specification H-coordinates and numpy coefficients disagree for " + nm)
    if not close(dmv, cw.real):
        bad("density_matrix_vector", "coefficient vector differs from the expansion of the density matrix")
    if not close(s.vec, cw.real) or not close(s2.vec, cw.real):
        bad("state", "State.vec differs from the expansion of the density matrix")
    if not close(s.to_density_matrix(), rho):
        bad("state:to_density_matrix", "State.to_density_matrix differs from |psi><psi|")
    if not s.is_physical():
        bad("physical", "catalogued state is judged non-physical")


def check_povm(ctx, sys, name, elems=None):
    from quara.objects import povm_typical as pt
    from quara.objects.qoperation_typical import generate_qoperation, generate_qoperation_object
    chk, nm, c = ctx.chk, join(name), csys_of(sys)
    chk.count(1, ("povm", sys, nm))

    def bad(clause, msg):
        chk.violation("povm:%s:%s:%s" % (clause, sys, nm), msg, dict(kind="povm", sys=sys, name=nm, clause=clause))
    try:
        mats = generate_qoperation_object(mode="povm", name=nm, object_name="matrices")
        vecs = pt.generate_povm_object_from_povm_name_object_name(nm, "vectors", basis=c.basis())
        p = generate_qoperation("povm", nm, c)
        p2 = pt.generate_povm_from_name(nm, c)
    except Exception as e:
        bad("exception", "listed POVM name cannot be generated: %r" % e)
        return
    want = [cmatx(e) for e in elems]
    if len(mats) != len(want) or any(not close(m, w) for m, w in zip(mats, want)):
        bad("matrices", "POVM matrices differ from the textbook projectors (or their order)")
    cw = [coef(sys, w).real for w in want]
    if len(vecs) != len(cw) or any(not close(v, w) for v, w in zip(vecs, cw)):
        bad("vectors", "POVM coefficient vectors differ from the expansion of the textbook elements")
    if len(p.vecs) != len(cw) or any(not close(v, w) for v, w in zip(p.vecs, cw)) or any(not close(v, w) for v, w in zip(p2.vecs, cw)):
        bad("povm", "Povm.vecs differ from the expansion of the textbook elements")
    if not p.is_physical():
        bad("physical", "catalogued POVM is judged non-physical")
    rank1 = all(tok != "z2" for tok in name)
    try:
        psvs = pt.generate_povm_object_from_povm_name_object_name(nm, "pure_state_vectors")
        if not rank1:
            bad("pure_state_vectors:not_rank1", "pure state vectors returned for a POVM that is not rank one")
        elif len(psvs) != len(want) or any(not close(np.outer(v, np.conj(v)), w) for v, w in zip(psvs, want)):
            bad("pure_state_vectors", "projectors of the pure state vectors differ from the POVM elements")
    except ValueError as e:
        if rank1:
            bad("pure_state_vectors:exception", "%r" % e)
    except Exception as e:
        bad("pure_state_vectors:exception", "%r" % e)


def gate_forms(sys, nm, ids):
    """(unitary, gate_mat, Gate, hamiltonian_vec, hamiltonian_mat, lindbladian_mat, EffectiveLindbladian)."""
    from quara.objects.qoperation_typical import generate_qoperation, generate_qoperation_object, generate_effective_lindbladian_object
    c = csys_of(sys)
    dims = list(SYS[sys])
    ids = list(ids) if ids else None
    u = generate_qoperation_object(mode="gate", name=nm, object_name="unitary_mat", dims=dims, ids=ids)
    gm = generate_qoperation_object(mode="gate", name=nm, object_name="gate_mat", dims=dims, ids=ids)
    g = generate_qoperation("gate", nm, c, ids=ids)
    hv = generate_effective_lindbladian_object(nm, "hamiltonian_vec", dims=dims, ids=ids)
    hm = generate_effective_lindbladian_object(nm, "hamiltonian_mat", dims=dims, ids=ids)
    lm = generate_effective_lindbladian_object(nm, "effective_lindbladian_mat", dims=dims, ids=ids)
    el = generate_effective_lindbladian_object(nm, "effective_lindbladian", dims=dims, ids=ids, c_sys=c)
    return u, gm, g, hv, hm, lm, el


def check_gate_forms(sys, nm, ids, want_u, want_hs, lindblad=True):
    """returns a list of (clause, message); pure function so that it can run in worker processes."""
    out = []
    try:
        u, gm, g, hv, hm, lm, el = gate_forms(sys, nm, ids)
    except Exception as e:
        return [("exception", "listed gate name cannot be generated: %r" % e)]
    D = int(np.prod(SYS[sys]))
    shapes = dict(unitary_mat=(np.shape(u), (D, D)), gate_mat=(np.shape(gm), (D * D, D * D)), gate=(np.shape(g.hs), (D * D, D * D)),
                  hamiltonian_vec=(np.shape(hv), (D * D,)), hamiltonian_mat=(np.shape(hm), (D, D)),
                  effective_lindbladian_mat=(np.shape(lm), (D * D, D * D)), effective_lindbladian=(np.shape(el.hs), (D * D, D * D)))
    wrong = ["%s has shape %s, the system needs %s" % (k, a, b) for k, (a, b) in sorted(shapes.items()) if tuple(a) != b]
    if wrong:
        # a form of the wrong size cannot be compared entry by entry: it is the finding
        return [("shape", "; ".join(wrong))]
    d = u.shape[0]
    if not close(u @ u.conj().T, np.eye(d)):
        out.append(("unitary", "unitary_mat is not unitary"))
    if want_u is not None and not same_ray(u, want_u, 1e-9):
        out.append(("unitary_mat", "unitary differs from the textbook unitary (beyond a global phase)"))
    hs_u = hs_of_kraus(sys, [u])
    if np.max(np.abs(hs_u.imag)) > 1e-10 or not close(gm, hs_u.real, 1e-9):
        out.append(("gate_mat", "HS matrix differs from the conjugation by the catalogued unitary"))
    if want_hs is not None and not close(gm, want_hs, 1e-9):
        out.append(("gate_mat:exact", "HS matrix differs from the exact HS matrix of the textbook unitary"))
    if not close(g.hs, gm, 1e-9):
        out.append(("gate", "Gate.hs differs from gate_mat"))
    if not g.is_physical(1e-8, 1e-8):
        out.append(("physical", "catalogued gate is judged non-physical"))
    if lindblad:
        if not close(hm, hm.conj().T):
            out.append(("hamiltonian_mat", "catalogued Hamiltonian is not Hermitian"))
        if not same_ray(expm_h(hm), u, 1e-8):
            out.append(("hamiltonian_mat:exp", "exp(-iH) of the catalogued Hamiltonian differs from the catalogued unitary"))
        if not close(hv, coef(sys, hm).real, 1e-9):
            out.append(("hamiltonian_vec", "Hamiltonian vector differs from the expansion of the Hamiltonian matrix"))
        # effective Lindbladian of the Hamiltonian: -i[H, .]
        B = nbasis(sys)
        want_l = np.array([[np.trace(B[a].conj().T @ (-1j * (hm @ B[b] - B[b] @ hm))) for b in range(len(B))] for a in range(len(B))])
        if not close(lm, want_l.real, 1e-9):
            out.append(("effective_lindbladian_mat", "Lindbladian matrix differs from -i[H, .] of the catalogued Hamiltonian"))
        if not close(el.hs, lm, 1e-9):
            out.append(("effective_lindbladian", "EffectiveLindbladian.hs differs from effective_lindbladian_mat"))
        if not el.is_physical(1e-8, 1e-8):
            out.append(("effective_lindbladian:physical", "catalogued Lindbladian judged non-physical"))
        try:
            exp_hs = el.to_gate().hs
        except ValueError:
            # to_gate() builds the gate with the library's default tolerance (1e-13); for 81 x 81 matrices the smallest
            # Choi eigenvalue of expm(L) can be -1.1e-13 (seen for 01z01z180_02y02y180).  Rounding at the default
            # tolerance is not a catalogue error: exponentiate here and compare at the check's own tolerance.
            from scipy.linalg import expm
            exp_hs = expm(np.asarray(el.hs, dtype=float))
        if not close(exp_hs, gm, 1e-8):
            out.append(("effective_lindbladian:exp", "exponential of the catalogued Lindbladian differs from the catalogued gate"))
    return out


def gate_worker(args):
    sys, nm, ids, want_u, want_hs, lindblad = args
    try:
        if want_u is None:
            want_u = textbook_unitary(sys, nm)
        return sys, nm, ids, check_gate_forms(sys, nm, ids, want_u, want_hs, lindblad)
    except Exception as e:          # pragma: no cover
        return sys, nm, ids, [("machinery", "%r" % e)]


def check_mprocess(ctx, sys, name, kraus):
    from quara.objects import mprocess_typical as mt
    from quara.objects.qoperation_typical import generate_qoperation, generate_qoperation_object
    chk, nm, c = ctx.chk, join(name), csys_of(sys)
    chk.count(1, ("mprocess", sys, nm))

    def bad(clause, msg):
        chk.violation("mprocess:%s:%s:%s" % (clause, sys, nm), msg, dict(kind="mprocess", sys=sys, name=nm, clause=clause))
    want = [[cmatx(k) for k in ks] for ks in kraus]
    try:
        ks = generate_qoperation_object(mode="mprocess", name=nm, object_name="set_kraus_matrices")
        hss = generate_qoperation_object(mode="mprocess", name=nm, object_name="hss", c_sys=c)
        mp = generate_qoperation("mprocess", nm, c)
        mp2 = mt.generate_mprocess_from_name(c, nm)
    except Exception as e:
        bad("exception", "listed measurement-process name cannot be generated: %r" % e)
        return
    if len(ks) != len(want) or any(len(a) != len(b) or any(not close(x, y) for x, y in zip(a, b)) for a, b in zip(ks, want)):
        bad("set_kraus_matrices", "Kraus sets differ from the textbook Kraus sets")
    whs = [hs_of_kraus(sys, w) for w in want]
    if any(np.max(np.abs(w.imag)) > 1e-12 for w in whs):
        raise core.MachineryError("complex HS matrix for a Kraus set")
    whs = [w.real for w in whs]
    for label, got in (("hss", hss), ("mprocess", mp.hss), ("mprocess:from_name", mp2.hss)):
        if len(got) != len(whs) or any(not close(a, b, 1e-9) for a, b in zip(got, whs)):
            bad(label, "HS matrices differ from those of the textbook Kraus sets")
    if not mp.is_physical():
        bad("physical", "catalogued measurement process is judged non-physical")
    if nm.endswith("-type1") and "parity" not in nm:
        try:
            vs = mt.generate_mprocess_object_from_mprocess_name_object_name(nm, "set_pure_state_vectors")
            got = [[np.outer(v, np.conj(v)) for v in vv] for vv in vs]
            if len(got) != len(want) or any(len(a) != len(b) or any(not close(x, y) for x, y in zip(a, b)) for a, b in zip(got, want)):
                bad("set_pure_state_vectors", "projectors of the pure state vectors differ from the Kraus operators")
        except Exception as e:
            bad("set_pure_state_vectors:exception", "%r" % e)


def check_ensemble(ctx, nm):
    from quara.objects.qoperation_typical import generate_qoperation_object
    chk, c = ctx.chk, csys_of("q")
    chk.count(1, ("ensemble", nm))
    try:
        ens = generate_qoperation_object(mode="state_ensemble", name=nm, object_name="state_ensemble", c_sys=c)
    except Exception as e:
        chk.violation("ensemble:exception:%s" % nm, "listed state-ensemble name cannot be generated: %r" % e, dict(kind="ensemble", name=nm))
        return
    ps = np.asarray(ens.prob_dist.ps, dtype=float)
    if np.min(ps) < -1e-12 or abs(np.sum(ps) - 1) > 1e-12 or not all(s.is_physical() for s in ens.states) or len(ps) != len(ens.states):
        chk.violation("ensemble:physical:%s" % nm, "catalogued ensemble is not physical", dict(kind="ensemble", name=nm))


def check_action(ctx, sys, gname, ids, pairs):
    from quara.objects.operators import compose_qoperations
    chk, c = ctx.chk, csys_of(sys)
    try:
        g = qobjs.gen("gate", gname, c, ids=list(ids) if ids else None)
    except Exception as e:
        chk.violation("action:exception:%s:%s:%s" % (sys, gname, ids), "%r" % e, dict(kind="action", sys=sys, gate=gname, ids=ids))
        return
    for a, b in pairs:
        chk.count(1, None)
        sa, sb = qobjs.gen("state", join(a), c), qobjs.gen("state", join(b), c)
        img = compose_qoperations(g, sa)
        if not close(img.vec, sb.vec, 1e-9):
            chk.violation("action:%s:%s:%s" % (sys, gname, "".join(map(str, ids))),
                          "%s(ids=%s) maps %s to something else than %s" % (gname, ids, join(a), join(b)),
                          dict(kind="action", sys=sys, gate=gname, ids=ids, input=join(a), output=join(b)))
            return


def check_reject(ctx, cat, sys, name, valid_somewhere):
    """a name outside the catalogue of (cat, sys) must raise instead of yielding an object."""
    from quara.objects.qoperation_typical import generate_qoperation, generate_qoperation_object
    chk, nm, c = ctx.chk, join(name), csys_of(sys)
    chk.count(1, None)
    mode = {"state": "state", "povm": "povm", "gate": "gate", "mprocess": "mprocess", "ensemble": "state_ensemble"}[cat]
    attempts = []
    if cat == "gate":
        for ids in (None, [0, 1], [0, 1, 2]):
            attempts.append(("gate", lambda ids=ids: generate_qoperation("gate", nm, c, ids=ids)))
    elif cat == "ensemble":
        attempts.append(("state_ensemble", lambda: generate_qoperation_object(mode=mode, name=nm, object_name="state_ensemble", c_sys=c)))
    else:
        attempts.append((mode, lambda: generate_qoperation(mode, nm, c)))
    if not valid_somewhere:
        free = {"state": ["pure_state_vector", "density_mat"], "povm": ["matrices"], "gate": ["unitary_mat", "gate_mat"],
                "mprocess": ["set_kraus_matrices"], "ensemble": []}[cat]
        for form in free:
            attempts.append((form, lambda form=form: generate_qoperation_object(mode=mode, name=nm, object_name=form, dims=list(SYS[sys]))))
    for form, fn in attempts:
        try:
            obj = fn()
        except Exception:
            continue
        chk.violation("reject:%s:%s:%s:%s" % (cat, sys, form, nm),
                      "%s name %r is not catalogued for system %s but form %s yields %s" % (cat, nm, sys, form, type(obj).__name__),
                      dict(kind="reject", cat=cat, sys=sys, name=nm, form=form))


# ---------------------------------------------------------------- driver
def run(chk):
    import time
    t0 = time.time()
    def lap(label):
        if os.environ.get("VERIF_DEBUG"):
            print("[c17] %s %.1fs" % (label, time.time() - t0), flush=True)
    t = chk.tier
    rs = np.random.RandomState(chk.seed % (2 ** 31))
    r = chk.tlc("mc/MC_C17", "mc/MC_C17_%s.cfg" % t, workers=16, label="MC_C17 " + t)
    ctx = Ctx(chk)
    items = r.emitted
    by = {}
    for it in items:
        by.setdefault(it["k"], []).append(it)
    # exact tables first
    for it in by.get("state", []):
        v = cvec(it["out"]["vec"]) / np.sqrt(it["out"]["s"])
        ctx.vec[(it["sys"], join(it["name"]))] = v
    for it in by.get("gate", []):
        key = (it["sys"], it["name"][0], tuple(it["ids"]))
        ctx.unit[key] = cmatx(it["out"]["u"]) / np.sqrt(it["out"]["s"])
        if it["out"]["g"]:
            ctx.hs[key] = coords.hs_from_h(SYS[it["sys"]], coords.rmat(it["out"]["g"]))
    lap('tlc')
    # grammars
    all_names = {}
    for it in by.get("names", []):
        cat, sys = it["cat"], it["sys"]
        spec = set(join(n) for n in it["out"]["names"])
        for n in it["out"]["names"]:
            ctx.tokens[(cat, sys, join(n))] = list(n)
        if cat == "gate" and sys == "tt":
            spec |= set(a + "_" + b for a in list(spec) for b in list(spec) if a != b)
        if len(spec) != it["out"]["count"]:
            raise core.MachineryError("name count mismatch for %s/%s" % (cat, sys))
        ctx.names[(cat, sys)] = spec
        all_names.setdefault(cat, set()).update(spec)
        lib = lib_names(cat, sys)
        if lib is None:
            continue
        chk.count(1, ("names", cat, sys))
        if len(lib) != len(set(lib)):
            chk.violation("names:duplicate:%s:%s" % (cat, sys), "the library lists a name twice", dict(cat=cat, sys=sys))
        for nm in sorted(set(lib) - spec)[:5]:
            chk.violation("names:extra:%s:%s:%s" % (cat, sys, nm), "library lists %r, which the grammar does not contain" % nm, dict(cat=cat, sys=sys, name=nm))
        for nm in sorted(spec - set(lib))[:5]:
            chk.violation("names:missing:%s:%s:%s" % (cat, sys, nm), "grammar name %r is not listed by the library" % nm, dict(cat=cat, sys=sys, name=nm))
    from quara.objects import mprocess_typical as mt, state_typical as st, povm_typical as pt, gate_typical as gt
    mp_spec = set().union(*[ctx.names.get(("mprocess", s), set()) for s in SYS])
    if set(mt.get_mprocess_names_type1() + mt.get_mprocess_names_type2()) != mp_spec:
        chk.violation("names:mprocess", "measurement-process name lists differ from the grammar", dict(cat="mprocess"))
    for cat, fn in (("state", st.get_state_names), ("povm", pt.get_povm_names)):
        if set(fn()) != all_names[cat]:
            chk.violation("names:union:%s" % cat, "the complete name list differs from the union of the per-system grammars", dict(cat=cat))
    lap('grammars')
    # states: every grammar name (exact ones carry H-coordinates)
    hmap = {(it["sys"], join(it["name"])): coords.rvec(it["out"]["h"]) for it in by.get("state", [])}
    systems = sorted(set(it["sys"] for it in by.get("names", [])))
    for sys in systems:
        for nm in sorted(ctx.names[("state", sys)]):
            name = ctx.tokens[("state", sys, nm)]
            check_state(ctx, sys, name, hmap.get((sys, nm)))
            chk.replayed += 1
    lap('states')
    for it in by.get("povm", []):
        check_povm(ctx, it["sys"], it["name"], it["out"]["elems"])
        chk.replayed += 1
    lap('povms')
    for it in by.get("mprocess", []):
        check_mprocess(ctx, it["sys"], it["name"], it["out"]["kraus"])
        chk.replayed += 1
    for nm in sorted(ctx.names.get(("ensemble", "q"), [])):
        check_ensemble(ctx, nm)
    lap('mprocess')
    # gates: exact entries, irrational entries, identity
    def report(sys, nm, ids, res):
        for clause, msg in res:
            if clause == "machinery":
                raise core.MachineryError(msg)
            chk.violation("gate:%s:%s:%s:%s" % (clause, sys, nm, "".join(map(str, ids or []))), msg, dict(kind="gate", sys=sys, name=nm, ids=list(ids or []), clause=clause))
    jobs = []
    for it in by.get("gate", []):
        sys, nm, ids = it["sys"], it["name"][0], tuple(it["ids"])
        chk.count(1, ("gate", sys, nm, ids))
        jobs.append((sys, nm, ids, ctx.unit[(sys, nm, ids)], ctx.hs.get((sys, nm, ids)), True))
        chk.replayed += 1
    exact = set((it["sys"], it["name"][0]) for it in by.get("gate", []))
    for sys in [s for s in systems if s != "tt"]:
        for nm in sorted(ctx.names[("gate", sys)]):
            if (sys, nm) in exact:
                continue
            chk.count(1, ("gate", sys, nm))
            jobs.append((sys, nm, None, None, None, True))
        chk.count(1, ("gate", sys, "identity"))
        jobs.append((sys, "identity", None, np.eye(int(np.prod(SYS[sys]))), np.eye(int(np.prod(SYS[sys])) ** 2), True))
    lap('gates')
    # relations among the irrational entries
    from quara.objects.qoperation_typical import generate_qoperation_object as gobj
    cq, ct = csys_of("q"), csys_of("t")
    t8, t8d, ph = (qobjs.gen("gate", n, cq).hs for n in ("piover8", "piover8_daggered", "phase"))
    if not close(t8 @ t8, ph, 1e-9) or not close(t8 @ t8d, np.eye(4), 1e-9):
        chk.violation("gate:relation:piover8", "piover8^2 != phase or piover8 piover8_daggered != identity", dict(kind="relation"))
    a_state = qobjs.gen("state", "a", cq)
    if not close(a_state.vec, t8 @ qobjs.gen("state", "x0", cq).vec, 1e-9):
        chk.violation("state:relation:a", "state a is not piover8 applied to x0", dict(kind="relation"))
    if "t" in systems:
        for la in ("01x", "01y", "01z", "12x", "12y", "12z", "02x", "02y", "02z"):
            g90, g180 = qobjs.gen("gate", la + "90", ct).hs, qobjs.gen("gate", la + "180", ct).hs
            chk.count(1, None)
            if not close(g90 @ g90, g180, 1e-9):
                chk.violation("gate:relation:%s" % la, "%s90^2 != %s180" % (la, la), dict(kind="relation", name=la))
    lap('relations')
    # 2-qutrit gates
    if "tt" in systems:
        names = sorted(ctx.names[("gate", "tt")])
        singles = [n for n in names if "_" not in n]
        if t == "quick":
            pairs = [n for n in names if "_" in n]
            todo = singles[::6] + [pairs[i] for i in rs.choice(len(pairs), size=90, replace=False)]
            every = 60
        else:
            todo = names
            every = 400
        for i, nm in enumerate(todo):
            chk.count(1, ("gate", "tt", nm) if "_" not in nm else None)
            jobs.append(("tt", nm, None, None, None, i % every == 0))
    jobs.sort(key=lambda j: -len(SYS[j[0]]) * int(np.prod(SYS[j[0]])) - (50 if j[5] and j[0] == "tt" else 0))
    with ProcessPoolExecutor(max_workers=min(16, os.cpu_count() or 1)) as ex:
        for sys, nm, ids, res in ex.map(gate_worker, jobs, chunksize=2):
            report(sys, nm, ids, res)
    lap('tt')
    # named actions
    for it in by.get("action", []):
        check_action(ctx, it["sys"], it["name"][0], it["ids"], it["out"]["pairs"])
        chk.replayed += 1
    lap('actions')
    # near misses
    for it in by.get("reject", []):
        nm = join(it["name"])
        check_reject(ctx, it["cat"], it["sys"], it["name"], nm in all_names.get(it["cat"], set()))
        chk.replayed += 1
    lap('rejects')
    chk.sample(dict(kinds={k: len(v) for k, v in by.items()}))
    chk.assumptions += [
        "textbook definitions as written in QCatalogue.tla (scaled Gaussian-integer vectors / unitaries); sign conventions exp(-i theta/2 sigma) for rotations",
        "entries without a rational description (state a, pi/8 gates, 90-degree qutrit rotations, 2-qutrit exponentials) are compared with the same formulas evaluated in numpy and with relational identities",
        "2-qutrit gate names: quick tier checks every third single name and a seeded sample of pairs, thorough tier all 39204",
    ]
    return chk.finish(exhaustive=(t != "quick"), rule="every catalogue item emitted by TLC (names, exact states / gates / POVMs / measurement processes, action tables, near misses); distinct = catalogue entries")
