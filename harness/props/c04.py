"""C04 - equality and inequality projections are nearest-point projections.

TLC (MC_C04 over QProj): spectral clipping on every grid vector is feasible, idempotent, fixes exactly
the feasible points and satisfies the variational inequality against every feasible grid competitor;
the equality projections of the four types (exact rationals, H-coordinates) are feasible, idempotent,
fix exactly the feasible objects and leave a residual orthogonal to every direction of the constraint
in the stacked-parameter metric.  Binding: every emitted case is concretised (spectral vectors in
seeded frames for all fragments of matching size; rational objects through coords) and
calc_proj_ineq_constraint / calc_proj_eq_constraint, their static *_with_var forms under both flags
and the func_calc_proj_* closures must return the exact projection; object-level = variable-level;
no argument is modified; the variational inequality also holds against seeded NON-commuting feasible
competitors (transcription of the specification's invariant to floats)."""
import numpy as np

from harness import core, coords, spectral

SYS = (2,)


def snap(*arrs):
    return [np.array(a, copy=True) for a in arrs]


def unchanged(before, after):
    return all(np.array_equal(b, a) for b, a in zip(before, after))


def psd_competitor(frag, rs):
    """a random feasible (PSD) object of the fragment's type, NOT sharing its frame."""
    from quara.objects.state import State
    d = frag.d
    if frag.typ == "state":
        A = rs.randn(d, d) + 1j * rs.randn(d, d)
        return State(frag.c, spectral.vec_of(frag.shape, A @ A.conj().T), is_physicality_required=False)
    return None


def stacked(o):
    return np.asarray(o.to_stacked_vector(), dtype=float).ravel()


def run_ineq(chk, case, rs, frags):
    u = coords.rvec(case["u"])
    want = coords.rvec(case["proj"])
    n = len(u)
    for fr in frags[n]:
        tag = "%s:%s:n%d" % (fr.typ, fr.shape, n)
        obj = fr.build(u)
        chk.count(1, (tag, tuple(case["u"][i][0] for i in range(n))))
        before = stacked(obj).copy()
        try:
            res = obj.calc_proj_ineq_constraint()
        except Exception as e:
            chk.violation("ineq:exception:" + tag, "%r" % e, case)
            continue
        got, off = fr.read(res)
        if not coords.close(got, want, 1e-9) or off > 1e-8:
            chk.violation("ineq:value:" + tag, "calc_proj_ineq_constraint: spectrum %s, exact clipping %s (off-fragment %.2g)" % (np.round(got, 6), want, off), case)
        if not np.array_equal(stacked(obj), before):
            chk.violation("ineq:mutation:" + tag, "calc_proj_ineq_constraint modified its operand", case)
        # positive homogeneity (MC_C04!IneqHomogeneous) with non-default, mutually different tolerances on the object:
        # the stopping threshold of the physical projection and the truncation tolerance play no role in a single clipping
        for c_ in (1e-3, 1e2):
            try:
                o2 = fr.build(c_ * u, eps_proj_physical=1e-2, eps_truncate_imaginary_part=1e-11 * max(c_, 1.0))
                g2, off2 = fr.read(o2.calc_proj_ineq_constraint())
                if not coords.close(g2, c_ * want, 1e-10 * max(c_, 1e-2)) or off2 > 1e-8 * max(c_, 1.0):
                    chk.violation("ineq:scaled:" + tag, "calc_proj_ineq_constraint of the input scaled by %g (object built with eps_proj_physical=1e-2): spectrum %s, exact clipping %s"
                                  % (c_, g2, c_ * want), case)
            except Exception as e:
                chk.violation("ineq:scaled:exception:" + tag, "scale %g: %r" % (c_, e), case)
        # variable-level, flag off: var = stacked vector
        cls = type(obj)
        v = before.copy()
        keep = v.copy()
        try:
            r = np.asarray(cls.calc_proj_ineq_constraint_with_var(fr.c, v, on_para_eq_constraint=False))
            if not coords.close(r, stacked(res), 1e-9):
                chk.violation("ineq:var_vs_obj:nopara:" + tag, "variable-level inequality projection differs from the object-level one", case)
            if not np.array_equal(v, keep):
                chk.violation("ineq:mutation:var:" + tag, "calc_proj_ineq_constraint_with_var modified its argument", case)
            f2 = obj.func_calc_proj_ineq_constraint_with_var(False)
            r3 = np.asarray(f2(keep.copy()))
            if not coords.close(r3, stacked(res), 1e-9):
                chk.violation("ineq:closure_with_var:nopara:" + tag, "func_calc_proj_ineq_constraint_with_var(False) differs from the object-level projection", case)
            f = obj.func_calc_proj_ineq_constraint(False)
            r2 = np.asarray(f(keep.copy()))
            if not coords.close(r2, stacked(res), 1e-9):
                chk.violation("ineq:closure:nopara:" + tag, "func_calc_proj_ineq_constraint differs from the object-level projection", case)
        except Exception as e:
            chk.violation("ineq:var:exception:" + tag, "%r" % e, case)
        # flag on: only meaningful for operands on the equality constraint
        if abs(u.sum() - 1) < 1e-12:
            try:
                op = fr.build(u, on_para_eq_constraint=True)
                vp = np.asarray(op.to_var()).copy()
                keep = vp.copy()
                r = np.asarray(cls.calc_proj_ineq_constraint_with_var(fr.c, vp, on_para_eq_constraint=True))
                w = np.asarray(op.calc_proj_ineq_constraint().to_var())
                if not coords.close(r, w, 1e-9):
                    chk.violation("ineq:var_vs_obj:para:" + tag, "variable-level (flag on) differs from object-level", case)
                if not np.array_equal(vp, keep):
                    chk.violation("ineq:mutation:var:para:" + tag, "argument modified", case)
            except Exception as e:
                chk.violation("ineq:var:para:exception:" + tag, "%r" % e, case)
        # variational inequality against non-commuting competitors (states)
        z = psd_competitor(fr, rs)
        if z is not None:
            x, px, zz = before, stacked(res), stacked(z)
            val = float(np.dot(x - px, zz - px))
            if val > 1e-9 * (1 + np.dot(x, x)):
                chk.violation("ineq:variational:" + tag, "<x - Px, z - Px> = %.3g > 0 for a feasible competitor" % val, case)


def run_eq(chk, case):
    ty = case["type"]
    # dimension of the system: 2 = one qubit, 3 = one qutrit, 4 = two qubits
    sys_ = {2: (2,), 3: (3,), 4: (2, 2)}[case.get("d", 2)]
    builders = {"state": lambda v, **kw: coords.state_from_h(sys_, coords.rvec(v), **kw),
                "povm": lambda v, **kw: coords.povm_from_h(sys_, [coords.rvec(y) for y in v], **kw),
                "gate": lambda v, **kw: coords.gate_from_h(sys_, coords.rmat(v), **kw),
                "mprocess": lambda v, **kw: coords.mprocess_from_h(sys_, [coords.rmat(m) for m in v], **kw)}
    tag = ty + (":m%d" % len(case["v"]) if ty in ("povm", "mprocess") else "") + ("" if case.get("d", 2) == 2 else ":d%d" % case["d"])
    obj = builders[ty](case["v"])
    want = builders[ty](case["proj"])
    chk.count(1, (tag, str(case["v"])[:80]))
    before = stacked(obj).copy()
    try:
        res = obj.calc_proj_eq_constraint()
    except Exception as e:
        chk.violation("eq:exception:" + tag, "%r" % e, case)
        return
    if not coords.close(stacked(res), stacked(want), 1e-9):
        chk.violation("eq:value:" + tag, "calc_proj_eq_constraint differs from the exact projection (max dev %.3g)" % float(np.max(np.abs(stacked(res) - stacked(want)))), case)
    if not np.array_equal(stacked(obj), before):
        chk.violation("eq:mutation:" + tag, "calc_proj_eq_constraint modified its operand", case)
    if case["feasible"] and not coords.close(stacked(res), before, 1e-12):
        chk.violation("eq:fixed_point:" + tag, "a feasible object is changed by the equality projection", case)
    if not res.is_eq_constraint_satisfied(1e-10):
        chk.violation("eq:infeasible:" + tag, "the projection does not satisfy the equality constraint", case)
    # the outcome layout (shape) is bookkeeping: a grid layout of the same outcomes projects to the same matrices
    if ty == "mprocess" and len(case["v"]) in (4, 6):
        m = len(case["v"])
        for shape in ((2, m // 2), (m // 2, 2)):
            try:
                g = builders[ty](case["v"], shape=shape)
                rg = g.calc_proj_eq_constraint()
                if not coords.close(stacked(rg), stacked(want), 1e-9):
                    chk.violation("eq:value:%s:shape%dx%d" % (tag, shape[0], shape[1]),
                                  "calc_proj_eq_constraint of the same outcomes laid out as a %s grid differs from the exact projection (max dev %.3g)" % (shape, float(np.max(np.abs(stacked(rg) - stacked(want))))), case)
                if tuple(rg.shape) != tuple(shape):
                    chk.violation("eq:shape:%s" % tag, "the projection changed the outcome layout %s -> %s" % (shape, tuple(rg.shape)), case)
            except Exception as e:
                chk.violation("eq:exception:%s:shape" % tag, "%r" % e, case)
    # the memory layout of the arrays the object was built from is not part of its value
    if ty in ("gate", "mprocess"):
        from quara.objects.gate import Gate
        from quara.objects.mprocess import MProcess
        for lay, conv in (("column_major", np.asfortranarray), ("transposed_view", lambda a_: np.ascontiguousarray(a_.T).T)):
            try:
                ol = Gate(obj.composite_system, conv(obj.hs.copy()), is_physicality_required=False) if ty == "gate" else \
                    MProcess(obj.composite_system, [conv(h.copy()) for h in obj.hss], is_physicality_required=False)
                rl = ol.calc_proj_eq_constraint()
                il = ol.calc_proj_ineq_constraint()
                if not coords.close(stacked(rl), stacked(want), 1e-9) or not coords.close(stacked(il), stacked(obj.calc_proj_ineq_constraint()), 1e-9):
                    chk.violation("memory_layout:%s:%s" % (lay, tag), "projections of an object built from %s arrays differ from those of the same matrices in row-major memory" % lay.replace("_", " "), case)
            except Exception as e:
                chk.violation("memory_layout:exception:%s" % tag, "%r" % e, case)
    cls = type(obj)
    c = obj.composite_system
    for para in (False, True):
        try:
            if para:
                src = builders[ty](case["v"], on_para_eq_constraint=True)
                v = np.asarray(src.to_var()).copy()
                # under the built-in parametrisation every variable vector already satisfies the constraint
                w = v.copy()
            else:
                v = before.copy()
                w = stacked(want)
            keep = v.copy()
            r = np.asarray(cls.calc_proj_eq_constraint_with_var(c, v, on_para_eq_constraint=para))
            if not coords.close(r, w, 1e-9):
                chk.violation("eq:var:%s:%s" % ("para" if para else "nopara", tag), "calc_proj_eq_constraint_with_var differs from the exact projection", case)
            if not np.array_equal(v, keep):
                chk.violation("mutation:%s:eq_with_var:%s" % (ty, "para" if para else "nopara"), "calc_proj_eq_constraint_with_var modified its argument", case)
            # the variable-level closure, with the flag given explicitly on an object built with the default flag
            f2 = obj.func_calc_proj_eq_constraint_with_var(para)
            r3 = np.asarray(f2(keep.copy()))
            if not coords.close(r3, w, 1e-9):
                chk.violation("eq:closure_with_var:%s:%s" % ("para" if para else "nopara", tag), "func_calc_proj_eq_constraint_with_var(%s) differs from the exact projection" % para, case)
            f = obj.func_calc_proj_eq_constraint(para)
            r2 = np.asarray(f(keep.copy()))
            if not coords.close(r2, w, 1e-9):
                chk.violation("eq:closure:%s:%s" % ("para" if para else "nopara", tag), "func_calc_proj_eq_constraint differs from the exact projection", case)
        except Exception as e:
            chk.violation("eq:var:exception:%s:%s" % ("para" if para else "nopara", tag), "%r" % e, case)


def run(chk):
    rs = np.random.RandomState(chk.seed % (2 ** 31))
    t = chk.tier
    chk.tlc("mc/MC_C04", "mc/MC_C04_%s.cfg" % t, workers=16, label="MC_C04 " + t)
    r = chk.tlc("mc/MC_C04", "mc/MC_C04_%s_emit.cfg" % t, workers=16, label="MC_C04 emit " + t)
    frags = {n: spectral.fragments_for(n, rs, t) for n in (2, 3, 4)}
    for i, case in enumerate(r.emitted):
        if case["kind"] == "ineq":
            run_ineq(chk, case, rs, frags)
        else:
            run_eq(chk, case)
        chk.replayed += 1
        if i in (5, 200, 280):
            chk.sample({k: case[k] for k in case if k != "simplex"})
    chk.assumptions += [
        "inequality projection: exact value on the covariant fragments (spectra in seeded frames); against non-commuting competitors the classical theorem (spectral clipping = Frobenius projection onto the PSD cone) plus a sampled variational inequality",
        "variable-level forms under the built-in parametrisation are compared on operands that satisfy the equality constraint",
        "scales: the grid spans -2..2 in steps of 1/2 (x unit); other scales by homogeneity of both projections",
    ]
    return chk.finish(exhaustive=True, rule="every grid vector x every fragment of that size; every rational object of the family; distinct = (fragment, vector) / objects")
