"""C10 - constrained estimators return physical, consistent estimates.

TLC (MC_C10 over QOpt/QTomo): one-qubit state tomography with the tight tester set; for data whose
linear estimate has a rational Bloch length the nearest physical state is computed exactly
(simplex projection of the spectrum in the estimate's eigenframe); invariants: the linear estimate
fits the data, the closed form is a state, fixes physical estimates and satisfies the variational
inequality against the catalogue of physical states.  Every few-shot count vector is enumerated too.
Binding: for every emitted dataset the projected linear estimator (both projection orders) and loss
minimisation with the three projected-gradient algorithms x both loss families must return estimates
that are physical to stopping accuracy; the projected linear estimate and (tight testers) the
squared-error backtracking estimate must equal the exact nearest physical state; exact data of
physical objects (interior / boundary / pure) are returned; the projected linear estimate is the
physical projection of the linear estimate (relational, all data).  The other tomography types are
driven with few-shot / far-out data for the physicality postcondition and exact-data recovery."""
import io
import contextlib

import numpy as np

from harness import core, coords, qobjs
from harness.props import c08


def algos():
    from quara.minimization_algorithm.projected_gradient_descent_backtracking import (
        ProjectedGradientDescentBacktracking as A1, ProjectedGradientDescentBacktrackingOption as O1)
    from quara.minimization_algorithm.projected_gradient_descent_with_momentum import (
        ProjectedGradientDescentWithMomentum as A2, ProjectedGradientDescentWithMomentumOption as O2)
    from quara.minimization_algorithm.projected_fast_iterative_shrinkage_thresholding_algorithm import (
        ProjectedFastIterativeShrinkageThresholdingAlgorithm as A3, ProjectedFastIterativeShrinkageThresholdingAlgorithmOption as O3)
    return {"pgdb": (A1, O1), "momentum": (A2, O2), "fista": (A3, O3)}


def losses():
    from quara.loss_function.standard_qtomography_based_weighted_probability_based_squared_error import (
        StandardQTomographyBasedWeightedProbabilityBasedSquaredError as L1, StandardQTomographyBasedWeightedProbabilityBasedSquaredErrorOption as P1)
    from quara.loss_function.standard_qtomography_based_weighted_relative_entropy import (
        StandardQTomographyBasedWeightedRelativeEntropy as L2, StandardQTomographyBasedWeightedRelativeEntropyOption as P2)
    return {"se": (L1, P1), "re": (L2, P2)}


def quiet(f, *a, **k):
    buf = io.StringIO()
    with contextlib.redirect_stdout(buf):
        r = f(*a, **k)
    return r, buf.getvalue()


def physical_to(obj, tol):
    return obj.is_physical(atol_eq_const=tol, atol_ineq_const=tol)


def simplex_projection(w):
    """Euclidean projection of a real vector onto the probability simplex (the closed form QProj!ProjSimplexV states)."""
    u = np.sort(w)[::-1]
    css = np.cumsum(u)
    k = np.nonzero(u * np.arange(1, len(w) + 1) > (css - 1.0))[0][-1]
    tau = (css[k] - 1.0) / (k + 1.0)
    return np.maximum(w - tau, 0.0)


def nearest_state(lin):
    """nearest density matrix (Frobenius norm) of a Hermitian matrix: simplex projection of the spectrum in its eigenframe."""
    X = np.asarray(lin.to_density_matrix())
    X = (X + X.conj().T) / 2
    w, V = np.linalg.eigh(X)
    return (V * simplex_projection(w)) @ V.conj().T


def estimate_all(chk, qt, data, tag, expect_var=None, expect_tol=None, case=None, which=None, strict_se=False):
    """runs every constrained estimator on `data`; returns dict name -> estimated_var."""
    from quara.protocol.qtomography.standard.projected_linear_estimator import ProjectedLinearEstimator
    from quara.protocol.qtomography.standard.linear_estimator import LinearEstimator
    from quara.protocol.qtomography.standard.loss_minimization_estimator import LossMinimizationEstimator
    out = {}
    for order in ("eq_ineq", "ineq_eq"):
        name = "proj_linear:" + order
        try:
            (res, txt) = quiet(ProjectedLinearEstimator(mode_proj_order=order).calc_estimate, qt, [(n, f.copy()) for n, f in data])
            q = res.estimated_qoperation
            out[name] = np.asarray(res.estimated_var)
            chk.count(1, (tag, name))
            if not physical_to(q, 1e-6):
                chk.violation("unphysical:%s:%s" % (name, tag.split("|")[0]), "projected linear estimate is not physical to stopping accuracy [%s]" % tag, case)
            # the projected linear estimate is precisely the physical projection of the linear estimate
            lin = LinearEstimator().calc_estimate(qt, [(n, f.copy()) for n, f in data]).estimated_qoperation
            lin.set_mode_proj_order(order)
            pr, _ = quiet(lin.calc_proj_physical)
            if not coords.close(np.asarray(pr.to_var()), out[name], 1e-9):
                chk.violation("proj_linear_vs_projection:%s" % tag.split("|")[0], "projected linear estimate differs from calc_proj_physical of the linear estimate [%s]" % tag, case)
            # state tomography, any dimension: the physical projection has a closed form (spectral simplex projection)
            if type(q).__name__ == "State":
                want = nearest_state(lin)
                dev = float(np.max(np.abs(np.asarray(q.to_density_matrix()) - want)))
                if dev > 2e-5:
                    chk.violation("proj_linear_not_nearest:%s" % tag.split("|")[0],
                                  "projected linear estimate differs from the nearest density matrix of the linear estimate by %.3g [%s]" % (dev, tag), case)
        except Exception as e:
            chk.violation("exception:%s:%s" % (name, tag.split("|")[0]), "%r [%s]" % (e, tag), case)
    # the nearest physical point does not depend on the order in which Dykstra's sweeps visit the two constraints
    a, b = out.get("proj_linear:eq_ineq"), out.get("proj_linear:ineq_eq")
    if a is not None and b is not None and (a.shape != b.shape or np.max(np.abs(a - b)) > 2e-5):
        chk.violation("proj_linear:order_dependent:%s" % tag.split("|")[0],
                      "projected linear estimates of the two projection orders differ by %.3g [%s]" % (float(np.max(np.abs(a - b))) if a.shape == b.shape else float("nan"), tag), case)
    for an, (A, O) in algos().items():
        for ln, (L, P) in losses().items():
            name = "%s:%s" % (an, ln)
            if which is not None and name not in which:
                continue
            try:
                opt = O(on_algo_eq_constraint=True, on_algo_ineq_constraint=True, eps=1e-10,
                        mode_stopping_criterion_gradient_descent="sum_absolute_difference_variable")
                (res, txt) = quiet(LossMinimizationEstimator().calc_estimate, qt, [(n, f.copy()) for n, f in data], L(), P("identity"), A(), opt)
                out[name] = np.asarray(res.estimated_var)
                chk.count(1, (tag, name))
                if not physical_to(res.estimated_qoperation, 1e-5):
                    chk.violation("unphysical:%s:%s" % (name, tag.split("|")[0]), "estimate is not physical to stopping accuracy [%s]" % tag, case)
            except Exception as e:
                chk.violation("exception:%s:%s" % (name, tag.split("|")[0]), "%r [%s]" % (e, tag), case)
    # a small optimisation budget limits the gradient steps, not the physical projection inside them: the estimate of a run cut
    # short after a few steps is still physical (the two iteration limits are separate options)
    for an, (A, O) in algos().items():
        name = "%s:se:budget4" % an
        if which is not None and "%s:se" % an not in which:
            continue
        try:
            L, P = losses()["se"]
            opt = O(on_algo_eq_constraint=True, on_algo_ineq_constraint=True, eps=1e-10, max_iteration_optimization=4,
                    mode_stopping_criterion_gradient_descent="sum_absolute_difference_variable")
            (res, txt) = quiet(LossMinimizationEstimator().calc_estimate, qt, [(n, f.copy()) for n, f in data], L(), P("identity"), A(), opt)
            chk.count(1, (tag, name))
            if not physical_to(res.estimated_qoperation, 1e-5):
                chk.violation("unphysical:%s:%s" % (name, tag.split("|")[0]), "estimate of a run limited to 4 gradient steps is not physical [%s]" % tag, case)
        except Exception as e:
            chk.violation("exception:%s:%s" % (name, tag.split("|")[0]), "%r [%s]" % (e, tag), case)
    if expect_var is not None:
        for name, v in out.items():
            exact_for = name.startswith("proj_linear") or (strict_se and name == "pgdb:se")
            if not exact_for:
                continue
            tol = expect_tol if name.startswith("proj_linear") else 2e-4
            if v.shape != expect_var.shape or np.max(np.abs(v - expect_var)) > tol:
                chk.violation("estimate_value:%s:%s" % (name, tag.split("|")[0]),
                              "estimate %s, exact nearest physical point of the linear estimate %s [%s]" % (np.round(v, 6), np.round(expect_var, 6), tag), case)
    return out


def run(chk):
    t = chk.tier
    r = chk.tlc("mc/MC_C10", "mc/MC_C10_%s.cfg" % t, workers=16, label="MC_C10 " + t, timeout=3000)
    built = {}
    n_exact = 0
    for i, case in enumerate(r.emitted):
        tomo = case["tomo"]
        para = tomo["para"]
        if para not in built:
            qt = c08.build_tomo(tomo)
            _, _, scale = c08.lib_model(tomo, [[[0, 1]] * (3 if para else 4)], [[0, 1]])
            built[para] = (qt, scale)
        qt, scale = built[para]
        f = coords.rvec(case["f"])
        data = [(100, f[2 * a:2 * a + 2]) for a in range(3)]
        dt = case["data"]
        tag = "qst:%s|%s:%s:t%s" % ("para" if para else "nopara", dt["kind"], "".join(map(str, dt["dir"][:3])) if dt["kind"] == "pyth" else "-".join("%d_%d" % tuple(x) for x in dt["f"]),
                                    "%d_%d" % tuple(dt["t"]))
        expect = None
        if case["defined"]:
            x = coords.rvec(case["proj"])
            full = x * np.sqrt(2.0)          # library coordinates: c_a = x_a sqrt(nu_a), nu = 2
            expect = full[1:] if para else full
            n_exact += 1
        # loss-minimisation runs are the expensive part: all six on the Pythagorean data, pgdb only on few-shot data
        which = None if dt["kind"] == "pyth" and (t == "thorough" or i % 3 == 0) else {"pgdb:se", "pgdb:re"}
        estimate_all(chk, qt, data, tag, expect, 5e-6, dict(data=dt, para=para), which=which, strict_se=True)
        chk.replayed += 1
        if i in (4, 90):
            chk.sample(dict(data=dt, f=case["f"], lin=case["lin"], proj=case["proj"], physical=case["physical"]))
    chk.notes["datasets_with_exact_expectation"] = n_exact
    other_tomographies(chk, t)
    chk.assumptions += [
        "exact expected estimate only for one-qubit state tomography with tight testers and data whose linear estimate has a rational Bloch length; elsewhere physicality, exact-data recovery and projected-linear = projection(linear)",
        "accepted deviation: 5e-6 for projected linear (Dykstra threshold), 2e-4 for backtracking squared error (algorithm threshold 1e-10 on the step)",
    ]
    return chk.finish(rule="every dataset emitted by TLC (Pythagorean data x both flags; every few-shot count vector) x estimators; other tomographies with few-shot / far data; distinct = (dataset, estimator)")


def other_tomographies(chk, tier):
    """POVM / process / measurement-process tomography: physicality postcondition and exact-data recovery."""
    from quara.protocol.qtomography.standard.standard_povmt import StandardPovmt
    from quara.protocol.qtomography.standard.standard_qpt import StandardQpt
    from quara.protocol.qtomography.standard.standard_qmpt import StandardQmpt
    from quara.protocol.qtomography.standard.standard_qst import StandardQst
    rs = np.random.RandomState(chk.seed % (2 ** 31))
    c = qobjs.csys("qubit", 1)
    sts, pvs = qobjs.tester_states("qubit"), qobjs.tester_povms("qubit")
    c3 = qobjs.csys("qutrit", 1)
    cfgs = []
    for para in (False, True):
        cfgs.append(("povmt:m2", StandardPovmt(sts, 2, on_para_eq_constraint=para), [qobjs.gen("povm", "x", c), qobjs.gen("povm", "z", c)], para))
        cfgs.append(("povmt:m3", StandardPovmt(sts, 3, on_para_eq_constraint=para), [qobjs.povm3_qubit()], para))      # outcomes != dimension
        cfgs.append(("qpt", StandardQpt(sts, pvs, on_para_eq_constraint=para), [qobjs.gen("gate", "hadamard", c), qobjs.gen("gate", "x90", c)], para))
        if tier == "thorough" or para:
            cfgs.append(("qmpt:m2", StandardQmpt(sts, pvs, 2, on_para_eq_constraint=para), [qobjs.gen("mprocess", "z-type1", c)], para))
        if para:
            # three outcomes: the variable-level projection has to rebuild the implied first row from two other outcomes
            cfgs.append(("qmpt:m3", StandardQmpt(sts, pvs, 3, on_para_eq_constraint=para), [qobjs.povm3_qubit().generate_mprocess(mode_backaction=0)], para))
            cfgs.append(("qst:qutrit", StandardQst(qobjs.tester_povms("qutrit"), on_para_eq_constraint=para), [qobjs.gen("state", "01x0", c3), qobjs.gen("state", "02z1", c3)], para))
        # process tomography on a qutrit (row / block sizes d and d*d differ): exact data and few-shot data through the variable-level projection
        cfgs.append(("qpt:qutrit", StandardQpt(qobjs.tester_states("qutrit"), qobjs.tester_povms("qutrit"), on_para_eq_constraint=para), [qobjs.gen("gate", "01x90", c3)], para))
    for name, qt, trues, para in cfgs:
        tagp = "%s:%s" % (name, "para" if para else "nopara")
        sizes = [len(p) for p in qt.calc_prob_dists(trues[0])]
        # exact data of physical (boundary / pure) objects: projected linear and backtracking return the object
        for tr in trues:
            tr2 = tr.copy()
            tr2._on_para_eq_constraint = para
            pd = qt.calc_prob_dists(tr2)
            data = [(1000, np.asarray(p, dtype=float)) for p in pd]
            out = estimate_all(chk, qt, data, tagp + "|exact", which={"pgdb:se"} if name == "qpt:qutrit" else {"pgdb:se", "pgdb:re"}, case=dict(tomo=tagp))
            want = np.asarray(tr2.to_var())
            for en, v in out.items():
                tol = 5e-6 if en.startswith("proj_linear") else 5e-4
                if v.shape != want.shape or np.max(np.abs(v - want)) > tol:
                    chk.violation("exact_data:%s:%s" % (en, tagp), "exact data of a physical object are not returned (max dev %.3g)" % float(np.max(np.abs(v - want))), dict(tomo=tagp))
        # few-shot data with zeros and far-out data
        for trial in range(0 if (name == "qmpt:m3" and tier == "quick") else 1 if name == "qpt:qutrit" else 2 if tier == "quick" else 8):
            data = []
            for m in sizes:
                if name == "qpt:qutrit":
                    cts = rs.multinomial(20, np.ones(m) / m)
                    data.append((20, cts / 20.0))
                elif trial % 2 == 0:
                    cts = rs.multinomial(2, np.ones(m) / m)
                    data.append((2, cts / 2.0))
                else:
                    w = np.zeros(m)
                    w[rs.randint(m)] = 1.0
                    data.append((1, w))
            estimate_all(chk, qt, data, tagp + "|fewshot%d" % trial, which={"pgdb:se"} if name == "qpt:qutrit" else {"pgdb:se", "pgdb:re", "fista:se", "momentum:se"} if trial < 2 else {"pgdb:se"}, case=dict(tomo=tagp))
