"""C02 - all representations of one object denote the same operator.

TLC (MC_C02 over QConv): for every element of a complete basis of the input space (one-hot
H-coordinate matrices / vectors) plus dense small-integer inputs, per system: the three definitions of
the Choi matrix (algebraic sum over basis pairs, sum_kl G(E_kl) (x) E_kl, reshuffle of the row-major
computational HS matrix) agree; the Choi matrix of a real (Hermiticity-preserving) map is Hermitian;
Choi -> HS inverts HS -> Choi; row- and column-major computational forms are consistent; vector <->
matrix round trips; for the exact CP catalogue sum_i K_i (x) conj K_i is the computational HS matrix.
Binding: each emitted case is run through EVERY implementation the library offers for that
conversion and compared with the one exact answer; an exception where the conversion is defined is a
violation; linearity on dyadic combinations; Kraus conversion on the CP catalogue."""
import numpy as np

from harness import core, coords, qobjs


def cmat(m):
    return np.array([[coords.rat(e[0]) + 1j * coords.rat(e[1]) for e in row] for row in m], dtype=np.complex128)


def try_call(chk, key, case_tag, f, *a, **k):
    try:
        return f(*a, **k)
    except Exception as e:
        chk.violation("exception:%s" % key, "%s raised %r [%s]" % (key, e, case_tag), dict(case=case_tag, call=key))
        return None


def cmp(chk, key, tag, got, want, tol=1e-9):
    if got is None:
        return
    got = np.asarray(got.toarray() if hasattr(got, "toarray") else got)
    want = np.asarray(want)
    if got.shape != want.shape or not np.allclose(got, want, rtol=0, atol=tol * (1 + np.max(np.abs(want)))):
        dev = float(np.max(np.abs(got - want))) if got.shape == want.shape else -1
        chk.violation("value:%s" % key, "%s differs from the exact representation (max dev %.3g, shapes %s/%s) [%s]" % (key, dev, got.shape, want.shape, tag), dict(case=tag, call=key))


def gate_case(chk, case, store):
    from quara.objects import gate as G
    from quara.objects.gate import Gate
    from quara.objects.mprocess import MProcess
    sys = tuple(case["sys"])
    c = coords.csys_for(sys)
    d = int(np.prod(sys))
    Gh = coords.rmat(case["G"])
    hs = coords.hs_from_h(sys, Gh)
    hsrow = cmat(case["hsrow"])
    hscol = cmat(case["hscol"])
    # numpy transcription of QConv!ChoiReshuffle / ProcessMatrix; on the systems where TLC evaluates the
    # definitions itself the transcription is checked against TLC's values, on "light" systems it supplies them
    h4 = hsrow.reshape(d, d, d, d)                       # [i, j, k, l] = HS[(i,j),(k,l)]
    choi_np = h4.transpose(0, 2, 1, 3).reshape(d * d, d * d)   # Choi[(i,k),(j,l)] = HS[(i,j),(k,l)]
    proc_np = h4.transpose(0, 2, 1, 3).reshape(d * d, d * d)   # chi[(i,j),(k,l)] = HS[(i,k),(j,l)]
    if case["choi"]:
        choi = cmat(case["choi"])
        proc = cmat(case["process"])
        if not np.allclose(choi, choi_np, rtol=0, atol=1e-12) or not np.allclose(proc, proc_np, rtol=0, atol=1e-12):
            raise core.MachineryError("numpy transcription of the Choi / process-matrix re-indexing disagrees with the specification")
    else:
        choi, proc = choi_np, proc_np
    nz = np.argwhere(Gh != 0)
    tag = "sys%s:%s" % ("x".join(map(str, sys)), "hot%d_%d" % tuple(nz[0]) if len(nz) == 1 else "dense")
    sk = "x".join(map(str, sys))
    g = Gate(c, hs.copy(), is_physicality_required=False)
    chk.count(1, ("gate", tag))
    # HS -> Choi, three implementations + methods
    for name, f in (("to_choi_from_hs", G.to_choi_from_hs), ("to_choi_from_hs_with_dict", G.to_choi_from_hs_with_dict),
                    ("to_choi_from_hs_with_sparsity", G.to_choi_from_hs_with_sparsity)):
        cmp(chk, name + ":" + sk, tag, try_call(chk, name + ":" + sk, tag, f, c, hs.copy()), choi)
    for name in ("to_choi_matrix", "to_choi_matrix_with_dict", "to_choi_matrix_with_sparsity"):
        cmp(chk, "Gate." + name + ":" + sk, tag, try_call(chk, "Gate." + name + ":" + sk, tag, getattr(g, name)), choi)
    # Choi -> HS, three implementations
    for name, f in (("to_hs_from_choi", G.to_hs_from_choi), ("to_hs_from_choi_with_dict", G.to_hs_from_choi_with_dict),
                    ("to_hs_from_choi_with_sparsity", G.to_hs_from_choi_with_sparsity)):
        cmp(chk, name + ":" + sk, tag, try_call(chk, name + ":" + sk, tag, f, c, choi.copy()), hs)
        # the result is a function of the VALUE of the argument, not of its memory layout (column-major copy, transposed view)
        cmp(chk, name + ":fortran:" + sk, tag, try_call(chk, name + ":fortran:" + sk, tag, f, c, np.asfortranarray(choi)), hs)
        cmp(chk, name + ":view:" + sk, tag, try_call(chk, name + ":view:" + sk, tag, f, c, choi.T.copy().T), hs)
    # computational-basis forms, process matrix
    cmp(chk, "convert_to_comp_basis:row:" + sk, tag, try_call(chk, "convert_to_comp_basis:row:" + sk, tag, g.convert_to_comp_basis, "row_major"), hsrow)
    cmp(chk, "convert_to_comp_basis:column:" + sk, tag, try_call(chk, "convert_to_comp_basis:column:" + sk, tag, g.convert_to_comp_basis, "column_major"), hscol)
    cmp(chk, "to_process_matrix:" + sk, tag, try_call(chk, "to_process_matrix:" + sk, tag, g.to_process_matrix), proc)
    back = try_call(chk, "convert_hs:back:" + sk, tag, G.convert_hs, hsrow.copy(), c.comp_basis(), c.basis())
    if back is not None:
        cmp(chk, "convert_hs:back:" + sk, tag, np.real_if_close(back), hs)
    # variable helpers, both flags (flag on: the first row is implied, so use an input on the constraint)
    for para in (False, True):
        hs_p = hs.copy()
        if para:
            hs_p[0, :] = 0
            hs_p[0, 0] = 1
        gp = Gate(c, hs_p, is_physicality_required=False, on_para_eq_constraint=para)
        var = np.asarray(gp.to_var())
        want_choi = try_call(chk, "to_choi_from_hs_with_sparsity:" + sk, tag, G.to_choi_from_hs_with_sparsity, c, hs_p)
        pk = "para" if para else "nopara"
        cmp(chk, "to_choi_from_var:%s:%s" % (pk, sk), tag, try_call(chk, "to_choi_from_var:%s:%s" % (pk, sk), tag, G.to_choi_from_var, c, var.copy(), para), want_choi)
        if want_choi is not None:
            cmp(chk, "to_var_from_choi:%s:%s" % (pk, sk), tag, try_call(chk, "to_var_from_choi:%s:%s" % (pk, sk), tag, G.to_var_from_choi, c, np.asarray(want_choi).copy(), para), var)
    # the same conversions on a measurement process whose outcomes are this map and a multiple of it
    mp = MProcess(c, [hs.copy(), 0.5 * hs], is_physicality_required=False)
    for k, fac in ((0, 1.0), (1, 0.5)):
        for name in ("to_choi_matrix", "to_choi_matrix_with_dict", "to_choi_matrix_with_sparsity"):
            cmp(chk, "MProcess." + name + ":" + sk, tag, try_call(chk, "MProcess." + name + ":" + sk, tag, getattr(mp, name), k), fac * choi)
        cmp(chk, "MProcess.to_process_matrix:" + sk, tag, try_call(chk, "MProcess.to_process_matrix:" + sk, tag, mp.to_process_matrix, k), fac * proc)
    cb = try_call(chk, "MProcess.convert_to_comp_basis:" + sk, tag, mp.convert_to_comp_basis)
    if cb is not None:
        cmp(chk, "MProcess.convert_to_comp_basis:" + sk, tag, cb[1], 0.5 * hsrow)
    for mode, want in (("row_major", hsrow), ("column_major", hscol)):
        cb = try_call(chk, "MProcess.convert_to_comp_basis:%s:%s" % (mode, sk), tag, mp.convert_to_comp_basis, mode)
        if cb is not None:
            cmp(chk, "MProcess.convert_to_comp_basis:%s:%s" % (mode, sk), tag, cb[0], want)
            cmp(chk, "MProcess.convert_to_comp_basis:%s:%s" % (mode, sk), tag, cb[1], 0.5 * want)
    store.setdefault(sk, []).append((hs, choi, hsrow, proc))


def vec_case(chk, case):
    from quara.objects import state as S
    from quara.objects import povm as P
    from quara.objects.state import State
    from quara.objects.povm import Povm
    from quara.objects.matrix_basis import convert_vec
    sys = tuple(case["sys"])
    c = coords.csys_for(sys)
    x = coords.rvec(case["x"])
    M = cmat(case["mat"])
    sk = "x".join(map(str, sys))
    nz = np.argwhere(x != 0)
    tag = "sys%s:%s" % (sk, "hot%d" % nz[0][0] if len(nz) == 1 else "dense")
    vec = x * np.sqrt(coords.nu_of(sys))
    st = State(c, vec.copy(), is_physicality_required=False)
    chk.count(1, ("vec", tag))
    cmp(chk, "State.to_density_matrix:" + sk, tag, try_call(chk, "State.to_density_matrix:" + sk, tag, st.to_density_matrix), M)
    cmp(chk, "State.to_density_matrix_with_sparsity:" + sk, tag, try_call(chk, "State.to_density_matrix_with_sparsity:" + sk, tag, st.to_density_matrix_with_sparsity), M)
    cmp(chk, "to_density_matrix_from_vec:" + sk, tag, try_call(chk, "to_density_matrix_from_vec:" + sk, tag, S.to_density_matrix_from_vec, c, vec.copy()), M)
    cmp(chk, "to_vec_from_density_matrix_with_sparsity:" + sk, tag, try_call(chk, "to_vec_from_density_matrix_with_sparsity:" + sk, tag, S.to_vec_from_density_matrix_with_sparsity, c, M.copy()), vec)
    cmp(chk, "to_vec_from_density_matrix_with_sparsity:fortran:" + sk, tag, try_call(chk, "to_vec_from_density_matrix_with_sparsity:fortran:" + sk, tag, S.to_vec_from_density_matrix_with_sparsity, c, np.asfortranarray(M)), vec)
    for para in (False, True):
        pk = "para" if para else "nopara"
        v2 = vec.copy()
        M2 = M
        if para:
            v2[0] = 1 / np.sqrt(c.dim)
            M2 = sum(cf * np.asarray(b.toarray() if hasattr(b, "toarray") else b) for cf, b in zip(v2, c.basis()))
        var = v2[1:] if para else v2
        cmp(chk, "to_density_matrix_from_var:%s:%s" % (pk, sk), tag, try_call(chk, "to_density_matrix_from_var:%s:%s" % (pk, sk), tag, S.to_density_matrix_from_var, c, var.copy(), para), M2)
        cmp(chk, "to_var_from_density_matrix:%s:%s" % (pk, sk), tag, try_call(chk, "to_var_from_density_matrix:%s:%s" % (pk, sk), tag, S.to_var_from_density_matrix, c, np.asarray(M2).copy(), para), var)
    # re-expression in the computational basis: coordinates = matrix entries (row-major)
    cmp(chk, "State.convert_basis:comp:" + sk, tag, try_call(chk, "State.convert_basis:comp:" + sk, tag, st.convert_basis, c.comp_basis()), M.reshape(-1))
    cmp(chk, "convert_vec:roundtrip:" + sk, tag, try_call(chk, "convert_vec:roundtrip:" + sk, tag, convert_vec, M.reshape(-1).copy(), c.comp_basis(), c.basis()), vec)
    # POVM with this operator and twice it as elements
    pv = Povm(c, [vec.copy(), 2.0 * vec], is_physicality_required=False)
    ms = try_call(chk, "Povm.matrices:" + sk, tag, pv.matrices)
    if ms is not None:
        cmp(chk, "Povm.matrices:" + sk, tag, ms[1], 2 * M)
    ms = try_call(chk, "Povm.matrices_with_sparsity:" + sk, tag, pv.matrices_with_sparsity)
    if ms is not None:
        cmp(chk, "Povm.matrices_with_sparsity:" + sk, tag, ms[1], 2 * M)
    cmp(chk, "Povm.matrix:" + sk, tag, try_call(chk, "Povm.matrix:" + sk, tag, pv.matrix, 1), 2 * M)
    cmp(chk, "Povm.matrix_with_sparsity:" + sk, tag, try_call(chk, "Povm.matrix_with_sparsity:" + sk, tag, pv.matrix_with_sparsity, 1), 2 * M)
    cmp(chk, "to_matrices_from_vecs:" + sk, tag, (try_call(chk, "to_matrices_from_vecs:" + sk, tag, P.to_matrices_from_vecs, c, [vec.copy(), 2 * vec]) or [None, None])[1], 2 * M)
    cmp(chk, "to_vecs_from_matrices_with_sparsity:" + sk, tag, (try_call(chk, "to_vecs_from_matrices_with_sparsity:" + sk, tag, P.to_vecs_from_matrices_with_sparsity, c, [M.copy(), 2 * M]) or [None, None])[1], 2 * vec)
    for para in (False, True):
        pk = "para" if para else "nopara"
        var = vec.copy() if para else np.hstack([vec, 2 * vec])
        mats = try_call(chk, "to_matrices_from_var:%s:%s" % (pk, sk), tag, P.to_matrices_from_var, c, var.copy(), para)
        if mats is not None:
            cmp(chk, "to_matrices_from_var:%s:%s" % (pk, sk), tag, mats[0], M)
            if para:
                cmp(chk, "to_matrices_from_var:implied:%s" % sk, tag, mats[1], np.eye(c.dim) - M)
            back = try_call(chk, "to_var_from_matrices:%s:%s" % (pk, sk), tag, P.to_var_from_matrices, c, [np.asarray(m).copy() for m in mats], para)
            cmp(chk, "to_var_from_matrices:%s:%s" % (pk, sk), tag, back, var)


def kraus_case(chk, case):
    from quara.objects import gate as G
    from quara.objects.gate import Gate
    sys = tuple(case["sys"])
    c = coords.csys_for(sys)
    hs = coords.hs_from_h(sys, coords.rmat(case["G"]))
    hsrow = cmat(case["hsrow"])
    tag = "kraus:" + case["name"]
    g = Gate(c, hs.copy())
    chk.count(1, ("kraus", tag))
    ks = try_call(chk, "to_kraus_matrices", tag, g.to_kraus_matrices)
    if ks is None:
        return
    if len(ks) == 0:
        chk.violation("value:to_kraus_matrices:empty", "no Kraus operators for the CP map %s" % case["name"], dict(case=tag))
        return
    got = sum(np.kron(K, K.conj()) for K in ks)
    cmp(chk, "to_kraus_matrices:channel", tag, got, hsrow, 1e-8)
    cmp(chk, "to_hs_from_kraus_matrices", tag, try_call(chk, "to_hs_from_kraus_matrices", tag, G.to_hs_from_kraus_matrices, c, ks), hs, 1e-8)


def linearity(chk, store):
    from quara.objects import gate as G
    for sk, lst in store.items():
        if len(lst) < 3:
            continue
        c = coords.csys_for(tuple(int(t) for t in sk.split("x")))
        (h1, c1, r1, p1), (h2, c2, r2, p2) = lst[0], lst[-1]
        a, b = 0.5, -0.25
        hs = a * h1 + b * h2
        cmp(chk, "linearity:to_choi_from_hs_with_sparsity:" + sk, "dyadic", try_call(chk, "linearity:choi:" + sk, "dyadic", G.to_choi_from_hs_with_sparsity, c, hs), a * c1 + b * c2)
        cmp(chk, "linearity:to_hs_from_choi:" + sk, "dyadic", try_call(chk, "linearity:hs:" + sk, "dyadic", G.to_hs_from_choi, c, a * c1 + b * c2), hs)
        cmp(chk, "linearity:to_process_matrix:" + sk, "dyadic", try_call(chk, "linearity:process:" + sk, "dyadic", G.to_process_matrix_from_hs, c, hs), a * p1 + b * p2)
        chk.count(3)


def truncate_hs_cases(chk):
    """truncate_hs: imaginary parts and fluctuations on either side of its thresholds."""
    from quara.utils.matrix_util import truncate_hs
    base = np.array([[1.0, 0.25], [-0.5, 0.125]])
    for eps_im, imag, ok in ((1e-10, 1e-13, True), (1e-10, 1e-7, False), (None, 1e-15, True)):
        m = base.astype(np.complex128) + 1j * imag
        try:
            r = truncate_hs(m, eps_truncate_imaginary_part=eps_im)
            good = ok and r.dtype == np.float64 and np.allclose(r, base, atol=1e-12)
        except ValueError:
            good = not ok
        chk.count(1)
        if not good:
            chk.violation("value:truncate_hs", "truncate_hs with imaginary part %g and threshold %r behaves unexpectedly" % (imag, eps_im), dict(imag=imag))


def cmat_of(M):
    """complex matrix from the specification's Gaussian rationals <<<<re_n, re_d>>, <<im_n, im_d>>>>."""
    return np.array([[coords.rat(e[0]) + 1j * coords.rat(e[1]) for e in row] for row in M], dtype=np.complex128)


def basis_catalogue(chk):
    """The library's catalogue of matrix bases against the exact bases of QBasis (MC_Basis) and against the defining
    relations: predicates, expansion / reconstruction, conversion between bases."""
    from quara.objects import matrix_basis as mb
    r = chk.tlc("mc/MC_Basis", "mc/MC_Basis.cfg", workers=4, label="MC_Basis")
    exact = {tuple(c["sys"]): ([cmat_of(M) for M in c["basis"]], np.array(c["nu"], dtype=float)) for c in r.emitted}
    rs = np.random.RandomState(11)

    def bad(clause, msg, **ctx):
        chk.violation("basis:%s" % clause, msg, dict(clause=clause, **ctx))

    def dense(b):
        return [np.asarray(m.toarray() if hasattr(m, "toarray") else m, dtype=np.complex128) for m in b]
    # (a) the typical bases the objects are expressed in: entry by entry H_a / sqrt(nu_a), and the unnormalised ones H_a
    lib = {(2,): (mb.get_pauli_basis(1), mb.get_normalized_pauli_basis(1)), (2, 2): (mb.get_pauli_basis(2), mb.get_normalized_pauli_basis(2)),
           (3,): (None, mb.get_normalized_gell_mann_basis())}
    for sys_, (raw, nrm) in lib.items():
        H, nu = exact[sys_]
        chk.count(len(H), ("basis", sys_))
        if raw is not None and (len(raw) != len(H) or any(not np.allclose(a, h, atol=1e-14) for a, h in zip(dense(raw), H))):
            bad("pauli:%s" % (sys_,), "get_pauli_basis differs from the Kronecker products of I, X, Y, Z in order", sys=list(sys_))
        if len(nrm) != len(H) or any(not np.allclose(a, h / np.sqrt(n), atol=1e-14) for a, h, n in zip(dense(nrm), H, nu)):
            bad("normalised:%s" % (sys_,), "the normalised basis differs from H_a / sqrt(nu_a)", sys=list(sys_))
    for sys_ in ((2, 3), (3, 2)):
        H, nu = exact[sys_]
        c = qobjs.csys_mixed(sys_)
        if any(not np.allclose(a, h / np.sqrt(n), atol=1e-13) for a, h, n in zip(dense(c.basis()), H, nu)):
            bad("composite:%s" % (sys_,), "basis of the composite system differs from the Kronecker products of the factors' bases", sys=list(sys_))
    # (b) every typical basis: the library's predicates against the definitions, expansion and reconstruction
    cat = {"comp_row2": mb.get_comp_basis(2), "comp_col3": mb.get_comp_basis(3, mode="column_major"), "comp_row4": mb.get_comp_basis(4, mode="row_major"),
           "pauli1": mb.get_pauli_basis(1), "npauli2": mb.get_normalized_pauli_basis(2), "hermitian2": mb.get_hermitian_basis(2), "hermitian3": mb.get_hermitian_basis(3),
           "nhermitian3": mb.get_normalized_hermitian_basis(3), "nhermitian4": mb.get_normalized_hermitian_basis(4), "gellmann": mb.get_gell_mann_basis(),
           "ngellmann": mb.get_normalized_gell_mann_basis(), "ggm_d3": mb.get_generalized_gell_mann_basis(n_qubit=1, dim=3), "nggm_d2n2": mb.get_normalized_generalized_gell_mann_basis(n_qubit=2, dim=2),
           "nggm_d3": mb.get_normalized_generalized_gell_mann_basis(n_qubit=1, dim=3), "nggm_d4": mb.get_normalized_generalized_gell_mann_basis(n_qubit=1, dim=4)}
    for name, b in cat.items():
        ms = dense(b)
        d = ms[0].shape[0]
        chk.count(1, ("basis_catalogue", name))
        G = np.array([[np.trace(x.conj().T @ y) for y in ms] for x in ms])
        want = dict(orthogonal=bool(np.allclose(G - np.diag(np.diag(G)), 0, atol=1e-12)), normal=bool(np.allclose(np.diag(G), 1, atol=1e-12)),
                    hermitian=all(np.allclose(x, x.conj().T, atol=1e-14) for x in ms),
                    zeroth=bool(np.allclose(ms[0] * ms[0][0, 0].conj(), np.eye(d) * abs(ms[0][0, 0]) ** 2, atol=1e-14) and abs(ms[0][0, 0]) > 0),
                    traceless=all(abs(np.trace(x)) < 1e-13 for x in ms[1:]))
        got = dict(orthogonal=bool(b.is_orthogonal()), normal=bool(b.is_normal()), hermitian=bool(b.is_hermitian()), zeroth=bool(b.is_0thpropI()), traceless=bool(b.is_trace_less()))
        for k in want:
            if got[k] != want[k]:
                bad("predicate:%s:%s" % (k, name), "%s: is_%s()=%s, by definition %s" % (name, k, got[k], want[k]), basis=name)
        if len(ms) != d * d or np.linalg.matrix_rank(np.array([m.ravel() for m in ms])) != d * d or b.dim != d:
            bad("complete:%s" % name, "%s is not a basis of the %d x %d matrices (or reports dim %s)" % (name, d, d, b.dim), basis=name)
        # the normalised families are orthonormal and Hermitian; Pauli / Gell-Mann families also start with a multiple of the
        # identity and are traceless otherwise (the elementary Hermitian basis E_ii, E_ij + E_ji, ... is not)
        need = ("orthogonal", "normal", "hermitian") + (() if name.startswith("nhermitian") else ("zeroth", "traceless"))
        if name.startswith("n") and not all(want[k] for k in need):
            bad("normalised_family:%s" % name, "%s lacks a defining property of its family: %s" % (name, {k: want[k] for k in need}), basis=name)
        if want["orthogonal"] and want["normal"]:
            X = rs.randn(d, d) + 1j * rs.randn(d, d)
            Hm = X + X.conj().T
            try:
                cf = mb.calc_matrix_expansion_coefficient(X, b)
                if not np.allclose(cf, [np.trace(m.conj().T @ X) for m in ms], atol=1e-12) or not np.allclose(mb.calc_mat_from_coefficient_basis(cf, b), X, atol=1e-12):
                    bad("expansion:%s" % name, "expansion coefficients / reconstruction of a generic matrix in %s" % name, basis=name)
                if want["hermitian"]:
                    ch = mb.calc_hermitian_matrix_expansion_coefficient_hermitian_basis(Hm, b)
                    if np.iscomplexobj(ch) or not np.allclose(mb.calc_mat_from_coefficient_basis(np.asarray(ch), b), Hm, atol=1e-12):
                        bad("expansion_hermitian:%s" % name, "real coefficients of a Hermitian matrix in %s do not reconstruct it" % name, basis=name)
            except Exception as e:
                bad("expansion:exception:%s" % name, "%r" % e, basis=name)
    # (c) conversion between any two orthonormal bases of one dimension denotes the same operator
    groups = {}
    for name, b in cat.items():
        if b.is_orthogonal() and b.is_normal():
            groups.setdefault(b.dim, []).append((name, b))
    for d, lst in groups.items():
        for (n1, b1) in lst:
            for (n2, b2) in lst:
                v = rs.randn(d * d) + (0 if b1.is_hermitian() and b2.is_hermitian() else 1j * rs.randn(d * d))
                try:
                    w = mb.convert_vec(v, b1, b2)
                    X1 = sum(c_ * m for c_, m in zip(v, dense(b1)))
                    X2 = sum(c_ * m for c_, m in zip(np.asarray(w), dense(b2)))
                    chk.count(1)
                    if not np.allclose(X1, X2, atol=1e-11):
                        bad("convert_vec:%s->%s" % (n1, n2), "convert_vec from %s to %s changes the operator (max dev %.3g)" % (n1, n2, float(np.max(np.abs(X1 - X2)))), frm=n1, to=n2)
                except Exception as e:
                    bad("convert_vec:exception:%s->%s" % (n1, n2), "%r" % e, frm=n1, to=n2)


def run(chk):
    t = chk.tier
    basis_catalogue(chk)
    r = chk.tlc("mc/MC_C02", "mc/MC_C02_%s.cfg" % t, workers=16, label="MC_C02 " + t, timeout=7000)
    emitted = list(r.emitted)
    if t == "quick":
        # two-qubit supplement (computational-basis forms only; Choi / process matrix of two-qubit maps: thorough tier)
        emitted += chk.tlc("mc/MC_C02_qq", "mc/MC_C02_qq.cfg", workers=8, label="MC_C02_qq").emitted
    store = {}
    for i, case in enumerate(emitted):
        if case["kind"] == "gate":
            gate_case(chk, case, store)
        elif case["kind"] == "vec":
            vec_case(chk, case)
        else:
            kraus_case(chk, case)
        chk.replayed += 1
        if i in (1, 30):
            chk.sample({k: (v if k != "choi" else v[:2]) for k, v in case.items() if k in ("kind", "sys", "G", "x", "choi", "name")})
    linearity(chk, store)
    truncate_hs_cases(chk)
    chk.assumptions += [
        "decided per system on a complete basis of the input space (one-hot inputs; qutrit one-hot inputs strided in the quick tier) plus dense inputs and a dyadic linearity check",
        "Kraus conversion (non-linear) on the exact CP catalogue only, compared up to the channel the set generates",
    ]
    return chk.finish(exhaustive=True, rule="every emitted input x every implementation of each conversion; distinct = inputs")
