"""C13 - results depend only on arguments: no hidden state, no operand mutation.

TLC model-checks QPool (cache tables with their build groups, global tolerance set/restore, one
shared loss object and one shared algorithm object re-configured per estimation; a second instance
configured `AsCoded` must violate NoResidue - the vacuity witness) and prints the transition graphs
of two projections (cache x pure operations x tolerance; estimation with re-used objects).  Every
transition is replayed on one shared pool of real objects:
  * the result of each call is hashed and must equal the hash the SAME call gives in a fresh world
    (new composite systems, new objects, nothing cached, fresh loss / algorithm objects);
  * the byte-level snapshot of every pool object, of every argument array and of the matrix bases
    must be the same before and after every call;
  * the set of built tables must contain what the specification says and Delete must drop exactly
    the table named.
"""
import hashlib
import json
import pickle
import random

import numpy as np

from harness import core, graphwalk

TABLE_ATTR = {
    "dict_hs2choi": ("_dict_from_hs_to_choi", "dict_from_hs_to_choi", "delete_dict_from_hs_to_choi"),
    "dict_choi2hs": ("_dict_from_choi_to_hs", "dict_from_choi_to_hs", "delete_dict_from_choi_to_hs"),
    "basis_T": ("_basis_T_sparse", "basis_T_sparse", "delete_basis_T_sparse"),
    "basisconj": ("_basisconjugate_sparse", "basisconjugate_sparse", "delete_basisconjugate_sparse"),
    "bb_conj_basis": ("_basisconjugate_basis_sparse", "basisconjugate_basis_sparse", "delete_basisconjugate_basis_sparse"),
    "bb_T": ("_basis_basisconjugate_T_sparse", "basis_basisconjugate_T_sparse", "delete_basis_basisconjugate_T_sparse"),
    "bb_T_from1": ("_basis_basisconjugate_T_sparse_from_1", "basis_basisconjugate_T_sparse_from_1", "delete_basis_basisconjugate_T_sparse_from_1"),
    "bh_b_T_from1": ("_basishermitian_basis_T_from_1", "basishermitian_basis_T_from_1", "delete_basishermitian_basis_T_from_1"),
    "bb_dict": ("_basis_basisconjugate", None, None),
}


def norm(o):
    import scipy.sparse as sp
    if isinstance(o, np.ndarray):
        if o.dtype == object:
            return ("ndo", tuple(norm(x) for x in o.ravel()))
        a = np.asarray(o)
        if np.iscomplexobj(a):
            return ("ndc", a.shape, np.round(a.real, 10).tobytes(), np.round(a.imag, 10).tobytes())
        return ("nd", a.shape, (np.round(a.astype(np.float64), 10) + 0.0).tobytes())
    if sp.issparse(o):
        return norm(o.toarray())
    if isinstance(o, (list, tuple)):
        return tuple(norm(i) for i in o)
    if isinstance(o, dict):
        return tuple(sorted((str(k), norm(v)) for k, v in o.items()))
    if isinstance(o, (np.bool_, bool)):
        return bool(o)
    if isinstance(o, np.integer):
        return int(o)
    if isinstance(o, (float, np.floating)):
        return round(float(o), 10) + 0.0
    if isinstance(o, complex):
        return (round(o.real, 10) + 0.0, round(o.imag, 10) + 0.0)
    if o is None or isinstance(o, (int, str)):
        return o
    return snapshot_obj(o)


def digest(o):
    return hashlib.sha1(pickle.dumps(norm(o))).hexdigest()[:16]


def raw(a):
    """byte-exact snapshot of an array (operands must not change at all)."""
    a = np.asarray(a)
    return (a.shape, str(a.dtype), a.tobytes())


def snapshot_obj(o):
    from quara.objects.state import State
    from quara.objects.povm import Povm
    from quara.objects.gate import Gate
    from quara.objects.mprocess import MProcess
    from quara.objects.state_ensemble import StateEnsemble
    from quara.objects.multinomial_distribution import MultinomialDistribution
    if isinstance(o, State):
        return ("State", norm(o.vec), o.on_para_eq_constraint, o.is_physicality_required)
    if isinstance(o, Povm):
        return ("Povm", norm(list(o.vecs)), o.on_para_eq_constraint, tuple(o.nums_local_outcomes))
    if isinstance(o, MProcess):
        return ("MProcess", norm(list(o.hss)), tuple(o.shape), o.on_para_eq_constraint)
    if isinstance(o, Gate):
        return ("Gate", norm(o.hs), o.on_para_eq_constraint)
    if isinstance(o, StateEnsemble):
        return ("Ens", tuple(snapshot_obj(s) for s in o.states), snapshot_obj(o.prob_dist))
    if isinstance(o, MultinomialDistribution):
        return ("MD", norm(o.ps), tuple(o.shape))
    if hasattr(o, "hs"):
        return (type(o).__name__, norm(o.hs))
    raise core.MachineryError("cannot snapshot %r" % type(o))


def raw_snapshot(o):
    from quara.objects.state import State
    from quara.objects.povm import Povm
    from quara.objects.gate import Gate
    from quara.objects.mprocess import MProcess
    if isinstance(o, State):
        return (raw(o.vec), o.on_para_eq_constraint, o.is_physicality_required, o.mode_proj_order)
    if isinstance(o, Povm):
        return tuple(raw(v) for v in o.vecs) + (tuple(o.nums_local_outcomes), o.on_para_eq_constraint, o.is_physicality_required)
    if isinstance(o, MProcess):
        return tuple(raw(v) for v in o.hss) + (tuple(o.shape), o.on_para_eq_constraint, o.is_physicality_required, o.mode_sampling)
    if isinstance(o, Gate) or hasattr(o, "hs"):
        return raw(o.hs)
    if isinstance(o, np.ndarray):
        return raw(o)
    if isinstance(o, list):
        return tuple(raw_snapshot(x) for x in o)
    raise core.MachineryError("cannot raw-snapshot %r" % type(o))


class World:
    """A shared pool of real objects on two one-qubit systems plus estimation apparatus."""

    def __init__(self, family="se_fast"):
        from quara.objects.composite_system_typical import generate_composite_system
        from quara.objects.qoperation_typical import generate_qoperation
        from quara.objects.state import State
        from quara.objects.povm import Povm
        from quara.objects.gate import Gate
        from quara.objects.mprocess import MProcess
        self.family = family
        self.c1 = generate_composite_system("qubit", 1, ids_esys=[0])
        self.c2 = generate_composite_system("qubit", 1, ids_esys=[1])
        c1, c2 = self.c1, self.c2
        g = lambda mode, name, c: generate_qoperation(mode=mode, name=name, c_sys=c)
        P = {}
        P["s0"] = g("state", "a", c1)
        P["s1"] = State(c1, np.array([0.9, 0.3, -0.8, 0.45]), is_physicality_required=False)   # non-physical
        P["p0"] = g("povm", "x", c1)
        P["p1"] = Povm(c1, [np.array([0.9, 0.2, 0.5, -0.3]), np.array([0.4, -0.1, -0.45, 0.35]), np.array([0.2, 0.0, 0.05, 0.1])],
                       is_physicality_required=False)
        P["g0"] = g("gate", "x90", c1)
        P["g1"] = g("gate", "hadamard", c1)
        rng = np.random.RandomState(5)
        P["g2n"] = Gate(c1, np.round(rng.randn(4, 4), 3), is_physicality_required=False)
        P["m0"] = g("mprocess", "x-type2", c1)
        P["m1n"] = MProcess(c1, [np.round(rng.randn(4, 4), 3), np.round(rng.randn(4, 4), 3), np.round(rng.randn(4, 4), 3)],
                            is_physicality_required=False)
        P["s2"] = g("state", "y0", c2)
        P["g2"] = g("gate", "y90", c2)
        P["p2"] = g("povm", "z", c2)
        P["m2"] = g("mprocess", "z-type1", c2)
        # argument arrays handed to static functions
        P["v_state"] = np.round(rng.randn(4), 3)
        P["v_povm"] = np.round(rng.randn(12), 3)
        P["v_gate"] = np.round(rng.randn(16), 3)
        P["v_mproc"] = np.round(rng.randn(48), 3)
        # operand LISTS (the list forms of compose / tensor product): the callers' lists are operands too
        P["l_comp"] = [P["p0"], P["g1"], P["g0"], P["s0"]]
        P["l_tensor"] = [P["s0"], P["s2"]]
        self.P = P
        self._setup_estimation()

    # ------------------------------------------------------------------ estimation apparatus
    def _setup_estimation(self):
        from quara.objects.qoperation_typical import generate_qoperation
        from quara.protocol.qtomography.standard.standard_qst import StandardQst
        from quara.protocol.qtomography.standard.standard_povmt import StandardPovmt
        from quara.protocol.qtomography.standard.standard_qpt import StandardQpt
        c1 = self.c1
        g = lambda mode, name: generate_qoperation(mode=mode, name=name, c_sys=c1)
        povms = [g("povm", n) for n in ("x", "y", "z")]
        states = [g("state", n) for n in ("x0", "y0", "z0", "z1")]
        self.tomo = {
            "qst": StandardQst(povms, on_para_eq_constraint=True),
            "povmt": StandardPovmt(states, 2, on_para_eq_constraint=True),
            "qpt": StandardQpt(states, povms, on_para_eq_constraint=True),
        }
        rs = np.random.RandomState(11)

        def data(nsched, shift):
            # frequencies close to 0/1: the unconstrained optimum is non-physical, so the constrained
            # optimum depends on the weights (otherwise every weighting gives the same estimate)
            out = []
            for j in range(nsched):
                n = 50
                k = int(rs.randint(43, 48)) + shift
                if j % 3 == 2:
                    k = n - k
                if shift and j == 1:
                    k = n          # an outcome that was never observed: the covariance-based weights regularise the zero frequency
                out.append((n, np.array([k / n, 1 - k / n])))
            return out
        self.data = {(t, d): data(self.tomo[t].num_schedules, 0 if d == "d1" else 2) for t in self.tomo for d in ("d1", "d2")}
        self.custom = {}
        for t in self.tomo:
            ws = []
            for j in range(self.tomo[t].num_schedules):
                a = 1.0 + 0.5 * ((j * 7) % 5)
                b = 0.3 * ((j * 3) % 4)
                ws.append(np.array([[a, b], [b, a + 1.0]]))
            self.custom[t] = ws
        self.loss = self._new_loss()
        self.algo = self._new_algo()

    def _new_loss(self):
        if self.family == "se_fast":
            from quara.loss_function.standard_qtomography_based_weighted_probability_based_squared_error import StandardQTomographyBasedWeightedProbabilityBasedSquaredError as L
        elif self.family == "re_fast":
            from quara.loss_function.standard_qtomography_based_weighted_relative_entropy import StandardQTomographyBasedWeightedRelativeEntropy as L
        elif self.family == "se":
            from quara.loss_function.weighted_probability_based_squared_error import WeightedProbabilityBasedSquaredError as L
        else:
            from quara.loss_function.weighted_relative_entropy import WeightedRelativeEntropy as L
        return L()

    def _loss_option(self, tomo, mode):
        # option objects are values: one object per (tomography, mode) serves every estimation of this world, the way a
        # simulation re-uses its loss option for every repetition
        cache = self.__dict__.setdefault("_option_cache", {})
        if (tomo, mode) not in cache:
            cache[(tomo, mode)] = self._make_loss_option(tomo, mode)
        return cache[(tomo, mode)]

    def _make_loss_option(self, tomo, mode):
        if self.family == "se_fast":
            from quara.loss_function.standard_qtomography_based_weighted_probability_based_squared_error import StandardQTomographyBasedWeightedProbabilityBasedSquaredErrorOption as O
        elif self.family == "re_fast":
            from quara.loss_function.standard_qtomography_based_weighted_relative_entropy import StandardQTomographyBasedWeightedRelativeEntropyOption as O
        elif self.family == "se":
            from quara.loss_function.weighted_probability_based_squared_error import WeightedProbabilityBasedSquaredErrorOption as O
        else:
            from quara.loss_function.weighted_relative_entropy import WeightedRelativeEntropyOption as O
        mode = mode.split("+")[0]          # "+eqonly" selects the algorithm option, not the weights
        if mode == "custom":
            if self.family.startswith("re"):
                return O(mode_weight="custom", weights=[float(w[0, 0]) for w in self.custom[tomo]])
            return O(mode_weight="custom", weights=[w.copy() for w in self.custom[tomo]])
        return O(mode_weight=mode)

    def _new_algo(self):
        from quara.minimization_algorithm.projected_gradient_descent_backtracking import ProjectedGradientDescentBacktracking
        return ProjectedGradientDescentBacktracking()

    def estimate(self, tomo, d, mode, loss=None, algo=None):
        from quara.protocol.qtomography.standard.loss_minimization_estimator import LossMinimizationEstimator
        from quara.minimization_algorithm.projected_gradient_descent_backtracking import ProjectedGradientDescentBacktrackingOption
        est = LossMinimizationEstimator()
        loss = self.loss if loss is None else loss
        algo = self.algo if algo is None else algo
        # the estimation mode also names the algorithm option: "+eqonly" switches the inequality constraint off, so a
        # re-used algorithm object must re-derive its projection when only the option changes
        opt = ProjectedGradientDescentBacktrackingOption(mode_stopping_criterion_gradient_descent="sum_absolute_difference_variable",
                                                         num_history_stopping_criterion_gradient_descent=1, eps=1e-9,
                                                         on_algo_ineq_constraint=not mode.endswith("+eqonly"))
        # the caller's own arrays are handed over (no copies): they are operands, and the pool snapshot watches them
        data = [(n, f) for (n, f) in self.data[(tomo, d)]]
        res = est.calc_estimate(self.tomo[tomo], data, loss, self._loss_option(tomo, mode), algo, opt)
        return np.asarray(res.estimated_var)

    # ------------------------------------------------------------------ caches
    def built(self, c=None):
        c = c or self.c1
        return {t for t, (attr, _, _) in TABLE_ATTR.items() if getattr(c, attr) is not None}

    def build(self, t):
        attr, prop, _ = TABLE_ATTR[t]
        if prop is None:
            self.c1.basis_basisconjugate(0)
        else:
            getattr(self.c1, prop)

    def delete(self, t):
        attr, _, dele = TABLE_ATTR[t]
        if dele is None:
            self.c1._basis_basisconjugate = None
        else:
            getattr(self.c1, dele)()

    # ------------------------------------------------------------------ pure operations
    def pure(self, name):
        from quara.objects.operators import compose_qoperations as comp, tensor_product as tp
        from quara.objects.state import State
        from quara.objects.povm import Povm
        from quara.objects.gate import Gate
        from quara.objects.mprocess import MProcess
        P = self.P
        c1 = self.c1
        if name.startswith("q_"):
            o = {"q_state": P["s0"], "q_povm": P["p0"], "q_gate": P["g0"], "q_mprocess": P["m0"]}[name]
            o2 = {"q_state": P["s1"], "q_povm": P["p1"], "q_gate": P["g2n"], "q_mprocess": P["m1n"]}[name]
            return [[x.is_physical(), x.is_eq_constraint_satisfied(), x.is_ineq_constraint_satisfied(),
                     x.is_physical(atol_eq_const=1e-3, atol_ineq_const=1e-3), x.to_var(), x.to_stacked_vector(),
                     x.generate_zero_obj(), x.generate_origin_obj()] for x in (o, o2)]
        if name == "conv_state":
            return [[s.to_density_matrix(), s.to_density_matrix_with_sparsity(), s.calc_eigenvalues(),
                     s.convert_basis(c1.comp_basis())] for s in (P["s0"], P["s1"])]
        if name == "conv_gate":
            return [[g.to_choi_matrix(), g.to_choi_matrix_with_dict(), g.to_choi_matrix_with_sparsity(), g.to_process_matrix(),
                     g.convert_to_comp_basis(), g.convert_basis(c1.comp_basis()), g.is_cp(), g.is_tp(),
                     # both orderings of the computational basis, asked for on the shared system in both orders
                     g.convert_to_comp_basis(mode="column_major"), g.convert_to_comp_basis(mode="row_major"),
                     g.convert_basis(c1.comp_basis(mode="column_major")), g.convert_to_comp_basis()] for g in (P["g0"], P["g2n"])] + \
                   [P["g0"].to_kraus_matrices()]
        if name == "conv_choi2hs":
            # the inverse conversions read their own cached tables (dict_choi2hs, the conjugate-basis tables)
            from quara.objects import gate as G
            out = []
            for g in (P["g0"], P["g2n"]):
                ch = g.to_choi_matrix()
                out += [G.to_hs_from_choi_with_dict(c1, ch), G.to_hs_from_choi_with_sparsity(c1, ch), G.to_hs_from_choi(c1, ch),
                        G.to_choi_from_hs_with_dict(c1, g.hs), G.to_hs_from_choi_with_dict(c1, ch)]
            # an ODD number of calls of the defining-formula conversion per action (a call that toggles a cached table in place
            # must not be undone by its twin within the same action), followed by a reader of the same tables
            out += [G.to_hs_from_choi(c1, P["g0"].to_choi_matrix()), G.to_choi_from_hs(c1, P["g2n"].hs)]
            return out
        if name == "conv_povm":
            return [[p.matrices(), p.matrices_with_sparsity(), p.matrix(0), p.calc_eigenvalues(), p.convert_basis(c1.comp_basis())]
                    for p in (P["p0"], P["p1"])]
        if name == "conv_mprocess":
            return [[m.to_choi_matrix(0), m.to_choi_matrix_with_dict(1), m.to_choi_matrix_with_sparsity(1), m.to_process_matrix(0),
                     m.to_povm(), m.convert_to_comp_basis(), m.is_cp(), m.is_sum_tp(),
                     m.convert_to_comp_basis(mode="column_major"), m.convert_to_comp_basis()] for m in (P["m0"], P["m1n"])]
        if name.startswith("proj_") or name.startswith("physproj_"):
            kind = name.split("_", 1)[1]
            o = {"state": P["s1"], "povm": P["p1"], "gate": P["g2n"], "mprocess": P["m1n"]}[kind]
            v = {"state": P["v_state"], "povm": P["v_povm"], "gate": P["v_gate"], "mprocess": P["v_mproc"]}[kind]
            cls = type(o)
            out = []
            if name.startswith("proj_"):
                out += [o.calc_proj_eq_constraint(), o.calc_proj_ineq_constraint()]
                for para in (False, True):
                    nv = len(v) - {"state": 1, "povm": 4, "gate": 4, "mprocess": 4}[kind] if para else len(v)
                    vv = v[:nv]
                    if kind in ("povm", "mprocess") and para:
                        vv = v[:nv]
                    out.append(cls.calc_proj_eq_constraint_with_var(c1, vv, on_para_eq_constraint=para))
                    out.append(cls.calc_proj_ineq_constraint_with_var(c1, vv, on_para_eq_constraint=para))
                f = o.func_calc_proj_eq_constraint(False)
                out.append(f(v))
                f = o.func_calc_proj_ineq_constraint(False)
                out.append(f(v))
            else:
                out += [o.calc_proj_physical(), o.calc_proj_physical_with_var(v, on_para_eq_constraint=False)]
                o.set_mode_proj_order("ineq_eq") if False else None
            return out
        if name == "compose":
            return [comp(P["g0"], P["s0"]), comp(P["p0"], P["s0"]), comp(P["p0"], P["g0"]), comp(P["g0"], P["g1"]),
                    comp(P["p0"], P["g1"], P["g0"], P["s0"]), comp(P["l_comp"]), len(P["l_comp"])]
        if name == "compose_m":
            return [comp(P["m0"], P["s0"]), comp(P["p0"], P["m0"]), comp(P["m0"], P["g0"]), comp(P["g0"], P["m0"]),
                    comp(P["p0"], P["m0"], P["s0"])]
        if name == "tensor":
            return [tp(P["s0"], P["s2"]), tp(P["g0"], P["g2"]), tp(P["p0"], P["p2"]), tp(P["s2"], P["s0"]), tp(P["l_tensor"]), len(P["l_tensor"])]
        if name == "tensor_gm":
            return [tp(P["m0"], P["g2"]), tp(P["g0"], P["m2"])]
        if name == "var_roundtrip":
            return [o.generate_from_var(o.to_var()) for o in (P["s0"], P["p0"], P["g0"], P["m0"], P["s1"], P["p1"])]
        if name == "gradient":
            return [o.calc_gradient(1) for o in (P["s0"], P["p0"], P["g0"], P["m0"])]
        if name == "stacked_var":
            return [State.convert_var_to_stacked_vector(c1, P["v_state"][:3], True), State.convert_stacked_vector_to_var(c1, P["v_state"], True),
                    Povm.convert_var_to_stacked_vector(c1, P["v_povm"][:8], True), Povm.convert_stacked_vector_to_var(c1, P["v_povm"], True),
                    Gate.convert_var_to_stacked_vector(c1, P["v_gate"][:12], True), Gate.convert_stacked_vector_to_var(c1, P["v_gate"], True),
                    MProcess.convert_var_to_stacked_vector(c1, P["v_mproc"][:44], True), MProcess.convert_stacked_vector_to_var(c1, P["v_mproc"], True)]
        if name == "copy_mutate":
            out = []
            for key in ("s0", "p0", "g0", "m0"):
                cpy = P[key].copy()
                out.append(snapshot_obj(cpy))
                # the copy must be independent of its original: write into every array of the copy
                if key == "s0":
                    cpy._vec[0] += 1.0
                elif key == "p0":
                    cpy._vecs[0][0] += 1.0
                elif key == "g0":
                    cpy._hs[0][0] += 1.0
                else:
                    cpy._hss[0][0][0] += 1.0
            return out
        if name == "basis_write":
            res = []
            b = c1.basis()
            for attempt in ("item", "elem", "attr"):
                try:
                    if attempt == "item":
                        b[0][0, 0] = 5.0
                    elif attempt == "elem":
                        b.basis[0] = None
                    else:
                        b.basis = ()
                    res.append("modified")
                except Exception as e:
                    res.append("raised")
            return res + [norm([np.asarray(m.toarray() if hasattr(m, "toarray") else m) for m in c1.basis()])]
        if name == "lindbladian":
            from quara.objects.qoperation_typical import generate_effective_lindbladian_object
            from quara.objects.effective_lindbladian import generate_effective_lindbladian_from_h
            el = generate_effective_lindbladian_from_h(c1, np.array([[0.3, 0.1 - 0.2j], [0.1 + 0.2j, -0.3]]))
            return [el.hs, el.calc_h_mat(), el.calc_k_mat(), el.to_gate(), el.is_physical()]
        if name == "ensemble":
            e = comp(P["m0"], P["s0"])
            return [e, comp(P["g0"], e), comp(P["p0"], e)]
        raise core.MachineryError("unknown pure action " + name)

    def pool_snapshot(self):
        snap = {k: raw_snapshot(v) for k, v in self.P.items()}
        for nm, c in (("c1", self.c1), ("c2", self.c2)):
            snap["basis_" + nm] = tuple(raw(np.asarray(m.toarray() if hasattr(m, "toarray") else m)) for m in c.basis())
        for (t, d), dat in self.data.items():
            snap["data_%s_%s" % (t, d)] = tuple(raw(f) for (_, f) in dat)
        for t, ws in self.custom.items():
            snap["custom_" + t] = tuple(raw(w) for w in ws)
        return snap


def set_atol(changed):
    from quara.settings import Settings
    Settings.set_atol(1e-6 if changed else 1e-13)


class Replayer:
    def __init__(self, chk, family):
        self.chk = chk
        self.family = family
        self.ref = {}        # term key -> reference digest from a fresh world

    def fresh_digest(self, kind, name, args, atol):
        key = json.dumps([kind, name, args, atol])
        if key in self.ref:
            return self.ref[key]
        # the reference world is built under the default tolerance and switched afterwards, like the world under test:
        # objects capture tolerance-derived defaults (eps_proj_physical = atol / 10) when they are constructed
        from quara.settings import Settings
        prev = Settings.get_atol()          # the world under test keeps ITS tolerance: computing a reference must not reset it
        set_atol(False)
        try:
            w = World(self.family)
            set_atol(atol == "changed")
            if kind == "pure":
                val = digest(w.pure(name))
            else:
                val = digest(w.estimate(*args))
        except Exception as e:
            val = "EXC:" + type(e).__name__
        finally:
            Settings.set_atol(prev)
        self.ref[key] = val
        return val

    def construct(self, st):
        """A world in the specification state `st` (built tables, tolerance, loss/algo configuration)."""
        # every world is BUILT under the default tolerance (objects capture tolerance-derived defaults when constructed);
        # the tolerance of the state is installed afterwards
        set_atol(False)
        w = World(self.family)
        for t in st["built"]:
            w.build(t)
        for t in TABLE_ATTR:
            if t not in st["built"] and t in w.built():
                # a group member that must not be built in this state
                w.delete(t)
        if st["loss"]["tomo"] != "none":
            mode = "identity" if st["loss"]["weights"][0] == "none" else st["loss"]["weights"][0]
            try:
                w.estimate(st["loss"]["tomo"], st["loss"]["q"], mode)
            except Exception:
                pass
        set_atol(st["atol"] == "changed")
        return w

    def walk(self, walk):
        chk = self.chk
        try:
            w = self.construct(walk[0]["from"])
            for n, tr in enumerate(walk):
                if not self.step(w, tr, walk, n):
                    return
            self.epilogue(w, walk)
        finally:
            set_atol(False)

    def epilogue(self, w, walk):
        """every read of the walk once more at its end: a read is idempotent along the history (a call that toggles a cached
        table in place shows only in its own repetition).  Quick tier: the conversions and compositions; thorough: all reads."""
        chk = self.chk
        names = []
        for tr in walk:
            nm = tr["arg"].get("name") if tr["act"] == "Pure" else None
            if nm and nm not in names and (chk.tier == "thorough" or not nm.startswith(("proj_", "physproj_"))):
                names.append(nm)
        atol = walk[-1]["to"]["atol"]
        for nm in names:
            exc = None
            try:
                res = digest(w.pure(nm))
            except Exception as e:
                exc = e
                res = "EXC:" + type(e).__name__
            chk.count(1, ("repeat", nm))
            want = self.fresh_digest("pure", nm, [], atol)
            if res != want and not (exc is None and self.numerically_equal(w, nm, atol)):
                chk.violation("history_dependent:repeat:%s" % nm, "%s repeated at the end of the walk gives %s, in a fresh world %s%s" % (
                    nm, res, want, " exception %r" % exc if exc else ""), dict(walk=_slim(walk), step=len(walk)))
                return

    def step(self, w, tr, walk, n):
        chk = self.chk
        act, arg = tr["act"], tr["arg"]
        before = w.pool_snapshot()
        built_before = w.built()
        res = None
        exc = None
        try:
            if act == "Pure":
                res = digest(w.pure(arg["name"]))
            elif act == "Build":
                w.build(arg["table"])
            elif act == "Delete":
                w.delete(arg["table"])
            elif act == "SetAtol":
                set_atol(True)
            elif act == "RestoreAtol":
                set_atol(False)
            elif act == "Estimate":
                res = digest(w.estimate(arg["tomo"], arg["data"], arg["mode"]))
        except Exception as e:
            exc = e
            res = "EXC:" + type(e).__name__
        after = w.pool_snapshot()
        chk.count(1, (act, json.dumps(arg, sort_keys=True)))
        label = arg.get("name") or arg.get("table") or ("%s" % arg.get("tomo", ""))
        # operands unchanged
        changed = [k for k in before if before[k] != after[k]]
        if changed:
            chk.violation("mutation:%s:%s:%s" % (act, label, ",".join(changed)),
                          "%s(%s) changed the value of %s" % (act, arg, changed), dict(walk=_slim(walk), step=n))
            return False
        # caches
        built_after = w.built()
        if act == "Delete":
            want = built_before - {arg["table"]}
            if built_after != want:
                chk.violation("cache:delete:%s" % arg["table"], "Delete(%s): built tables %s -> %s" % (arg["table"], sorted(built_before), sorted(built_after)),
                              dict(walk=_slim(walk), step=n))
                return False
        elif act == "Build":
            grp = set(tr["to"]["built"]) - set(tr["from"]["built"]) | {arg["table"]}
            if not grp <= built_after or not built_before <= built_after:
                chk.violation("cache:build:%s" % arg["table"], "Build(%s): built tables %s -> %s" % (arg["table"], sorted(built_before), sorted(built_after)),
                              dict(walk=_slim(walk), step=n))
                return False
        else:
            if not built_before <= built_after:
                chk.violation("cache:dropped:%s:%s" % (act, label), "%s(%s) dropped tables %s" % (act, arg, sorted(built_before - built_after)),
                              dict(walk=_slim(walk), step=n))
                return False
        # keep the real cache state equal to the specification's (extra tables built on the way are
        # dropped again: that is itself a legal history of Delete calls)
        for tb in sorted(w.built() - set(tr["to"]["built"])):
            w.delete(tb)
        # function-ness: same result as in a fresh world
        if act in ("Pure", "Estimate"):
            t = tr["res"]
            args = [arg["tomo"], arg["data"], arg["mode"]] if act == "Estimate" else []
            kind = "pure" if act == "Pure" else "estimate"
            want = self.fresh_digest(kind, arg.get("name", "estimate"), args, t["atol"])
            if res != want:
                if act == "Estimate":
                    self.attribute(w, tr, walk, n, res, want, exc)
                elif exc is None and self.numerically_equal(w, arg["name"], t["atol"]):
                    # the digests round to 1e-10: last-bit differences (another summation order when a cached table is
                    # used) flip a digit when a value sits on a rounding boundary.  Not a dependence on history.
                    chk.notes["digest_rounding_flips"] = chk.notes.get("digest_rounding_flips", 0) + 1
                    return True
                else:
                    chk.violation("history_dependent:%s" % arg["name"],
                                  "%s gives %s here but %s in a fresh world (state %s)%s" % (arg["name"], res, want, tr["from"], " exception %r" % exc if exc else ""),
                                  dict(walk=_slim(walk), step=n))
                return False
        return True

    def numerically_equal(self, w, name, atol, tol=1e-9):
        """re-evaluates the pure action in the world under test and in a fresh world and compares the numbers."""
        def flat(o, out):
            if isinstance(o, (list, tuple)):
                for x in o:
                    flat(x, out)
            elif isinstance(o, dict):
                for k in sorted(o, key=str):
                    flat(o[k], out)
            elif isinstance(o, (bool, np.bool_, str)) or o is None:
                out.append(("tag", o))
            elif isinstance(o, (int, float, complex, np.number)):
                out.append(("num", complex(o)))
            elif isinstance(o, np.ndarray) or sp.issparse(o):
                a = np.asarray(o.toarray() if sp.issparse(o) else o)
                out.append(("shape", a.shape))
                out.extend(("num", complex(x)) for x in a.ravel())
            elif hasattr(o, "vecs"):
                out.append(("tag", type(o).__name__))
                flat(list(o.vecs), out)
            elif hasattr(o, "hss"):
                out.append(("tag", type(o).__name__))
                flat(list(o.hss), out)
                flat(tuple(o.shape), out)
            elif hasattr(o, "hs"):
                out.append(("tag", type(o).__name__))
                flat(np.asarray(o.hs), out)
            elif hasattr(o, "vec"):
                out.append(("tag", type(o).__name__))
                flat(np.asarray(o.vec), out)
            elif hasattr(o, "states") and hasattr(o, "prob_dist"):
                flat(list(o.states), out)
                flat(o.prob_dist, out)
            elif hasattr(o, "ps"):
                flat(np.asarray(o.ps), out)
                flat(tuple(o.shape), out)
            else:
                raise core.MachineryError("cannot compare %r numerically" % type(o))
        import scipy.sparse as sp
        try:
            here, ref = [], []
            flat(w.pure(name), here)
            set_atol(False)
            w2 = World(self.family)
            set_atol(atol == "changed")
            flat(w2.pure(name), ref)
        except Exception:
            return False
        if len(here) != len(ref):
            return False
        for (ka, a), (kb, b) in zip(here, ref):
            if ka != kb:
                return False
            if ka == "num":
                if abs(a - b) > tol * (1 + abs(b)):
                    return False
            elif a != b:
                return False
        return True

    def attribute(self, w, tr, walk, n, res, want, exc):
        """An estimate with re-used objects differs from the fresh one: find out which object carries the residue."""
        arg = tr["arg"]
        a = [arg["tomo"], arg["data"], arg["mode"]]
        culprit = []
        prev = tr["from"]["loss"]
        prev_mode = "identity" if prev["weights"][0] == "none" else prev["weights"][0]
        # world whose loss object has the same history but fresh algo, and vice versa
        for which in ("loss", "algo"):
            try:
                w2 = World(self.family)
                if prev["tomo"] != "none":
                    w2.estimate(prev["tomo"], prev["q"], prev_mode)
                if which == "loss":
                    r = digest(w2.estimate(*a, algo=w2._new_algo()))
                else:
                    r = digest(w2.estimate(*a, loss=w2._new_loss()))
            except Exception as e:
                r = "EXC:" + type(e).__name__
            if r != want:
                culprit.append(which)
        what = "+".join(culprit) or "both-needed"
        detail = "%s->%s" % (prev_mode if prev["tomo"] != "none" else "fresh", arg["mode"])
        same_tomo = "same_tomo" if prev["tomo"] == arg["tomo"] else "other_tomo"
        self.chk.violation("estimate_residue:%s:%s:%s:%s" % (self.family, what, detail, same_tomo),
                           "Estimate%s with re-used objects (previously configured for %s) gives %s, with fresh objects %s; residue in: %s%s" % (
                               tuple(a), (prev["tomo"], prev["q"], prev_mode), res, want, what, " (%r)" % exc if exc else ""),
                           dict(walk=_slim(walk), step=n))


def _slim(walk):
    return [dict(act=t["act"], arg=t["arg"]) for t in walk]


def run(chk):
    rng = random.Random(chk.seed)
    t = chk.tier
    chk.tlc("mc/MC_C13", "mc/MC_C13_%s.cfg" % t, workers=16, label="MC_C13 combined " + t)
    # vacuity witness: the as-coded configuration order must violate NoResidue
    r = core.run_tlc("mc/MC_C13", "mc/MC_C13_ascoded.cfg", workers=4)
    if r.ok or r.violated not in ("NoResidue", "ExtConsistent"):
        raise core.MachineryError("the as-coded instance of QPool does not violate NoResidue (vacuity witness lost)")
    chk.tlc_runs.append(dict(instance="MC_C13 ascoded (expected violation of %s)" % r.violated, **r.as_dict()))
    chk.states += r.distinct
    chk.transitions += r.generated
    init_key = None
    for part, families in (("cache", ["se_fast"]), ("est", ["se_fast", "re_fast"] if t == "quick" else ["se_fast", "re_fast", "se", "re"])):
        r = chk.tlc("mc/MC_C13", "mc/MC_C13_%s_%s_emit.cfg" % (part, t), workers=1, label="MC_C13 %s emit %s" % (part, t))
        g = graphwalk.Graph(r.emitted)
        for fam in families:
            rp = Replayer(chk, fam)
            walks = g.cover_walks(8 if part == "cache" else 5, rng)
            init = [k for k in g.out if json.loads(k)["loss"]["tomo"] == "none" and json.loads(k)["atol"] == "default" and not json.loads(k)["built"]]
            walks += g.random_walks((40 if t == "quick" else 300) if part == "cache" else (25 if t == "quick" else 150),
                                    25 if part == "cache" else 8, rng, starts=set(init))
            for wk in walks:
                rp.walk(wk)
                chk.replayed += 1
            chk.notes["%s_%s_walks" % (part, fam)] = len(walks)
            chk.sample(dict(part=part, family=fam, walk=_slim(walks[len(walks) // 2][:6])))
        chk.notes["%s_transitions" % part] = len(r.emitted)
    # life cycle of single objects (spec/QObjLife.tla): set_zero / set_mode_proj_order / copy against reads
    from harness.props import objlife, explife
    objlife.run_part(chk, rng)
    # life cycle of one Experiment (spec/QExpLife.tla): item assignment / setters / copy against runs of its schedules
    explife.run_part(chk, rng)
    chk.assumptions += [
        "results are compared through hashes of values rounded to 1e-10; operand snapshots are byte-exact",
        "constructors adopt the arrays handed to them (excepted by the property)",
        "the result of a query without explicit atol is a function of the global tolerance in force, which the term records",
    ]
    return chk.finish(rule="every transition of the two projections of QPool (cache x pure operations x tolerance; estimation with re-used loss/algorithm objects) and of QObjLife (reads x set_zero x set_mode_proj_order x copy, pairs of object kinds) and QExpLife (item assignment x setter x copy x runs of one Experiment) + seeded long walks; each compared with the same call in a fresh world / on a freshly constructed object")
