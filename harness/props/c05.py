"""C05 - physical projection returns the nearest physical object.

TLC (MC_C05 over QProj): the Dykstra-type machine of calc_proj_physical in exact rational arithmetic
on spectral coordinates: K sweeps from every grid point (and a list of longer vectors), both
projection orders; invariants: the closed form (simplex projection) is physical and nearest
(variational inequality against every physical grid point, the vertices and the centre), physical
inputs are fixed, conservation x0 = x + p + q, iterates feasible for their constraint, the distance
to the nearest physical point never increases (action property), err = 0 only at the fixed point.
Binding: each behaviour is concretised on every fragment of matching size (states in any frame,
POVMs with a common eigenframe, Weyl-diagonal gates / measurement processes in a local frame); the
recorded iteration history of calc_proj_physical (x, y, p, q, error_value) must equal the exact
iterates sweep by sweep; the returned object must be the closed form to the accuracy its threshold
implies, for both orders, several thresholds, object-level and variable-level routines under both
flags; physical inputs are returned unchanged; every run terminates before max_iteration.  For
generic (non-commuting) inputs only feasibility, order independence, object/variable agreement,
fixed points and history consistency are checked (no closed form)."""
import io
import contextlib
from collections import defaultdict

import numpy as np

from harness import core, coords, spectral


def stacked(o):
    return np.asarray(o.to_stacked_vector(), dtype=float).ravel()


def run_behaviour(chk, u0, order, states, frags):
    n = len(u0)
    u = coords.rvec(u0)
    np_exact = coords.rvec(states[0]["np"])
    K = max(s["s"]["k"] for s in states)
    by_k = {s["s"]["k"]: s["s"] for s in states}
    for fr in frags.get(n, []):
        tag = "%s:%s:n%d:%s" % (fr.typ, fr.shape, n, order)
        chk.count(1, (tag, tuple(x[0] for x in u0), tuple(x[1] for x in u0)))
        case = dict(u0=u0, order=order, fragment=tag)
        obj = fr.build(u, mode_proj_order=order, eps_proj_physical=1e-300)
        # (a) exact iterates of the first K sweeps
        try:
            buf = io.StringIO()
            with contextlib.redirect_stdout(buf):
                res, hist = obj.calc_proj_physical(max_iteration=K, is_iteration_history=True)
        except Exception as e:
            chk.violation("history:exception:" + tag, "%r" % e, case)
            continue
        for k in range(1, min(K, len(hist["x"]) - 1) + 1):
            s = by_k[k]
            for name in ("x", "y", "p", "q"):
                got, off = fr.read(hist[name][k])
                want = coords.rvec(s[name])
                if not coords.close(got, want, 1e-9) or off > 1e-8:
                    chk.violation("history:%s:%s" % (name, tag), "sweep %d: %s = %s, exact iterate %s (off-fragment %.2g)" % (k, name, np.round(got, 7), want, off), case)
                    break
            else:
                if k >= 2:
                    ev = hist["error_value"][k - 1]
                    want = coords.rat(s["err"]) * fr.metric()
                    if ev is None or abs(ev - want) > 1e-9 * (1 + abs(want)):
                        chk.violation("history:error_value:" + tag, "sweep %d: error_value %r, exact %r" % (k, ev, want), case)
                continue
            break
        # the returned point is the last x of the history
        if not np.array_equal(stacked(res), stacked(hist["x"][-1])):
            chk.violation("history:returned_point:" + tag, "the returned object is not the last iterate of the history", case)
        # (b) limit: closed form, thresholds, orders, object- vs variable-level
        for eps in (1e-14, 1e-10, 1e-6):
            o2 = fr.build(u, mode_proj_order=order, eps_proj_physical=eps)
            buf = io.StringIO()
            with contextlib.redirect_stdout(buf):
                r2, h2 = o2.calc_proj_physical(is_iteration_history=True)
            if "exceeds the limit" in buf.getvalue() or len(h2["x"]) >= 1000:
                chk.violation("termination:" + tag, "calc_proj_physical did not stop before max_iteration (eps %g)" % eps, case)
                continue
            got, off = fr.read(r2)
            tol = 50 * np.sqrt(eps / fr.metric()) * (1 + np.linalg.norm(u))
            if np.max(np.abs(got - np_exact)) > tol or off > tol:
                chk.violation("nearest:%s" % tag, "eps=%g: result %s, nearest physical point %s (tolerance %.2g)" % (eps, np.round(got, 7), np_exact, tol), case)
            if not r2.is_physical(atol_eq_const=max(1e-7, 100 * np.sqrt(eps)), atol_ineq_const=max(1e-7, 100 * np.sqrt(eps))):
                chk.violation("unphysical:%s" % tag, "eps=%g: the projection is not physical to the accuracy of its threshold" % eps, case)
            # stopping rule: the loop stops at the FIRST k >= 1 whose error value is below eps
            ev = [e for e in h2["error_value"] if e is not None]
            if ev and (ev[-1] >= eps or any(e < eps for e in ev[:-1])):
                chk.violation("stopping_rule:%s" % tag, "eps=%g: error values %s" % (eps, ev[-3:]), case)
            if eps == 1e-14:
                # variable-level routine, both flags
                for para in (False, True):
                    try:
                        # under the built-in parametrisation the operand must lie on the equality constraint
                        src = fr.build(u if not para else u - (u.sum() - 1.0) / len(u), on_para_eq_constraint=para,
                                       mode_proj_order=order, eps_proj_physical=eps)
                        v = np.asarray(src.to_var()).copy()
                        keep = v.copy()
                        buf = io.StringIO()
                        with contextlib.redirect_stdout(buf):
                            rv = src.calc_proj_physical_with_var(v, on_para_eq_constraint=para)
                            ro = src.calc_proj_physical()
                        if not coords.close(np.asarray(rv), np.asarray(ro.to_var()), 1e-6):
                            chk.violation("var_vs_obj:%s:%s" % ("para" if para else "nopara", tag), "calc_proj_physical_with_var differs from calc_proj_physical().to_var()", case)
                        if not np.array_equal(v, keep):
                            chk.violation("mutation:with_var:%s" % tag, "calc_proj_physical_with_var modified its argument", case)
                    except Exception as e:
                        chk.violation("var:exception:%s:%s" % ("para" if para else "nopara", tag), "%r" % e, case)
        # (c) physical input is returned unchanged
        if np.all(u >= 0) and abs(u.sum() - 1) < 1e-12:
            o3 = fr.build(u, mode_proj_order=order)
            r3 = o3.calc_proj_physical()
            if not coords.close(stacked(r3), stacked(o3), 1e-10):
                chk.violation("fixed_point:%s" % tag, "a physical object is changed by the physical projection", case)


GENERIC_NAMES = {
    "qubit": dict(povm=("x", "y", "z"), gate=("x90", "hadamard", "y90"), mprocess=("x-type1", "z-type2"), state=("a",)),
    "qutrit": dict(povm=("z3", "01x3", "12y3"), gate=("01x90", "12y90", "02z90"), mprocess=("z3-type1", "z2-type2"), state=("01z0", "0_1_2_superposition")),
    "qubit2": dict(povm=("x_x", "bell", "y_z"), gate=("cx", "zx90", "swap"), mprocess=("bell-type1", "zzparity-type1"), state=("bell_phi_plus", "x0_x1")),
}


def generic_inputs(chk, rs, n_cases, system="qubit"):
    """Non-commuting POVMs and generic gates / measurement processes: no closed form - feasibility, order
    independence, object/variable agreement, fixed point and history consistency only."""
    from quara.objects.povm import Povm
    from quara.objects.gate import Gate
    from quara.objects.mprocess import MProcess
    from quara.objects.state import State
    from harness import qobjs
    c = {"qubit": lambda: qobjs.csys("qubit", 1), "qutrit": lambda: qobjs.csys("qutrit", 1), "qubit2": lambda: qobjs.csys("qubit", 2)}[system]()
    names = GENERIC_NAMES[system]
    nn = c.dim ** 2
    sfx = "" if system == "qubit" else ":" + system
    for i in range(n_cases):
        kind = ("povm", "gate", "mprocess", "state")[i % 4] + sfx
        scale = (0.05, 0.3, 3.0, 30.0)[(i // 4) % 4] if system == "qubit" else (0.05, 0.3)[(i // 4) % 2]
        try:
            if kind.startswith("povm"):
                base = qobjs.gen("povm", names["povm"][i % 3], c)
                mk = lambda **kw: Povm(c, [v + scale * 0.1 * np.round(rs_local.randn(nn), 3) for v in base.vecs], is_physicality_required=False, **kw)
            elif kind.startswith("gate"):
                base = qobjs.gen("gate", names["gate"][i % 3], c, ids=[0, 1] if system == "qubit2" else None)
                mk = lambda **kw: Gate(c, base.hs + scale * 0.1 * np.round(rs_local.randn(nn, nn), 3), is_physicality_required=False, **kw)
            elif kind.startswith("mprocess"):
                base = qobjs.gen("mprocess", names["mprocess"][i % 2], c)
                mk = lambda **kw: MProcess(c, [h + scale * 0.1 * np.round(rs_local.randn(nn, nn), 3) for h in base.hss], is_physicality_required=False, **kw)
            else:
                base = qobjs.gen("state", names["state"][i % len(names["state"])], c)
                mk = lambda **kw: State(c, base.vec + scale * 0.1 * np.round(rs_local.randn(nn), 3), is_physicality_required=False, **kw)
            seed = rs.randint(2 ** 31)
            results = {}
            for order in ("eq_ineq", "ineq_eq"):
                rs_local = np.random.RandomState(seed)
                o = mk(mode_proj_order=order, eps_proj_physical=1e-14)
                buf = io.StringIO()
                with contextlib.redirect_stdout(buf):
                    r, h = o.calc_proj_physical(is_iteration_history=True)
                chk.count(1, ("generic", kind, i, order))
                if "exceeds the limit" in buf.getvalue():
                    chk.violation("generic:termination:" + kind, "no termination within max_iteration", dict(kind=kind, i=i))
                    continue
                if not r.is_physical(atol_eq_const=1e-5, atol_ineq_const=1e-5):
                    chk.violation("generic:unphysical:" + kind, "result not physical to stopping accuracy", dict(kind=kind, i=i, order=order))
                # history consistency: conservation, error value recomputed from the logged iterates, returned point
                x0 = stacked(h["x"][0])
                for k in range(1, len(h["x"])):
                    tot = stacked(h["x"][k]) + stacked(h["p"][k]) + stacked(h["q"][k])
                    if not coords.close(tot, x0, 1e-9):
                        chk.violation("generic:conservation:" + kind, "x0 != x_k + p_k + q_k at sweep %d" % k, dict(kind=kind, i=i, order=order))
                        break
                    if k >= 2:
                        ev = float(np.sum((stacked(h["p"][k - 1]) - stacked(h["p"][k])) ** 2) + np.sum((stacked(h["q"][k - 1]) - stacked(h["q"][k])) ** 2))
                        if abs(ev - h["error_value"][k - 1]) > 1e-12 * (1 + ev):
                            chk.violation("generic:error_value:" + kind, "error_value of sweep %d is not recomputable from the logged iterates" % k, dict(kind=kind, i=i, order=order))
                            break
                if not np.array_equal(stacked(r), stacked(h["x"][-1])):
                    chk.violation("generic:returned_point:" + kind, "returned object is not the last iterate", dict(kind=kind, i=i))
                results[order] = stacked(r)
                # projecting the result again changes nothing (it is physical to accuracy)
                r.set_mode_proj_order(order)
                with contextlib.redirect_stdout(io.StringIO()):
                    rr = r.calc_proj_physical()
                if np.max(np.abs(stacked(rr) - stacked(r))) > 1e-5 * (1 + scale):
                    chk.violation("generic:fixed_point:" + kind, "projection of the projection moves by %.3g" % float(np.max(np.abs(stacked(rr) - stacked(r)))), dict(kind=kind, i=i, order=order))
                # variable-level = object-level
                # (without the built-in parametrisation the variables are the stacked vector; with it the operand of the
                # variable-level routine lies on the equality constraint by construction, so the object-level reference
                # is the projection of the equality-projected input)
                for para in (False, True):
                    rs_local = np.random.RandomState(seed)
                    o2 = mk(mode_proj_order=order, eps_proj_physical=1e-14, on_para_eq_constraint=para)
                    with contextlib.redirect_stdout(io.StringIO()):
                        rv = o2.calc_proj_physical_with_var(np.asarray(o2.to_var()).copy(), on_para_eq_constraint=para)
                        ref = stacked(r) if not para else None
                        if para:
                            o3 = o2.generate_from_var(np.asarray(o2.to_var()).copy())
                            o3.set_mode_proj_order(order)
                            ref = np.asarray(o3.calc_proj_physical().to_var())
                    if not coords.close(np.asarray(rv), ref, 1e-6 * (1 + scale)):
                        chk.violation("generic:var_vs_obj:%s:%s" % (kind, "para" if para else "nopara"),
                                      "variable-level routine differs from object-level (max dev %.3g)" % float(np.max(np.abs(np.asarray(rv) - ref))), dict(kind=kind, i=i, order=order))
            # the closures handed to the optimisers, asked for the OTHER parametrisation than the template's own (the flag
            # named in the call decides which vector is meant)
            try:
                rs_local = np.random.RandomState(seed)
                o4 = mk(mode_proj_order="eq_ineq", eps_proj_physical=1e-14)          # template with the default flag (True)
                full = stacked(o4).copy()
                with contextlib.redirect_stdout(io.StringIO()):
                    want_full = stacked(o4.calc_proj_physical())
                    for fname in ("func_calc_proj_physical", "func_calc_proj_physical_with_var"):
                        got = np.asarray(getattr(o4, fname)(on_para_eq_constraint=False)(full.copy()))
                        if got.shape != want_full.shape or not coords.close(got, want_full, 1e-6 * (1 + scale)):
                            chk.violation("generic:closure_explicit_flag:%s:%s" % (fname, kind),
                                          "%s(on_para_eq_constraint=False) on a template built with True does not project the full vector" % fname, dict(kind=kind, i=i))
            except Exception as e:
                chk.violation("generic:closure_explicit_flag:exception:" + kind, "%r" % e, dict(kind=kind, i=i))
            if len(results) == 2 and np.max(np.abs(results["eq_ineq"] - results["ineq_eq"])) > 2e-5 * (1 + scale):
                chk.violation("generic:order_dependence:" + kind, "the two projection orders give different points (max dev %.3g)" % float(np.max(np.abs(results["eq_ineq"] - results["ineq_eq"]))), dict(kind=kind, i=i))
        except Exception as e:
            chk.violation("generic:exception:" + kind, "%r" % e, dict(kind=kind, i=i))


def repeated_projection(chk, rs):
    """The projection is a function of the object's CURRENT value: the same object projected again - after nothing, after
    set_zero() - returns what a freshly constructed object with that value returns."""
    from quara.objects.povm import Povm
    from quara.objects.gate import Gate
    from quara.objects.mprocess import MProcess
    from quara.objects.state import State
    from harness import qobjs
    c = qobjs.csys("qubit", 1)
    mk = {
        "state": lambda: State(c, qobjs.gen("state", "a", c).vec + 0.3 * np.round(rs_l.randn(4), 3), is_physicality_required=False),
        "povm": lambda: Povm(c, [v + 0.2 * np.round(rs_l.randn(4), 3) for v in qobjs.gen("povm", "x", c).vecs], is_physicality_required=False),
        "gate": lambda: Gate(c, qobjs.gen("gate", "x90", c).hs + 0.2 * np.round(rs_l.randn(4, 4), 3), is_physicality_required=False),
        "mprocess": lambda: MProcess(c, [h + 0.2 * np.round(rs_l.randn(4, 4), 3) for h in qobjs.gen("mprocess", "z-type1", c).hss], is_physicality_required=False),
    }
    for kind in ("state", "povm", "gate", "mprocess"):
        for order in ("eq_ineq", "ineq_eq"):
            seed = rs.randint(2 ** 31)
            chk.count(1, ("repeated", kind, order))
            ctx = dict(kind=kind, order=order, seed=int(seed))
            try:
                rs_l = np.random.RandomState(seed)
                o = mk[kind]()
                o.set_mode_proj_order(order)
                first = stacked(o.calc_proj_physical())
                again = stacked(o.calc_proj_physical())
                if not np.allclose(first, again, rtol=0, atol=1e-12):
                    chk.violation("repeated:same:%s" % kind, "the second projection of the same unchanged object differs from the first", ctx)
                    continue
                o.set_zero()
                z = o.generate_zero_obj()
                z.set_mode_proj_order(order)
                want = stacked(z.calc_proj_physical())
                got = stacked(o.calc_proj_physical())
                if got.shape != want.shape or not np.allclose(got, want, rtol=0, atol=1e-9):
                    chk.violation("repeated:after_set_zero:%s" % kind, "the projection of an object after set_zero() differs from the projection of the zero object "
                                  "(max dev %.3g; distance to the projection before set_zero() %.3g)" % (float(np.max(np.abs(got - want))), float(np.max(np.abs(got - first)))), ctx)
            except Exception as e:
                chk.violation("repeated:exception:%s" % kind, "%r" % e, ctx)


def multi_axis_mprocess(chk, rs):
    """Measurement processes whose outcomes are laid out on more than one axis (shape (2, 2): what composing two two-outcome
    processes gives).  The projection is the one of the same operators laid out on one axis, and keeps the layout.
    (On the tree before 64437b4 the projection raised: the arithmetic it uses dropped the shape.)"""
    from quara.objects.mprocess import MProcess
    from harness import qobjs
    c = qobjs.csys("qubit", 1)
    z, x = qobjs.gen("mprocess", "z-type1", c), qobjs.gen("mprocess", "x-type1", c)
    for trial, scale in enumerate((0.0, 0.05, 0.5)):
        for order in ("eq_ineq", "ineq_eq"):
            chk.count(1, ("multi_axis", trial, order))
            ctx = dict(shape=[2, 2], noise=scale, order=order)
            try:
                hss = [0.5 * h + scale * 0.1 * np.round(rs.randn(4, 4), 3) for h in list(z.hss) + list(x.hss)]
                m22 = MProcess(c, [h.copy() for h in hss], shape=(2, 2), is_physicality_required=False, mode_proj_order=order)
                m4 = MProcess(c, [h.copy() for h in hss], is_physicality_required=False, mode_proj_order=order)
                for name, r in (("+", m22 + m22), ("-", m22 - m22), ("*", m22 * 2.0), ("/", m22 / 2.0)):
                    if tuple(r.shape) != (2, 2):
                        chk.violation("multi_axis:arithmetic_shape", "the result of '%s' on measurement processes of shape (2, 2) has shape %s" % (name, tuple(r.shape)), ctx)
                p22 = m22.calc_proj_physical()
                p4 = m4.calc_proj_physical()
                if tuple(p22.shape) != (2, 2):
                    chk.violation("multi_axis:shape", "the projection of a measurement process of shape (2, 2) has shape %s" % (tuple(p22.shape),), ctx)
                if not np.allclose(stacked(p22), stacked(p4), rtol=0, atol=1e-10):
                    chk.violation("multi_axis:value", "the projection depends on the layout of the outcomes (max dev %.3g between shape (2, 2) and (4,))" % float(
                        np.max(np.abs(stacked(p22) - stacked(p4)))), ctx)
            except Exception as e:
                chk.violation("multi_axis:exception", "%r" % e, ctx)


def run(chk):
    rs = np.random.RandomState(chk.seed % (2 ** 31))
    t = chk.tier
    chk.tlc("mc/MC_C05", "mc/MC_C05_%s.cfg" % t, workers=16, label="MC_C05 " + t)
    r = chk.tlc("mc/MC_C05", "mc/MC_C05_%s_emit.cfg" % t, workers=16, label="MC_C05 emit " + t)
    groups = defaultdict(list)
    for e in r.emitted:
        groups[(str(e["u0"]), e["order"])].append(e)
    sizes = sorted({len(e["u0"]) for e in r.emitted})
    frags = {n: spectral.fragments_for(n, rs, t) for n in sizes}
    for i, ((_, order), states) in enumerate(sorted(groups.items())):
        # quick tier: every behaviour of length-2 vectors, a third of the others
        n = len(states[0]["u0"])
        if t == "quick" and n >= 3 and i % 3:
            continue
        run_behaviour(chk, states[0]["u0"], order, states, frags)
        chk.replayed += 1
        if i in (2, 300):
            chk.sample(dict(u0=states[0]["u0"], order=order, np=states[0]["np"], sweep1=[s["s"] for s in states if s["s"]["k"] == 1][0]))
    generic_inputs(chk, rs, 16 if t == "quick" else 96)
    # larger systems (the constraint routines index rows / blocks by dim and dim ** 2, which coincide only for one qubit)
    generic_inputs(chk, rs, 4 if t == "quick" else 16, system="qutrit")
    generic_inputs(chk, rs, 4 if t == "quick" else 8, system="qubit2")
    repeated_projection(chk, rs)
    multi_axis_mprocess(chk, rs)
    chk.notes["behaviours"] = len(groups)
    chk.assumptions += [
        "closed-form nearest physical object only on the covariant fragments (states in any frame, POVMs with a common eigenframe, Weyl-diagonal gates / measurement processes); non-commuting POVMs and generic gates: feasibility, order independence, object/variable agreement, fixed point and history consistency only (no semidefinite-programming oracle)",
        "accepted distance to the exact limit: 50*sqrt(eps/metric)*(1+|x0|)",
        "termination is observed (every run stops before max_iteration), not proved",
    ]
    return chk.finish(rule="every behaviour of the exact Dykstra machine (grid start vectors x both orders) x every fragment of that size; distinct = (fragment, start vector, order)")
