"""C08 - the tomography forward model equals the circuit's Born-rule statistics.

TLC: for every configuration (type x tester sets incl. mixed outcome counts x schedule variant x
flag x m) the exact model (A, b) of QTomo satisfies A v + b = circuit statistics on an affine basis
of variable space (origin, origin + e_k, one dense vector) and on the physical catalogue, has one
column per variable, and is normalised on the constraint.  Binding (S->C): the same testers are
built as real objects from the emitted H-coordinates, the four tomography classes are constructed
with the emitted schedules, and calc_matA / calc_vecB are compared entry by entry with (A, b)
(pinning the whole affine map); num_variables, is_fullrank_matA (against the exact rational rank);
the circuit side (generate_prob_dists_sequence, calc_prob_dist(s)) on the physical candidates."""
import json

import numpy as np

from harness import core, coords

TYPE_T = {"qst": "state", "povmt": "povm", "qpt": "gate", "qmpt": "mprocess"}


def build_tomo(tomo):
    from quara.protocol.qtomography.standard.standard_qst import StandardQst
    from quara.protocol.qtomography.standard.standard_povmt import StandardPovmt
    from quara.protocol.qtomography.standard.standard_qpt import StandardQpt
    from quara.protocol.qtomography.standard.standard_qmpt import StandardQmpt
    sys = tuple(tomo["sys"])
    states = [coords.state_from_h(sys, coords.rvec(x), is_physicality_required=False) for x in tomo["states"]]
    povms = [coords.povm_from_h(sys, [coords.rvec(y) for y in p], is_physicality_required=False) for p in tomo["povms"]]
    ty = tomo["type"]
    para = tomo["para"]
    if ty == "qst":
        sc = [[("state", 0), ("povm", j - 1)] for (i, j) in tomo["scheds"]]
        return StandardQst(povms, on_para_eq_constraint=para, schedules=sc)
    if ty == "povmt":
        sc = [[("state", i - 1), ("povm", 0)] for (i, j) in tomo["scheds"]]
        return StandardPovmt(states, tomo["m"], on_para_eq_constraint=para, schedules=sc)
    if ty == "qpt":
        sc = [[("state", i - 1), ("gate", 0), ("povm", j - 1)] for (i, j) in tomo["scheds"]]
        return StandardQpt(states, povms, on_para_eq_constraint=para, schedules=sc)
    sc = [[("state", i - 1), ("mprocess", 0), ("povm", j - 1)] for (i, j) in tomo["scheds"]]
    return StandardQmpt(states, povms, tomo["m"], on_para_eq_constraint=para, schedules=sc)


def build_unknown(tomo, obj):
    sys = tuple(tomo["sys"])
    ty = tomo["type"]
    kw = dict(on_para_eq_constraint=tomo["para"], is_physicality_required=False)
    if ty == "qst":
        return coords.state_from_h(sys, coords.rvec(obj), **kw)
    if ty == "povmt":
        return coords.povm_from_h(sys, [coords.rvec(y) for y in obj], **kw)
    if ty == "qpt":
        return coords.gate_from_h(sys, coords.rmat(obj), **kw)
    return coords.mprocess_from_h(sys, [coords.rmat(M) for M in obj], **kw)


def tag_of(tomo):
    return "%s:%s:m%d:%s" % (tomo["type"], "-".join(tomo["tag"]), tomo["m"], "para" if tomo["para"] else "nopara")


def lib_model(tomo, A, b):
    """(A, b) of the specification in the library's variable coordinates."""
    T = TYPE_T[tomo["type"]]
    sys = tuple(tomo["sys"])
    d = int(np.prod(sys))
    layout = coords.var_layout(T, d, tomo["m"], tomo["para"])
    scale = coords.var_scale(T, sys, tomo["m"], tomo["para"], layout)
    return coords.rmat(A) / scale[None, :], coords.rvec(b), scale


def row_sizes(tomo):
    out = []
    for (i, j) in tomo["scheds"]:
        if tomo["type"] == "qst" or tomo["type"] == "qpt":
            out.append(len(tomo["povms"][j - 1]))
        elif tomo["type"] == "povmt":
            out.append(tomo["m"])
        else:
            out.append(tomo["m"] * len(tomo["povms"][j - 1]))
    return out


def replay(chk, case):
    tomo = case["tomo"]
    tag = tag_of(tomo)

    def bad(clause, msg):
        chk.violation("%s:%s" % (clause, tag), msg, dict(tomo=tomo, clause=clause))

    try:
        qt = build_tomo(tomo)
    except Exception as e:
        bad("construct", "tomography object could not be built: %r" % e)
        return
    A_exp, b_exp, scale = lib_model(tomo, case["A"], case["b"])
    try:
        A = np.asarray(qt.calc_matA())
        b = np.asarray(qt.calc_vecB())
    except Exception as e:
        bad("matA:exception", "calc_matA/calc_vecB raised %r" % e)
        return
    chk.count(A_exp.size + b_exp.size, ("cfg", tag))
    if A.shape != A_exp.shape or not coords.close(A, A_exp):
        where = ""
        if A.shape == A_exp.shape:
            r, c = np.unravel_index(np.argmax(np.abs(A - A_exp)), A.shape)
            where = " first at row %d col %d: %r vs %r" % (r, c, A[r, c], A_exp[r, c])
        bad("matA", "calc_matA() differs from the exact forward model (shape %s vs %s)%s" % (A.shape, A_exp.shape, where))
    if b.shape != b_exp.shape or not coords.close(b, b_exp):
        bad("vecB", "calc_vecB() differs from the exact offset: %s vs %s" % (b, b_exp))
    if qt.num_variables != case["numvar"]:
        bad("num_variables", "num_variables=%d, specification %d" % (qt.num_variables, case["numvar"]))
    # the per-schedule / per-outcome accessors of the same model (used by the CVXPY losses): row (schedule s, outcome x) of (A, b)
    try:
        sizes_ = row_sizes(tomo)
        offs_ = np.cumsum([0] + sizes_)
        for s_, m_ in enumerate(sizes_):
            rows = slice(offs_[s_], offs_[s_ + 1])
            if qt.num_outcomes(s_) != m_:
                bad("num_outcomes", "num_outcomes(%d)=%d, specification %d" % (s_, qt.num_outcomes(s_), m_))
                break
            A1 = np.asarray(qt.get_coeffs_1st_mat(s_))
            b0 = np.asarray(qt.get_coeffs_0th_vec(s_))
            ok = A1.shape == A_exp[rows].shape and coords.close(A1, A_exp[rows]) and b0.shape == b_exp[rows].shape and coords.close(b0, b_exp[rows])
            for x_ in range(m_) if ok else ():
                ok = ok and coords.close(np.asarray(qt.get_coeffs_1st(s_, x_)), A_exp[offs_[s_] + x_]) and abs(float(qt.get_coeffs_0th(s_, x_)) - b_exp[offs_[s_] + x_]) < 1e-12
            if not ok:
                bad("coeffs_accessors", "get_coeffs_1st_mat / get_coeffs_0th_vec / get_coeffs_1st / get_coeffs_0th of schedule %d are not the rows of the exact forward model for that schedule" % s_)
                break
    except Exception as e:
        bad("coeffs_accessors:exception", "%r" % e)
    # informational completeness <=> full column rank (exact rational rank of the specification)
    try:
        full = bool(qt.is_fullrank_matA())
        # the library's predicate is "A has full rank" (rank = min(rows, columns)); for schedule subsets with fewer rows
        # than variables that is full ROW rank.  The property's clause (informationally complete => full column rank)
        # is an invariant of the specification instance; here the predicate is compared with the exact rank.
        nrows = int(sum(row_sizes(tomo)))
        if full != (case["rank"] == min(nrows, case["numvar"])):
            bad("fullrank", "is_fullrank_matA()=%s but exact rank %d of a %d x %d matrix" % (full, case["rank"], nrows, case["numvar"]))
    except Exception as e:
        bad("fullrank:exception", "is_fullrank_matA raised %r" % e)
    # circuit side on physical candidates
    sizes = row_sizes(tomo)
    uniform = len(set(sizes)) == 1
    for ph in case["phys"]:
        dist = coords.rvec(ph["dist"])
        offs = np.cumsum([0] + sizes)
        per_sched = [dist[offs[k]:offs[k + 1]] for k in range(len(sizes))]
        try:
            obj = build_unknown(tomo, ph["obj"])
        except Exception as e:
            bad("unknown:construct:" + ph["name"], "%r" % e)
            continue
        # the variable vector of the object is what the specification says
        v_exp = coords.rvec(ph["var"]) * scale
        if not coords.close(np.asarray(obj.to_var()).ravel(), v_exp):
            bad("to_var:" + ph["name"], "to_var() of the catalogue object differs from the specification's variable vector")
        try:
            seq = qt.generate_prob_dists_sequence(obj)
            got = [np.asarray(x, dtype=float).ravel() for x in seq]
            if len(got) != len(per_sched) or any(not coords.close(g, e) for g, e in zip(got, per_sched)):
                bad("circuit:generate_prob_dists_sequence:" + ("mixed" if not uniform else "uniform"),
                    "running the schedules on %s gives %s, exact %s" % (ph["name"], [list(np.round(g, 6)) for g in got], [list(np.round(e, 6)) for e in per_sched]))
        except Exception as e:
            bad("circuit:generate_prob_dists_sequence:exception", "%s: %r" % (ph["name"], e))
        try:
            pds = qt.calc_prob_dists(obj)
            got = [np.asarray(x, dtype=float).ravel() for x in pds]
            if len(got) != len(per_sched) or any(not coords.close(g, e) for g, e in zip(got, per_sched)):
                bad("model:calc_prob_dists:" + ("mixed" if not uniform else "uniform"),
                    "calc_prob_dists(%s) = %s, exact %s" % (ph["name"], [list(np.round(g, 6)) for g in got], [list(np.round(e, 6)) for e in per_sched]))
            for k in range(len(sizes)):
                g = np.asarray(qt.calc_prob_dist(obj, k), dtype=float).ravel()
                if not coords.close(g, per_sched[k]):
                    bad("model:calc_prob_dist:" + ("mixed" if not uniform else "uniform"),
                        "calc_prob_dist(%s, %d) = %s, exact %s" % (ph["name"], k, g, per_sched[k]))
                    break
        except Exception as e:
            bad("model:calc_prob_dists:exception:" + ("mixed" if not uniform else "uniform"), "%s: %r" % (ph["name"], e))
        chk.count(len(dist))
    # linearity of the library's own model on dyadic combinations is implied by A, b being arrays


def run(chk):
    t = chk.tier
    chk.tlc("mc/MC_C08", "mc/MC_C08_%s.cfg" % t, workers=16, label="MC_C08 " + t, timeout=7000)
    r = chk.tlc("mc/MC_C08", "mc/MC_C08_%s_emit.cfg" % t, workers=1, label="MC_C08 emit " + t, timeout=7000)
    # larger systems (one qutrit, two qubits; testers from the exact catalogue): MC_C08_big, same emission format
    rb = chk.tlc("mc/MC_C08_big", "mc/MC_C08_big_%s.cfg" % t, workers=8, label="MC_C08_big " + t, timeout=7000)
    for i, case in enumerate(list(r.emitted) + list(rb.emitted)):
        replay(chk, case)
        chk.replayed += 1
        if i in (0, 40):
            chk.sample(dict(tomo=dict(type=case["tomo"]["type"], tag=case["tomo"]["tag"], m=case["tomo"]["m"], para=case["tomo"]["para"],
                                      scheds=case["tomo"]["scheds"]), A_first_row=case["A"][0], b_head=case["b"][:3], rank=case["rank"],
                            phys=[p["name"] for p in case["phys"]]))
    chk.assumptions += [
        "1-qubit tester sets from the exact catalogue (complete, over-complete, deficient, mixed outcome counts), plus the standard qutrit and two-qubit tester sets (MC_C08_big: state and POVM tomography; qutrit process tomography and two-qubit POVM tomography in the thorough tier); all candidates through the affine-basis argument on the specification",
        "the library's circuit side clips and renormalises, so it is compared on physical candidates only",
    ]
    return chk.finish(exhaustive=True, rule="every configuration emitted by TLC; every entry of (A, b); distinct = configurations")
