"""C20 - Experiments and tomographies accept exactly the well-formed schedules.

(1) TLC: MC_C20 (language invariants on an abstract alphabet), MC_C20_exp (Experiment machine).
(2) C->S: every word over a concrete alphabet (well-formed and malformed items) up to length L, for
    several list-size configurations, is fed to Experiment(...); the observed verdict per word is a
    line of an ndjson trace validated by TLC against QSchedule (Trace_C20).
(3) S->C: every transition of the Experiment machine emitted by TLC is replayed on a real
    Experiment (edge cover + seeded random walks); verdict class and the state after are compared.
(4) Tomography constructors with custom schedules: C->S as (2); accepted schedules are executed.
"""
import itertools
import json
import random

import numpy as np

from harness import core, graphwalk
from harness import qobjs

KINDS = ["state", "povm", "gate", "mprocess"]


def _alphabet():
    toks = []
    for k in KINDS:
        for i in (-1, 0, 1, 2):
            toks.append(((k, i), dict(t="ok", k=k, i=i)))
    toks += [
        (("state",), dict(t="arity1", k="state", i=0)),
        (("povm", 0, 0), dict(t="arity3", k="povm", i=0)),
        (["povm", 0], dict(t="list", k="povm", i=0)),
        ((0, 0), dict(t="kindint", k="0", i=0)),
        (("povm", 0.0), dict(t="idxfloat", k="povm", i=0)),
        (("povm", True), dict(t="idxbool", k="povm", i=1)),
        (("gate", "0"), dict(t="idxstr", k="gate", i=0)),
        (("mprocess", None), dict(t="idxnone", k="mprocess", i=0)),
        (("State", 0), dict(t="ok", k="State", i=0)),
        (("foo", 0), dict(t="ok", k="foo", i=0)),
    ]
    return toks


def _classify(exc):
    from quara.qcircuit.experiment import QuaraScheduleItemError, QuaraScheduleOrderError
    if exc is None:
        return "accept"
    if type(exc) is QuaraScheduleItemError:
        return "item"
    if type(exc) is QuaraScheduleOrderError:
        return "order"
    return "other:" + type(exc).__name__


def _lists_for(sizes, pool):
    return {k: [pool[k][j % len(pool[k])] for j in range(sizes[k])] for k in KINDS}


def _try_experiment(scheds, lists):
    from quara.qcircuit.experiment import Experiment
    try:
        Experiment(schedules=scheds, states=lists["state"], povms=lists["povm"], gates=lists["gate"],
                   mprocesses=lists["mprocess"])
        return None
    except Exception as e:  # noqa
        return e


def language_events(chk, maxlen, size_cfgs, pairs, rng):
    pool = qobjs.pool_1qubit()
    toks = _alphabet()
    events, calls = [], []
    for sizes in size_cfgs:
        sz = dict(zip(KINDS, sizes))
        lists = _lists_for(sz, pool)
        for L in range(0, maxlen + 1):
            for combo in itertools.product(range(len(toks)), repeat=L):
                py = [toks[c][0] for c in combo]
                ab = [toks[c][1] for c in combo]
                v = _classify(_try_experiment([py], lists))
                events.append(dict(op="exp", sizes=sz, scheds=[ab], v=v))
        # longer schedules over the well-formed items only (indices 0 and 1 of every kind): the order rules - one state first,
        # one POVM or measurement process last, nothing else twice - concern the whole word, whatever its length
        if all(sizes):
            wf = [i for i, t in enumerate(toks) if t[1]["t"] == "ok" and t[1]["k"] in KINDS and t[1]["i"] in (0, 1) and (t[1]["i"] == 0 or t[1]["k"] == "povm")]
            for L in range(maxlen + 1, 6):
                for combo in itertools.product(wf, repeat=L):
                    py = [toks[c][0] for c in combo]
                    ab = [toks[c][1] for c in combo]
                    v = _classify(_try_experiment([py], lists))
                    events.append(dict(op="exp", sizes=sz, scheds=[ab], v=v))
        # lists of two schedules (precedence between item and order errors)
        words = [[rng.randrange(len(toks)) for _ in range(rng.randint(1, 3))] for _ in range(pairs)]
        good = [[0 * 4 + 1, 1 * 4 + 1], [0 * 4 + 1, 2 * 4 + 1, 1 * 4 + 1], [0 * 4 + 1, 3 * 4 + 1]]
        for n in range(pairs):
            a = rng.choice(good + words)
            b = rng.choice(good + words)
            py = [[toks[c][0] for c in a], [toks[c][0] for c in b]]
            ab = [[toks[c][1] for c in a], [toks[c][1] for c in b]]
            v = _classify(_try_experiment(py, lists))
            events.append(dict(op="exp", sizes=sz, scheds=ab, v=v))
        v = _classify(_try_experiment([], lists))
        events.append(dict(op="exp", sizes=sz, scheds=[], v=v))
    return events


def tomo_events(chk, maxlen):
    """Custom schedule arguments of the four tomography classes."""
    from quara.protocol.qtomography.standard.standard_qst import StandardQst
    from quara.protocol.qtomography.standard.standard_povmt import StandardPovmt
    from quara.protocol.qtomography.standard.standard_qpt import StandardQpt
    from quara.protocol.qtomography.standard.standard_qmpt import StandardQmpt
    pool = qobjs.pool_1qubit()
    states = pool["tester_states"]
    povms = pool["tester_povms"]
    ns, npv = len(states), len(povms)
    ctors = {
        "qst": lambda sc: StandardQst(povms, schedules=sc),
        "povmt": lambda sc: StandardPovmt(states, num_outcomes=2, schedules=sc),
        "qpt": lambda sc: StandardQpt(states, povms, schedules=sc),
        "qmpt": lambda sc: StandardQmpt(states, povms, num_outcomes=2, schedules=sc),
    }
    true_objs = {"qst": pool["state"][1], "povmt": pool["povm"][1], "qpt": pool["gate"][1],
                 "qmpt": pool["mprocess"][0]}
    nst = {"qst": 1, "povmt": ns, "qpt": ns, "qmpt": ns}
    npo = {"qst": npv, "povmt": 1, "qpt": npv, "qmpt": npv}
    alpha = [(k, i) for k in KINDS for i in (0, 1, 4)]
    events = []
    executed = 0
    for ty, ctor in ctors.items():
        for L in range(1, maxlen + 1):
            for word in itertools.product(alpha, repeat=L):
                sc = [list(word)]
                ab = [[dict(t="ok", k=k, i=i) for (k, i) in word]]
                try:
                    qt = ctor(sc)
                    v = "accept"
                except Exception as e:  # any rejection class is fine for the tomography layer
                    qt = None
                    v = "reject"
                events.append(dict(op="tomo", type=ty, ns=nst[ty], np=npo[ty], scheds=ab, v=v))
                if qt is not None:
                    # every accepted schedule ending in its only POVM can be executed
                    try:
                        ps = qt.calc_prob_dist(true_objs[ty], 0)
                        ps = np.asarray(ps, dtype=float)
                        ok = abs(ps.sum() - 1.0) < 1e-9 and (ps >= -1e-12).all()
                    except Exception as e:
                        ok = False
                        ps = repr(e)
                    executed += 1
                    if not ok and word[-1][0] == "povm":
                        chk.violation("tomo-run:%s:%s" % (ty, _wkey(word)),
                                      "accepted %s schedule %r does not execute to a normalised distribution: %r" % (ty, word, ps),
                                      dict(type=ty, schedule=word))
        # "all"
        try:
            qt = ctor("all")
            got = [[dict(t="ok", k=k, i=i) for (k, i) in s] for s in qt._experiment.schedules]
            events.append(dict(op="tomo", type=ty, ns=nst[ty], np=npo[ty], scheds=got, v="accept"))
            chk.notes.setdefault("tomo_all", {})[ty] = len(got)
        except Exception as e:
            chk.violation("tomo-all:%s" % ty, "schedules='all' rejected: %r" % e, dict(type=ty))
        # unknown string
        try:
            ctor("everything")
            chk.violation("tomo-str:%s" % ty, "unknown schedules string accepted", dict(type=ty))
        except Exception:
            pass
    chk.notes["tomo_executed"] = executed
    return events


def _wkey(word):
    return "-".join("%s%d" % (k[0] if k != "mprocess" else "M", i) for (k, i) in word)


def _validate(chk, events, label):
    r = core.validate_traces("trace/Trace_C20", "trace/Trace_C20.cfg", events)
    chk.states += r.distinct
    chk.transitions += r.generated
    chk.tlc_runs.append(dict(instance="Trace_C20:" + label, lines=len(events), **r.as_dict()))
    rep = [e for e in r.emitted if "consumed" in e]
    if not rep or rep[-1]["consumed"] != len(events):
        raise core.MachineryError("trace validation did not consume all %d lines (%s)" % (len(events), rep[-1:] ))
    chk.validated += len(events)
    return sorted(rep[-1]["bad"])


def _exp_key(ev):
    def item(it):
        return "%s:%s:%s" % (it["t"], it["k"], it["i"])
    return "|".join(",".join(item(it) for it in s) for s in ev["scheds"])


# ------------------------------------------------------------------------------------------
# S->C: the Experiment machine
# ------------------------------------------------------------------------------------------
def _py_item(it):
    t = it["t"]
    if t == "ok":
        return (it["k"], it["i"])
    if t == "arity1":
        return (it["k"],)
    if t == "idxbool":
        return (it["k"], bool(it["i"]))
    raise core.MachineryError("unmodelled item tag " + t)


def _py_scheds(scheds):
    return [[_py_item(it) for it in s] for s in scheds]


def _mk_list(kind, abs_list, pool):
    out = []
    for j, c in enumerate(abs_list):
        out.append(pool[kind][j % len(pool[kind])] if c == "o" else None)
    return out


def _project(exp):
    lists = {}
    for k, attr in (("state", "states"), ("povm", "povms"), ("gate", "gates"), ("mprocess", "mprocesses")):
        lists[k] = ["n" if o is None else "o" for o in getattr(exp, attr)]
    scheds = []
    for s in exp.schedules:
        scheds.append([_abs_item(it) for it in s])
    return dict(lists=lists, scheds=scheds)


def _abs_item(it):
    if type(it) is tuple and len(it) == 2 and type(it[1]) is int:
        return dict(t="ok", k=it[0], i=it[1])
    if type(it) is tuple and len(it) == 1:
        return dict(t="arity1", k=it[0], i=0)
    if type(it) is tuple and len(it) == 2 and type(it[1]) is bool:
        return dict(t="idxbool", k=it[0], i=int(it[1]))
    return dict(t="?", k=str(it), i=0)


def replay_walk(chk, walk, pool):
    from quara.qcircuit.experiment import Experiment
    st = walk[0]["from"]
    lists = {k: _mk_list(k, st["lists"][k], pool) for k in KINDS}
    try:
        exp = Experiment(schedules=_py_scheds(st["scheds"]), states=lists["state"], povms=lists["povm"],
                         gates=lists["gate"], mprocesses=lists["mprocess"])
    except Exception as e:
        chk.violation("machine-init", "reachable specification state cannot be constructed: %r" % e, walk[0])
        return
    for n, tr in enumerate(walk):
        act, arg = tr["act"], tr["arg"]
        exc = None
        res = None
        try:
            if act == "SetList":
                new = _mk_list(arg["kind"], arg["new"], pool)
                setattr(exp, {"state": "states", "povm": "povms", "gate": "gates", "mprocess": "mprocesses"}[arg["kind"]], new)
            elif act == "SetSchedules":
                exp.schedules = _py_scheds(arg["new"])
            elif act == "Run":
                res = exp.calc_prob_dist(arg["index"])
        except Exception as e:  # noqa
            exc = e
        if act == "Run":
            if exc is None:
                ps = np.asarray(res, dtype=float)
                obs = "dist" if (abs(ps.sum() - 1) < 1e-9 and (ps >= -1e-12).all()) else "other"
            elif isinstance(exc, ValueError) and "is None" in str(exc):
                obs = "none_error"
            else:
                obs = "error"
        else:
            obs = _classify(exc)
        after = _project(exp)
        chk.count(1, (act, json.dumps(arg, sort_keys=True), graphwalk.key(tr["from"])))
        if obs not in tr["allowed"]:
            chk.violation("machine:%s:obs" % act,
                          "step %d %s(%s): observed %s (%r), specification allows %s" % (n, act, arg, obs, exc, tr["allowed"]),
                          dict(walk=walk, step=n, observed=obs))
            return
        if graphwalk.key(after) != graphwalk.key(tr["to"]):
            chk.violation("machine:%s:state" % act,
                          "step %d %s(%s): state after the call differs from the specification: %s vs %s" % (n, act, arg, after, tr["to"]),
                          dict(walk=walk, step=n, observed=after))
            return


def run(chk):
    rng = random.Random(chk.seed)
    quick = chk.tier == "quick"
    # (1) specification
    chk.tlc("mc/MC_C20", "mc/MC_C20.cfg", workers=8, label="MC_C20 language (MaxLen=5)")
    chk.tlc("mc/MC_C20_exp", "mc/MC_C20_exp.cfg", workers=8, label="MC_C20_exp machine")
    # (2) C->S language
    if quick:
        maxlen, cfgs, pairs = 3, [(1, 2, 2, 2), (2, 1, 0, 1), (1, 0, 1, 0), (0, 1, 1, 1)], 2000
    else:
        maxlen, cfgs, pairs = 4, [(1, 2, 2, 2), (2, 1, 0, 1), (1, 0, 1, 0), (0, 1, 1, 1), (1, 1, 1, 1), (2, 2, 2, 2), (1, 3, 0, 2)], 20000
    if quick:
        events = language_events(chk, maxlen, cfgs, pairs, rng)
        batches = [events]
    else:
        batches = []
        for c in cfgs:
            batches.append(language_events(chk, maxlen if c in cfgs[:3] else 3, [c], pairs, rng))
    nlang = 0
    for bi, events in enumerate(batches):
        for e in events[:2] + events[1000:1002]:
            chk.sample(e, limit=4)
        bad = _validate(chk, events, "language#%d" % bi)
        nlang += len(events)
        for l in bad:
            ev = events[l - 1]
            chk.violation("lang:%s:%s" % (ev["v"], _exp_key(ev)),
                          "Experiment verdict %s for schedules %s with sizes %s is not allowed by QSchedule" % (ev["v"], ev["scheds"], ev["sizes"]), ev)
        for e in events:
            chk.count(1, None)
    chk.nontrivial.add(("lang-lines", nlang))
    # (4) tomography constructors
    tev = tomo_events(chk, 4)
    bad = _validate(chk, tev, "tomography")
    for l in bad:
        ev = tev[l - 1]
        chk.violation("tomo:%s:%s:%s" % (ev["type"], ev["v"], _exp_key(ev)),
                      "%s constructor verdict %s for schedules %s is not what the shape rule says" % (ev["type"], ev["v"], ev["scheds"]), ev)
    chk.count(len(tev))
    # (3) S->C machine
    r = chk.tlc("mc/MC_C20_exp", "mc/MC_C20_exp_emit.cfg", workers=1, label="MC_C20_exp emit")
    g = graphwalk.Graph(r.emitted)
    pool = qobjs.pool_1qubit()
    walks = g.cover_walks(6, rng)
    walks += g.random_walks(300 if quick else 5000, 12, rng)
    for w in walks:
        replay_walk(chk, w, pool)
        chk.replayed += 1
    chk.sample(dict(walk=[dict(act=t["act"], arg=t["arg"], allowed=t["allowed"]) for t in walks[len(walks) // 2][:4]]), limit=6)
    chk.notes["machine_transitions"] = len(r.emitted)
    chk.notes["walks"] = len(walks)
    chk.notes["language_lines"] = nlang
    chk.assumptions += [
        "item alphabet: 16 well-formed (kind, index in -1..2) and 10 malformed tokens; numpy integer indices are not generated (property says 'integer')",
        "when a list contains both an item error and an order error either class is accepted (property states no precedence)",
        "Run() on schedules ending in a measurement process is unconstrained",
    ]
    return chk.finish(exhaustive=True,
                      rule="all words up to length %d over 26 item tokens x %d list-size configurations + seeded pairs; every transition of the Experiment machine (edge cover) + seeded walks" % (maxlen, len(cfgs)))
