"""QINTEROP - exchange formats (spec/QInterop.tla; quara.interface.qiskit.conversion).

Not one of the listed properties (growth of the specification, DESIGN.md 9.7).  TLC proves on a complete basis of gate
inputs (one-hot H-coordinate matrices) plus dense inputs and the exact CP catalogue that the conjugation with the swap of the
two tensor factors turns the Choi matrix sum_kl G(E_kl) (x) E_kl into sum_kl E_kl (x) G(E_kl) and back, and which factor
carries the identity marginal of a trace-preserving map; for the flat-vector form of empirical distributions it proves that
cutting the vector at the cumulative outcome counts inverts the concatenation, and that the list-of-shots branch AS CODED (cut at
(i-1) * label[i]) is the inverse exactly for layouts whose schedules all have as many outcomes (refuted otherwise).
Every case is replayed: convert_gate_quara_to_qiskit / convert_gate_qiskit_to_quara / calc_swap_matrix against the exact
matrices, states and POVMs of the catalogue through their matrix forms and back, and the three empirical-distribution
converters against the AS-CODED model; where the as-coded model differs from the inverse an OBSERVATION is printed (it
violates none of the twenty listed properties).  Evidence: /verif/extra/evidence/QINTEROP.json."""
import os

import numpy as np

from harness import core, coords, qobjs
from harness.props.c02 import cmat
from harness.props.c15 import expect_refuted


def close(a, b, tol=1e-9):
    a, b = np.asarray(a), np.asarray(b)
    return a.shape == b.shape and np.allclose(a, b, rtol=0, atol=tol * (1 + np.max(np.abs(b)) if b.size else tol))


TESTER_STATES = ("z0", "z1", "x0", "y0")
TESTER_POVMS = ("x", "y", "z")


def tomography_case(chk, case, there, bad):
    """a whole tomography through the exchange format: exact statistics in (flat vector, label, shots), the estimate out
    as a matrix of the other package's convention."""
    from quara.interface.qiskit import api, conversion as cv
    c1 = qobjs.csys("qubit", 1)
    st = [np.array(cv.convert_state_quara_to_qiskit(qobjs.gen("state", n, c1))) for n in TESTER_STATES]
    pv = [[np.array(m) for m in cv.convert_povm_quara_to_qiskit(qobjs.gen("povm", n, c1))] for n in TESTER_POVMS]
    flat = np.array([coords.rat(x) for x in case["tomo"]], dtype=float)
    n = len(flat) // 2
    for shots_form, shots in (("common", 1000), ("list", [100 * (i + 1) for i in range(n)])):
        est = api.estimate_standard_qpt_from_qiskit("qubit", 1, st, pv, flat.copy(), shots, [2] * n, "linear", "all")
        if not close(est, there, 1e-8):
            bad("tomography:qpt:linear:" + shots_form, "the linear estimate from the exact statistics of the gate, handed over as a flat vector, "
                "is not the gate's Choi matrix in the other convention (max dev %.3g)" % float(np.max(np.abs(np.asarray(est) - there))))
    if chk.tier == "thorough" or case["name"] in ("h", "ad"):
        est = api.estimate_standard_qpt_from_qiskit("qubit", 1, st, pv, flat.copy(), 1000, [2] * n, "least_squares", "all")
        if not close(est, there, 2e-4):
            bad("tomography:qpt:least_squares", "the least-squares estimate from the exact statistics of the gate differs from the gate "
                "(max dev %.3g)" % float(np.max(np.abs(np.asarray(est) - there))))
    # state tomography of G(x0)
    flat_s = np.array([coords.rat(x) for x in case["qst"]], dtype=float)
    rho = cmat(case["rho"])
    for shots_form, shots in (("common", 1000), ("list", [100, 200, 300])):
        est = api.estimate_standard_qst_from_qiskit("qubit", 1, pv, flat_s.copy(), shots, [2, 2, 2], "linear", "all")
        if not close(est, rho, 1e-8):
            bad("tomography:qst:linear:" + shots_form, "the linear estimate from the exact statistics of G(x0) is not its density matrix")
    # data generated through the exchange format follow the exact statistics of the specification: right number of
    # schedules and shots, counts are integers, outcomes of probability zero never occur, the same seed gives the same data,
    # and with many shots the frequencies are close to the exact distribution
    if chk.tier == "thorough" or case["name"] in ("h", "ad", "s"):
        for what, call, exact in (
                ("gate", lambda N, sd: api.generate_empi_dists_from_qiskit_gate("qubit", 1, there.copy(), st, pv, N, sd, "all"), flat),
                ("state", lambda N, sd: api.generate_empi_dists_from_qiskit_state("qubit", 1, rho.copy(), pv, N, sd, "all"), flat_s)):
            small, again, big = call(40, 7), call(40, 7), call(20000, 11)
            k = len(exact) // 2
            if len(small) != k or any(int(d[0]) != 40 for d in small):
                bad("datagen:%s:layout" % what, "%d schedules with shots %s, expected %d schedules of 40 shots" % (len(small), [d[0] for d in small][:4], k))
                continue
            fs = np.concatenate([np.asarray(d[1], dtype=float) for d in small])
            if np.max(np.abs(fs * 40 - np.round(fs * 40))) > 1e-9 or np.any(fs < 0) or any(abs(float(np.sum(d[1])) - 1) > 1e-12 for d in small):
                bad("datagen:%s:counts" % what, "generated frequencies are not counts / 40 that sum to one")
            if np.any(fs[exact < 1e-12] != 0):
                bad("datagen:%s:support" % what, "an outcome of exact probability zero was generated")
            if any(not np.array_equal(np.asarray(a[1]), np.asarray(b[1])) for a, b in zip(small, again)):
                bad("datagen:%s:seed" % what, "the same seed gives other data")
            fb = np.concatenate([np.asarray(d[1], dtype=float) for d in big])
            if np.max(np.abs(fb - exact)) > 0.02:
                bad("datagen:%s:law" % what, "frequencies of 20000 shots are %.3f away from the exact statistics" % float(np.max(np.abs(fb - exact))))
    # and the way in: exact statistics produced from the other package's matrices
    lab, fl = api.generate_empi_dists_from_quara([(1000, flat[2 * i:2 * i + 2].copy()) for i in range(n)])
    if list(lab) != [2] * n or not close(fl, flat, 1e-12):
        bad("tomography:label", "generate_empi_dists_from_quara does not return (label, flat vector)")


def run(chk):
    from quara.interface.qiskit import conversion as cv
    from quara.objects.gate import Gate
    if not os.environ.get("VERIF_OUT"):
        chk._out = os.path.join(core.VERIF, "extra")
        chk._replay_dir = os.path.join(chk._out, "replays")
    r = chk.tlc("mc/MC_QInterop", "mc/MC_QInterop_%s.cfg" % chk.tier, workers=16, label="MC_QInterop " + chk.tier, timeout=3000)
    expect_refuted(chk, "mc/MC_QInterop", "mc/MC_QInterop_ascoded.cfg", ("AsCodedListRoundTrip",), "MC_QInterop list-of-shots branch as coded")
    deviating = []
    for n, case in enumerate(r.emitted):
        if case["kind"] in ("gate", "cat"):
            sys = tuple(case["sys"])
            d = int(np.prod(sys))
            c = coords.csys_for(sys)
            Gh = coords.rmat(case["G"])
            hs = coords.hs_from_h(sys, Gh)
            here, there = cmat(case["here"]), cmat(case["there"])
            nz = np.argwhere(Gh != 0)
            tag = "sys%s:%s" % ("x".join(map(str, sys)), case["name"] if case["kind"] == "cat" else ("hot%d_%d" % tuple(nz[0]) if len(nz) == 1 else "dense%d" % n))
            chk.count(1, ("gate", tag))

            def bad(clause, msg, tag=tag):
                chk.violation("gate:%s:%s" % (clause, tag), msg + " [%s]" % tag, dict(case=tag, clause=clause, G=case["G"], sys=list(sys)))
            try:
                g = Gate(c, hs.copy(), is_physicality_required=False)
                if not close(g.to_choi_matrix(), here):
                    bad("here", "to_choi_matrix differs from sum_kl G(E_kl) (x) E_kl")
                out = cv.convert_gate_quara_to_qiskit(g, d)
                if not close(out, there):
                    bad("to_other", "convert_gate_quara_to_qiskit differs from sum_kl E_kl (x) G(E_kl)")
                sw = np.asarray(cv.calc_swap_matrix(d))
                if not (close(sw @ sw, np.eye(d * d)) and close(sw @ here @ sw, there)):
                    bad("swap", "calc_swap_matrix is not the swap of the two factors")
                if case["kind"] == "cat":
                    # the way back builds a Gate with the physicality check on: catalogue (CP, TP) inputs
                    back = cv.convert_gate_qiskit_to_quara(there.copy(), c, d)
                    if not close(back.hs, hs, 1e-8):
                        bad("from_other", "convert_gate_qiskit_to_quara(exact other-convention Choi) differs from the gate")
                    again = cv.convert_gate_qiskit_to_quara(np.asarray(out), c, d)
                    if not close(again.hs, hs, 1e-8):
                        bad("round_trip", "quara -> qiskit -> quara is not the identity")
                if case["kind"] == "cat":
                    tomography_case(chk, case, there, bad)
            except Exception as e:
                bad("exception", "%r" % e)
            chk.replayed += 1
        else:
            label = [int(x) for x in case["label"]]
            common = bool(case["common"])
            tag = "label%s:%s" % ("-".join(map(str, label)), "common" if common else "list")
            chk.count(1, ("dists", tag))

            def bad(clause, msg, tag=tag):
                chk.violation("dists:%s:%s" % (clause, tag), msg + " [%s]" % tag, dict(case=tag, clause=clause, label=label, common=common))
            flat = np.array([float(x) / 100 for x in case["flat"]])
            want = [(int(s["shots"]), np.array([float(x) / 100 for x in s["dist"]])) for s in case["want"]]
            ascoded = [(int(s["shots"]), np.array([float(x) / 100 for x in s["dist"]])) for s in case["ascoded"]]
            try:
                # to the flat form: concatenation + shots list (exact model)
                f = np.asarray(cv.convert_empi_dists_quara_to_qiskit([(s, p.copy()) for s, p in want]), dtype=float)
                if not close(f, flat, 1e-12):
                    bad("flatten", "convert_empi_dists_quara_to_qiskit is not the concatenation of the distributions")
                sh = list(cv.convert_empi_dists_quara_to_qiskit_shots([(s, p.copy()) for s, p in want]))
                if sh != [s for s, _ in want]:
                    bad("shots", "convert_empi_dists_quara_to_qiskit_shots returns %s" % sh)
                # from the flat form: the code is compared with the AS-CODED model
                shots = int(case["shots"][0]) if common else [int(x) for x in case["shots"]]
                got = cv.convert_empi_dists_qiskit_to_quara(flat.copy(), shots, list(label))
                same = len(got) == len(ascoded) and all(int(a[0]) == b[0] and close(np.asarray(a[1], dtype=float), b[1], 1e-12) for a, b in zip(got, ascoded))
                if not same:
                    bad("unflatten", "convert_empi_dists_qiskit_to_quara returns %s, the as-coded model %s" % (
                        [(a[0], list(np.round(a[1], 2))) for a in got], [(b[0], list(b[1])) for b in ascoded]))
                inverse = len(ascoded) == len(want) and all(a[0] == b[0] and close(a[1], b[1], 1e-12) for a, b in zip(ascoded, want))
                if same and not inverse:
                    deviating.append(tag)
            except Exception as e:
                bad("exception", "%r" % e)
            chk.replayed += 1
        if n in (3, len(r.emitted) - 3):
            chk.sample({k: case[k] for k in case if k not in ("here", "there", "G")})
    # states and POVMs of the exact catalogue travel as matrices: there and back
    c1 = qobjs.csys("qubit", 1)
    for name in ("z0", "x1", "y0", "a"):
        s = qobjs.gen("state", name, c1)
        chk.count(1, ("state", name))
        try:
            m = cv.convert_state_quara_to_qiskit(s)
            if not close(m, s.to_density_matrix()) or not close(cv.convert_state_qiskit_to_quara(np.array(m), c1).vec, s.vec):
                chk.violation("state:round_trip:" + name, "state %s does not survive matrix form and back" % name, dict(name=name))
        except Exception as e:
            chk.violation("state:exception:" + name, "%r" % e, dict(name=name))
    for name in ("x", "y", "z"):
        p = qobjs.gen("povm", name, c1)
        chk.count(1, ("povm", name))
        try:
            ms = cv.convert_povm_quara_to_qiskit(p)
            back = cv.convert_povm_qiskit_to_quara([np.array(m) for m in ms], c1)
            if len(back.vecs) != len(p.vecs) or any(not close(a, b) for a, b in zip(back.vecs, p.vecs)):
                chk.violation("povm:round_trip:" + name, "POVM %s does not survive matrix form and back" % name, dict(name=name))
        except Exception as e:
            chk.violation("povm:exception:" + name, "%r" % e, dict(name=name))
    chk.notes["layouts_where_the_as_coded_branch_is_not_the_inverse"] = len(deviating)
    if deviating:
        print("OBSERVATION: check=QINTEROP convert_empi_dists_qiskit_to_quara with a LIST of shots reads schedule i at (i-1)*label[i]: "
              "for %d of the replayed layouts with unequal outcome counts (first: %s) it returns the wrong (or clipped) segments; with one number of shots "
              "it cuts at the cumulative counts and is the inverse.  The implementation conforms to the as-coded model; outside the twenty listed properties; not repaired."
              % (len(deviating), deviating[0]))
    chk.assumptions += ["gates on one qubit, one qutrit (and two qubits in the thorough tier); empirical distributions with up to 3 (4) schedules of up to 3 (4) outcomes, distinguishable entries",
                        "the binding target of the list-of-shots branch is the AS-CODED variant; the inverse is model-checked and the difference is reported as an observation"]
    return chk.finish(exhaustive=True, rule="every case of MC_QInterop (complete one-hot basis with stride, dense inputs, catalogue gates, all label layouts x shots forms)")
