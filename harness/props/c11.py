"""C11 - loss minimisation attains the constrained optimum.

(A) TLC (MC_C11 over QOpt): the backtracking projected-gradient machine of optimize() in exact
    arithmetic on the classical fragment (one-qubit QST, testers x/y/z, mu = 3/4, data symmetric in x
    and y so that all iterates stay diagonal): loss never increases (action property), iterates
    feasible, Armijo inequality at the accepted step, stopping rule, first-order optimality at fixed
    points, closed-form optimum.  Every exact run is replayed: the recorded history (fx, x, alpha,
    error_values, k) of LossMinimizationEstimator + backtracking must equal it, four stopping modes.
(B) C->S: runs on many configurations (state / POVM / process tomography, both loss families,
    generic and fast, four stopping modes, 10..1e5 shots and exact data) are recorded; per iteration
    the structural clauses are evaluated with the loss's own value / gradient and the resulting trace
    is validated by TLC against the loop's control structure (Trace_C11).
(C) optimum: on exact data of physical objects, on data whose linear estimate is physical, and on
    tight testers (exact nearest state from MC_C10) the backtracking and CVXPY/SCS estimates must
    equal the closed-form optimum and each other; no competitor (truth, seeded physical objects, the
    projected linear estimate) may achieve a lower loss."""
import io
import contextlib

import numpy as np

from harness import core, coords, qobjs
from harness.props import c08, c10

MODES = ["single_difference_loss", "sum_absolute_difference_loss", "sum_absolute_difference_variable", "sum_absolute_difference_projected_gradient"]


def quiet(f, *a, **k):
    buf = io.StringIO()
    with contextlib.redirect_stdout(buf):
        r = f(*a, **k)
    return r


def loss_pair(family, fast):
    from quara.loss_function.weighted_probability_based_squared_error import WeightedProbabilityBasedSquaredError, WeightedProbabilityBasedSquaredErrorOption
    from quara.loss_function.weighted_relative_entropy import WeightedRelativeEntropy, WeightedRelativeEntropyOption
    L = c10.losses()
    if fast:
        return L[family]
    return {"se": (WeightedProbabilityBasedSquaredError, WeightedProbabilityBasedSquaredErrorOption),
            "re": (WeightedRelativeEntropy, WeightedRelativeEntropyOption)}[family]


def run_pgdb(qt, data, family, fast, mode, eps, num_history=1, max_iter=1000):
    from quara.protocol.qtomography.standard.loss_minimization_estimator import LossMinimizationEstimator
    from quara.minimization_algorithm.projected_gradient_descent_backtracking import (
        ProjectedGradientDescentBacktracking, ProjectedGradientDescentBacktrackingOption)
    L, P = loss_pair(family, fast)
    loss = L()
    algo = ProjectedGradientDescentBacktracking()
    opt = ProjectedGradientDescentBacktrackingOption(mode_stopping_criterion_gradient_descent=mode,
                                                     num_history_stopping_criterion_gradient_descent=num_history, eps=eps,
                                                     max_iteration_optimization=max_iter)
    res = quiet(LossMinimizationEstimator().calc_estimate, qt, [(n, f.copy()) for n, f in data], loss, P("identity"), algo, opt,
                is_computation_time_required=True, is_detailed_results_required=True)
    return res, res.detailed_results[0], loss, opt


def part_a(chk, tier):
    from quara.protocol.qtomography.standard.standard_qst import StandardQst
    r = chk.tlc("mc/MC_C11", "mc/MC_C11_%s.cfg" % tier, workers=16, label="MC_C11 " + tier)
    runs = {}
    for e in r.emitted:
        runs.setdefault((tuple(e["a"]), e["mode"]), []).append(e)
    qt = StandardQst(qobjs.tester_povms("qubit"), on_para_eq_constraint=False)
    s2 = np.sqrt(2.0)
    for (a_, mode), sts in sorted(runs.items()):
        sts.sort(key=lambda e: e["st"]["k"])
        a = a_[0] / a_[1]
        eps = sts[0]["eps"][0] / sts[0]["eps"][1]
        data = [(100, np.array([0.5, 0.5])), (100, np.array([0.5, 0.5])), (100, np.array([a, 1 - a]))]
        for fast in (False, True):
            tag = "a%d_%d:%s:%s" % (a_[0], a_[1], mode, "fast" if fast else "generic")
            case = dict(a=a_, mode=mode, fast=fast)
            chk.count(1, ("exact", tag))
            try:
                res, det, loss, opt = run_pgdb(qt, data, "se", fast, mode, eps)
            except Exception as e:
                chk.violation("exact:exception:%s" % mode, "%r [%s]" % (e, tag), case)
                continue
            norm_mode = mode in MODES[2:]
            last = sts[-1]["st"]
            for e in sts:
                st = e["st"]
                k = st["k"]
                if k >= len(det.x):
                    chk.violation("exact:too_short:%s" % mode, "the run ended after %d iterations, the exact machine continues to %d [%s]" % (len(det.x) - 1, k, tag), case)
                    break
                c = np.asarray(det.x[k], dtype=float)
                lam = np.array([(c[0] + c[3]) / s2, (c[0] - c[3]) / s2])
                want = coords.rvec(st["x"])
                if np.max(np.abs(lam - want)) > 2e-6 or abs(c[1]) > 2e-6 or abs(c[2]) > 2e-6:
                    chk.violation("exact:iterate:%s" % mode, "iterate %d: spectrum %s, exact %s [%s]" % (k, np.round(lam, 7), want, tag), case)
                    break
                if abs(det.fx[k] - coords.rat(st["fx"])) > 1e-6:
                    chk.violation("exact:fx:%s" % mode, "iterate %d: loss %r, exact %r [%s]" % (k, det.fx[k], coords.rat(st["fx"]), tag), case)
                    break
                if k >= 1:
                    # at a fixed point (direction exactly zero) or with a vanishing Armijo margin the number of halvings
                    # is decided by rounding in the inner iterative projection: not compared
                    tie = all(v[0] == 0 for v in st["y"]) or coords.rat(st["marg"]) < 1e-6
                    if not tie and abs(det.alpha[k - 1] - 2.0 ** (-st["j"])) > 1e-12:
                        chk.violation("exact:alpha:%s" % mode, "iterate %d: alpha %r, exact 2^-%d [%s]" % (k, det.alpha[k - 1], st["j"], tag), case)
                        break
                    we = coords.rat(st["err"])
                    we = np.sqrt(max(we, 0.0)) if norm_mode else we
                    if abs(det.error_values[k - 1] - we) > 2e-6:
                        chk.violation("exact:error_value:%s" % mode, "iterate %d: error value %r, exact %r [%s]" % (k, det.error_values[k - 1], we, tag), case)
                        break
            else:
                if last["done"] and det.k != last["k"]:
                    chk.violation("exact:stop_index:%s" % mode, "the run stopped at k=%d, the exact machine at k=%d [%s]" % (det.k, last["k"], tag), case)
                if not last["done"] and det.k <= last["k"]:
                    chk.violation("exact:stop_index:%s" % mode, "the run stopped at k=%d although the exact machine is still running at k=%d [%s]" % (det.k, last["k"], tag), case)
            chk.replayed += 1
    chk.sample(dict(exact_run=[dict(k=e["st"]["k"], x=e["st"]["x"], j=e["st"]["j"], fx=e["st"]["fx"], done=e["st"]["done"]) for e in runs[((1, 10), MODES[0])]]))


def configs(tier):
    from quara.protocol.qtomography.standard.standard_qst import StandardQst
    from quara.protocol.qtomography.standard.standard_povmt import StandardPovmt
    from quara.protocol.qtomography.standard.standard_qpt import StandardQpt
    c = qobjs.csys("qubit", 1)
    sts, pvs = qobjs.tester_states("qubit"), qobjs.tester_povms("qubit")
    out = []
    for para in (True, False):
        out.append(("qst", StandardQst(pvs, on_para_eq_constraint=para), [qobjs.gen("state", "a", c), qobjs.gen("state", "z0", c)], para))
        out.append(("povmt", StandardPovmt(sts, 2, on_para_eq_constraint=para), [qobjs.gen("povm", "x", c)], para))
        out.append(("povmt3", StandardPovmt(sts, 3, on_para_eq_constraint=para), [qobjs.povm3_qubit()], para))      # three outcomes on one qubit
        if tier == "thorough" or para:
            out.append(("qpt", StandardQpt(sts, pvs, on_para_eq_constraint=para), [qobjs.gen("gate", "x90", c)], para))
    # qutrit states (the first dimension where clipping-and-rescaling differs from the projection onto the states): a mixed true
    # state of rank two, so that few-shot optima lie on the boundary with several positive eigenvalues
    from quara.objects.state import State
    c3 = qobjs.csys("qutrit", 1)
    mixed3 = State(c3, 0.7 * qobjs.gen("state", "01y0", c3).vec + 0.3 * qobjs.gen("state", "12x1", c3).vec)
    out.append(("qst3", StandardQst(qobjs.tester_povms("qutrit"), on_para_eq_constraint=True), [mixed3] if tier == "quick" else [mixed3, qobjs.gen("state", "01y0", c3)], True))
    if tier == "thorough":
        out.append(("qst3", StandardQst(qobjs.tester_povms("qutrit"), on_para_eq_constraint=False), [mixed3], False))
    return out


def part_b_c(chk, tier):
    rs = np.random.RandomState(chk.seed % (2 ** 31))
    events = []
    tid = 0
    for name, qt, trues, para in configs(tier):
        for tr in trues:
            tr2 = tr.copy()
            tr2._on_para_eq_constraint = para
            pds = [np.asarray(p, dtype=float) for p in qt.calc_prob_dists(tr2)]
            datasets = [("exact", [(1000, p.copy()) for p in pds])]
            for N in ((10, 1000) if tier == "quick" else (10, 100, 1000, 100000)):
                datasets.append(("N%d" % N, [(N, rs.multinomial(N, np.clip(p, 0, None) / np.clip(p, 0, None).sum()) / float(N)) for p in pds]))
            for dname, data in datasets:
                for family in ("se", "re"):
                    for fast in (True, False):
                        if not fast and name == "qpt":
                            continue      # the generic losses evaluate the model row by row: slow for process tomography
                        modes = MODES if (dname == "N1000" and fast) or tier == "thorough" else MODES[:1]
                        for mode in modes:
                            tid += 1
                            tag = "%s:%s:%s:%s:%s:%s" % (name, "para" if para else "nopara", dname, family, "fast" if fast else "generic", mode)
                            cfgk = "%s:%s" % (name, "para" if para else "nopara")
                            case = dict(tag=tag)
                            eps = 1e-9 if mode in MODES[:2] else 1e-6
                            try:
                                res, det, loss, opt = run_pgdb(qt, data, family, fast, mode, eps, num_history=2 if mode != MODES[0] else 1, max_iter=300)
                            except Exception as e:
                                chk.violation("run:exception:%s:%s" % (name, family), "%r [%s]" % (e, tag), case)
                                continue
                            chk.count(1, ("run", tag))
                            gamma = opt.gamma
                            tmpl = qt._template_qoperation
                            for k in range(1, len(det.x)):
                                xp, xn, y, al = det.x[k - 1], det.x[k], det.y[k - 1], det.alpha[k - 1]
                                fp, fn = float(loss.value(xp)), float(loss.value(xn))
                                slope = float(np.dot(y, loss.gradient(xp)))
                                tol = 1e-12 * (1 + abs(fp))
                                armijo = fn <= fp + gamma * al * slope + tol
                                j = int(round(-np.log2(al)))
                                power = abs(al - 2.0 ** (-j)) < 1e-15
                                prevrej = (j == 0) or (float(loss.value(xp + 2 * al * y)) > fp + gamma * 2 * al * slope - tol)
                                feas = tmpl.generate_from_var(xn, is_physicality_required=False).is_physical(atol_eq_const=1e-5, atol_ineq_const=1e-5)
                                nh = opt.num_history_stopping_criterion_gradient_descent
                                val = float(np.sum(det.error_values[max(0, k - nh):k]))
                                events.append(dict(tid=tid, k=k, j=j, armijo=bool(armijo and power), prevrej=bool(prevrej), noninc=bool(fn <= fp + tol),
                                                   feasible=bool(feas), stop=bool(val <= eps), kmax=bool(k == 300), last=bool(k == len(det.x) - 1)))
                                if not np.allclose(xn, xp + al * y, atol=1e-12):
                                    chk.violation("run:history_inconsistent:%s" % name, "x_k != x_(k-1) + alpha y at k=%d [%s]" % (k, tag), case)
                            events[-1]["tag"] = tag
                            # (C) optimum
                            est = np.asarray(res.estimated_var)
                            f_est = float(loss.value(est))
                            comps = {"truth": np.asarray(tr2.to_var())}
                            try:
                                from quara.protocol.qtomography.standard.projected_linear_estimator import ProjectedLinearEstimator
                                comps["projected_linear"] = np.asarray(quiet(ProjectedLinearEstimator().calc_estimate, qt, data).estimated_var)
                            except Exception:
                                pass
                            for r_ in range(3):
                                rnd = tr2.generate_from_var(np.asarray(tr2.to_var()) + 0.3 * rs.randn(len(est)), is_physicality_required=False)
                                comps["random%d" % r_] = np.asarray(quiet(rnd.calc_proj_physical).to_var())
                            gap_tol = 1e-6 if mode in MODES[:2] else 1e-4
                            for cn, cv in comps.items():
                                fc = float(loss.value(cv))
                                if fc < f_est - gap_tol * (1 + abs(f_est)):
                                    chk.violation("optimum:%s:beaten_by_%s:%s" % (cfgk, cn.rstrip("012"), family),
                                                  "loss at the estimate %.9g, at the physical competitor '%s' %.9g [%s]" % (f_est, cn, fc, tag), case)
                            if dname == "exact":
                                want = np.asarray(tr2.to_var())
                                if np.max(np.abs(est - want)) > (2e-3 if family == "re" else 5e-4):
                                    chk.violation("optimum:%s:exact_data:%s" % (cfgk, family), "exact data of a physical object: estimate deviates by %.3g [%s]" % (float(np.max(np.abs(est - want))), tag), case)
                            # (process tomography: the CVXPY solve is slower, so only the few-shot data set - where the projection inside
                            # the gradient steps matters most - is compared)
                            if mode == MODES[0] and fast and (name != "qpt" or dname == "N10"):
                                cvx = cvxpy_estimate(qt, data, family)
                                if cvx is not None:
                                    fcv = float(loss.value(cvx))
                                    # the CVXPY-backed estimate on its own: physical, optimal against the truth, exact on exact data
                                    qo = tmpl.generate_from_var(cvx, is_physicality_required=False)
                                    if not qo.is_physical(atol_eq_const=1e-4, atol_ineq_const=1e-4):
                                        chk.violation("cvxpy:%s:unphysical:%s" % (cfgk, family), "the CVXPY/SCS estimate is not physical to solver accuracy [%s]" % tag, case)
                                    ft = float(loss.value(np.asarray(tr2.to_var())))
                                    if ft < fcv - 1e-4 * (1 + abs(fcv)):
                                        chk.violation("cvxpy:%s:beaten_by_truth:%s" % (cfgk, family), "loss at the CVXPY/SCS estimate %.9g, at the truth %.9g [%s]" % (fcv, ft, tag), case)
                                    if dname == "exact" and np.max(np.abs(cvx - np.asarray(tr2.to_var()))) > 5e-3:
                                        chk.violation("cvxpy:%s:exact_data:%s" % (cfgk, family), "CVXPY/SCS on exact data of a physical object deviates by %.3g [%s]" % (float(np.max(np.abs(cvx - np.asarray(tr2.to_var())))), tag), case)
                                    # the same estimate from a loss object that served other tomographies before
                                    cv2 = cvxpy_estimate(qt, data, family, reuse=True)
                                    if cv2 is None or cv2.shape != cvx.shape or np.max(np.abs(cv2 - cvx)) > 1e-4:
                                        chk.violation("cvxpy:%s:reused_loss_object:%s" % (cfgk, family),
                                                      "a CVXPY loss object used for other tomographies before gives %s, a fresh one %s [%s]" % (
                                                          "an exception" if cv2 is None else np.round(cv2, 5), np.round(cvx, 5), tag), case)
                                    # the CVXPY-backed estimate is a minimiser too: backtracking (a physical competitor) must not beat it
                                    gap = (fcv - f_est) / (1 + abs(f_est))
                                    chk.notes["cvxpy_max_excess_loss"] = max(chk.notes.get("cvxpy_max_excess_loss", 0.0), float(gap))
                                    if gap > 2e-5:
                                        chk.violation("cvxpy:%s:beaten_by_backtracking:%s" % (cfgk, family),
                                                      "loss at the CVXPY/SCS estimate %.9g, at the backtracking estimate %.9g [%s]" % (fcv, f_est, tag), case)
                                    if not (name == "povmt3" and para):
                                        chk.notes["pgdb_max_excess_loss"] = max(chk.notes.get("pgdb_max_excess_loss", 0.0), float(-gap))
                                    if -gap > 2e-5:
                                        chk.violation("optimum:%s:cvxpy_lower:%s" % (cfgk, family), "CVXPY/SCS reaches loss %.9g, backtracking %.9g [%s]" % (fcv, f_est, tag), case)
                                    if np.max(np.abs(cvx - est)) > 5e-2 and abs(fcv - f_est) > 1e-3 * (1 + abs(f_est)):
                                        chk.violation("optimum:%s:cvxpy_disagrees:%s" % (cfgk, family), "the two estimators disagree: max dev %.3g, losses %.6g / %.6g [%s]" % (float(np.max(np.abs(cvx - est))), fcv, f_est, tag), case)
    # TLC validates the control structure of every recorded run
    tags = {e["tid"]: e.get("tag") for e in events if "tag" in e}
    slim = [{k: v for k, v in e.items() if k != "tag"} for e in events]
    r = core.validate_traces("trace/Trace_C11", "trace/Trace_C11.cfg", slim)
    chk.states += r.distinct
    chk.transitions += r.generated
    chk.tlc_runs.append(dict(instance="Trace_C11", lines=len(slim), **r.as_dict()))
    rep = [e for e in r.emitted if "consumed" in e]
    if not rep or rep[-1]["consumed"] != len(slim):
        raise core.MachineryError("trace validation did not consume all lines")
    chk.validated += len(set(e["tid"] for e in slim))
    for l in sorted(rep[-1]["bad"]):
        e = slim[l - 1]
        failed = [k for k in ("armijo", "prevrej", "noninc", "feasible") if not e[k]] or ["stop_rule_or_sequence"]
        chk.violation("trace:%s" % "+".join(failed), "iteration %d of run %s violates the loop structure: %s" % (e["k"], tags.get(e["tid"]), e), e)
    if rep[-1]["open"]:
        chk.violation("trace:unterminated", "the last recorded run did not end", {})
    chk.sample(dict(trace_lines=slim[:3]))


_CVX_REUSED = {}


def cvxpy_estimate(qt, data, family, reuse=False):
    try:
        from quara.interface.cvxpy.qtomography.standard.estimator import CvxpyLossMinimizationEstimator
        from quara.interface.cvxpy.qtomography.standard.loss_function import CvxpyLossFunctionOption, CvxpyRelativeEntropy, CvxpyUniformSquaredError
        from quara.interface.cvxpy.qtomography.standard.minimization_algorithm import CvxpyMinimizationAlgorithm, CvxpyMinimizationAlgorithmOption
        L = CvxpyUniformSquaredError if family == "se" else CvxpyRelativeEntropy
        import warnings
        with warnings.catch_warnings():
            warnings.simplefilter("ignore")
            # reuse=True: ONE long-lived loss object per family, handed every tomography of the run in turn (an estimator keeps its loss)
            loss_obj = _CVX_REUSED.setdefault(family, L()) if reuse else L()
            res = quiet(CvxpyLossMinimizationEstimator().calc_estimate, qt, [(n, f.copy()) for n, f in data], loss_obj, CvxpyLossFunctionOption(),
                        CvxpyMinimizationAlgorithm(), CvxpyMinimizationAlgorithmOption(name_solver="scs", eps_tol=1e-9), is_computation_time_required=True)
        return np.asarray(res.estimated_var)
    except Exception:
        return None


def run(chk):
    t = chk.tier
    part_a(chk, t)
    part_b_c(chk, t)
    chk.assumptions += [
        "exact iterates only on the classical one-qubit fragment (inner physical projection is itself iterative: tolerance 2e-6)",
        "optimality elsewhere is judged by the inequality itself against competitors (truth, projected linear estimate, seeded physical points, CVXPY/SCS); relative-entropy optimum on data outside the model's range has no closed form",
        "CVXPY runs use the SCS solver; an unavailable / failing solver run is skipped, not counted",
    ]
    return chk.finish(rule="every exact run of the machine x {generic, fast}; recorded runs over configurations x data x families x stopping modes; distinct = runs")
