"""C15 - Monte-Carlo simulations are reproducible with independent repetitions.

TLC (MC_C15 over QSim): the simulation flow as a transition system - the seed tree (one object stream
per sample, one data stream per repetition), task pools at the four nested parallel levels with
joblib's backends (processes copy, threads share, deeper nesting is sequential), loss objects with
identity - explored exhaustively for all 16 worker configurations: the result table equals the
schedule-free table (Reproducible), every estimate is computed from its own repetition's data
(OwnData), repetitions and samples use different streams, pool widths are respected, the flow
terminates.  Vacuity: the as-coded variants (shared loss objects on threads; an integer seed restarted
per repetition in the single-setting entry point) must be refuted by TLC.

Binding.  S->C: schedules sampled by TLC's simulator are replayed step by step through the real flow
code by the controlled executor (harness/simrun.py: one thread per task, released in TLC's order,
pickling where the model says "process"); every replay must reproduce the serial result table and hand
the configured n_jobs to the right level.  Real joblib (loky / threading) runs at every level, repeated
runs, re-estimation from stored data, and an independent reconstruction of the seed tree (numpy
SeedSequence children -> MT19937 streams -> the library's generators) must give the same table.  The
single-setting entry point with integer and generator seeds: repetitions differ and equal the
reconstruction from one continued stream.  C->S: real runs of the estimation level on joblib's threading backend are
recorded at the two linearisation points of every loss-minimisation task (configure the loss object / start the
optimiser, with the identity of the loss object and digests of the data) and validated by TLC against QSim
(Trace_C15: the logged object identity drives QSim's SetE / OptE; refinement of the held data, OwnData, private copies).  MC_C15_aux: exact depolarising noise on the catalogue and the
decision table of the built-in physicality check, replayed row by row with fabricated results."""
import os
import shutil

import numpy as np

from harness import core, coords, qobjs, simrun

LOSS_CASES = [2]


def scratch():
    return core.scratch_dir("sim")


# ---------------------------------------------------------------- negative (vacuity) instances
def expect_refuted(chk, module, cfg, want, label):
    r = core.run_tlc(module, cfg, workers=4, want_emitted=False)
    d = r.as_dict()
    d["instance"] = label + " (must be refuted)"
    d["ok"] = (not r.ok) and r.violated in want
    chk.tlc_runs.append(d)
    chk.states += r.distinct
    chk.transitions += r.generated
    if r.ok or r.violated not in want:
        raise core.MachineryError("vacuity witness %s: expected TLC to refute one of %s, got %r" % (label, want, r.violated))


# ---------------------------------------------------------------- reconstruction of the seed tree
def reconstruct(setting, base):
    """tables of true objects and data rebuilt from the specification's seed tree, with the library's generators."""
    from numpy.random import Generator, MT19937, SeedSequence
    import quara.simulation.standard_qtomography_simulation as sim
    gs = setting.to_generation_settings()
    out = {}
    qstreams = [Generator(MT19937(s)) for s in SeedSequence(setting.seed_qoperation).spawn(setting.n_sample)]
    for s in range(setting.n_sample):
        f = gs.true_setting.generate
        if "seed_or_generator" in f.__code__.co_varnames[: f.__code__.co_argcount]:
            true = gs.true_setting.generate(seed_or_generator=qstreams[s])
            testers = [t.generate(qstreams[s]) for t in gs.tester_settings]
        else:
            true = gs.true_setting.generate()
            testers = [t.generate() for t in gs.tester_settings]
        true = true[0] if isinstance(true, tuple) else true
        testers = [t[0] if isinstance(t, tuple) else t for t in testers]
        ss = setting.to_simulation_setting(true, testers, 0)
        qt = sim.generate_qtomography(ss, para=setting.parametrizations[0], init_with_seed=False)
        dstreams = [Generator(MT19937(c)) for c in SeedSequence(setting.seed_data).spawn(setting.n_rep)]
        data = []
        for r in range(setting.n_rep):
            seq = qt.generate_empi_dists_sequence(true, setting.num_data, dstreams[r])
            data.append(np.concatenate([np.concatenate([[float(e[0])], np.asarray(e[1], dtype=float).ravel()]) for step in seq for e in step]))
        out[s] = dict(true=simrun.flat(true), testers=simrun.flat(testers), data=data)
    return out


def flow_checks(chk, kind, noise, tier, rs):
    """one configuration of the test-setting flow: baseline, repeats, real parallel runs, re-estimation, reconstruction."""
    tag = "%s:%s" % (kind, noise)
    cases = ("lin", "plin", "lsq") if kind in ("state", "povm") else ("lin", "lsq")
    num_data, rate = (30, 120), 0.1
    if kind == "state_z":
        # data-dependent weights on data with zero counts; the weighted case runs before the linear ones
        cases, num_data, rate = ("wlsq", "lin", "plin"), (6, 40), 0.02
    n_rep = 3
    mk = lambda: simrun.make_setting(kind=kind, noise=noise, n_sample=2, n_rep=n_rep, num_data=num_data, cases=cases,
                                     seed_qoperation=888, seed_data=777, rate=rate)
    root = scratch()
    try:
        def bad(clause, msg, **extra):
            chk.violation("%s:%s" % (clause, tag), msg, dict(kind=kind, noise=noise, clause=clause, **extra))
        try:
            base_res = simrun.run_flow(mk(), os.path.join(root, "base"))
        except Exception as e:
            bad("flow:exception", "serial flow raised %r" % e)
            return
        base = simrun.table(base_res)
        chk.count(1, ("flow", tag, "serial"))
        # repeated run
        again = simrun.table(simrun.run_flow(mk(), os.path.join(root, "again")))
        d = simrun.diff_tables(base, again)
        if d:
            bad("repeat", "a second serial run with the same settings differs: " + d)
        # independent repetitions / samples
        for (s, c), v in base.items():
            if c == 0:
                if any(np.array_equal(v["data"][i], v["data"][j]) for i in range(n_rep) for j in range(i)):
                    bad("reps_identical", "two repetitions of sample %d have identical empirical distributions" % s)
        if noise == "rel" and np.array_equal(base[(0, 0)]["true"], base[(1, 0)]["true"]):
            bad("samples_identical", "the random true objects of two samples are identical")
        # reconstruction from the seed tree
        try:
            rec = reconstruct(mk(), base)
            for (s, c), v in base.items():
                if not np.array_equal(v["true"], rec[s]["true"]) or not np.array_equal(v["testers"], rec[s]["testers"]):
                    bad("seedtree:objects", "true / tester objects of sample %d differ from the s-th child stream of seed_qoperation (true first, testers in order)" % s)
                    break
                if any(not np.array_equal(a, b) for a, b in zip(v["data"], rec[s]["data"])):
                    bad("seedtree:data", "data of sample %d differ from the r-th child streams of seed_data" % s)
                    break
        except Exception as e:
            bad("seedtree:exception", "%r" % e)
        # re-estimation from the stored empirical distributions
        import quara.simulation.standard_qtomography_simulation as sim
        ts = mk()
        for r in base_res:
            try:
                with simrun.quiet():
                    re = sim.re_estimate_sequence(ts, r)
                ss = r.simulation_setting
                note = ""
                if (ss.eps_proj_physical, ss.eps_truncate_imaginary_part) != (simrun.EPS_PROJ, simrun.EPS_TRUNC):
                    # diagnosis only: the property speaks about the re-estimated values
                    note = " (the setting stored with the result has eps_proj_physical=%r, eps_truncate_imaginary_part=%r; configured %r, %r)" % (
                        ss.eps_proj_physical, ss.eps_truncate_imaginary_part, simrun.EPS_PROJ, simrun.EPS_TRUNC)
                got = [simrun.flat(list(x.estimated_var_sequence)) for x in re]
                want = base[(r.result_index["sample_index"], r.result_index["case_index"])]["est"]
                if len(got) != len(want) or any(not np.allclose(a, b, rtol=0, atol=1e-12) for a, b in zip(got, want)):
                    bad("re_estimate", "re-estimation from stored data differs for sample %d case %d%s" % (r.result_index["sample_index"], r.result_index["case_index"], note))
            except Exception as e:
                bad("re_estimate:exception", "%r" % e)
        # real joblib runs
        pars = [dict(ps=2, pd=1, pu=1, pe=1), dict(ps=1, pd=2, pu=1, pe=1), dict(ps=1, pd=1, pu=2, pe=1), dict(ps=1, pd=1, pu=1, pe=2),
                dict(ps=2, pd=1, pu=1, pe=3), dict(ps=1, pd=1, pu=2, pe=3)]
        if tier != "quick":
            pars += [dict(ps=a, pd=b, pu=c, pe=d) for a in (1, 2, 4) for b in (1, 3) for c in (1, 2) for d in (1, 4)
                     if (a, b, c, d) != (1, 1, 1, 1)]
        elif kind == "state_z":
            pars = [pars[3], pars[0]]
        elif kind != "state":
            pars = pars[4:]
        for par in pars:
            chk.count(1, ("flow", tag, tuple(sorted(par.items()))))
            try:
                t = simrun.table(simrun.run_flow(mk(), os.path.join(root, "par"), par))
            except Exception as e:
                bad("parallel:exception", "flow with parallel_mode %s raised %r" % (simrun.parallel_mode(par), e), par=par)
                continue
            d = simrun.diff_tables(base, t)
            if d:
                bad("parallel:%d%d%d%d" % (par["ps"], par["pd"], par["pu"], par["pe"]),
                    "flow with parallel_mode %s differs from the serial run: %s" % (simrun.parallel_mode(par), d), par=par)
        return base
    finally:
        shutil.rmtree(root, ignore_errors=True)


def replay_schedules(chk, schedules):
    """S->C: TLC schedules through the controlled executor (2 samples, 2 repetitions, cases lin / lsq)."""
    root = scratch()
    try:
        mk = lambda: simrun.make_setting(kind="state", noise="rel", n_sample=2, n_rep=2, num_data=(40,), cases=("lin", "lsq"))
        base = simrun.table(simrun.run_flow(mk(), os.path.join(root, "base")))
        seen_keys = set()
        for i, sc in enumerate(schedules):
            par, sched = sc["par"], sc["sched"]
            chk.count(1, ("sched", tuple(sorted(par.items())), tuple(map(tuple, sched))))
            try:
                res, seen = simrun.run_controlled(mk(), os.path.join(root, "ctl"), par, sched, LOSS_CASES)
            except simrun.ScheduleError as e:
                chk.violation("schedule:not_followed:%d%d%d%d" % (par["ps"], par["pd"], par["pu"], par["pe"]),
                              "the flow cannot follow a schedule of the specification: %s" % e, dict(par=par, sched=sched))
                continue
            except Exception as e:
                chk.violation("schedule:exception:%d%d%d%d" % (par["ps"], par["pd"], par["pu"], par["pe"]),
                              "flow raised %r under a schedule of the specification" % e, dict(par=par, sched=sched))
                continue
            chk.replayed += 1
            d = simrun.diff_tables(base, simrun.table(res))
            if d:
                chk.violation("schedule:result:%d%d%d%d" % (par["ps"], par["pd"], par["pu"], par["pe"]),
                              "a legal schedule changes the results: %s" % d, dict(par=par, sched=sched))
            wrong = [(lv, n) for lv, n in seen if n != par[simrun.PAR_OF[lv]]]
            if wrong:
                chk.violation("schedule:n_jobs:%d%d%d%d" % (par["ps"], par["pd"], par["pu"], par["pe"]),
                              "level %d was given n_jobs=%d, configured %d" % (wrong[0][0], wrong[0][1], par[simrun.PAR_OF[wrong[0][0]]]),
                              dict(par=par))
            if i < 2:
                chk.sample(dict(par=par, schedule=sched[:14]))
    finally:
        shutil.rmtree(root, ignore_errors=True)


def trace_threaded(chk):
    """C->S: events of real threaded estimation runs validated by TLC against QSim (Trace_C15)."""
    root = scratch()
    try:
        for kind, cases in (("state", ("lsq", "wlsq")), ("povm", ("lsq", "wlsq"))):
            ts = simrun.make_setting(kind=kind, noise="rel" if kind == "state" else "depolarized", n_sample=2, n_rep=4, num_data=(40,), cases=cases)
            try:
                ev, _ = simrun.record_threaded_estimation(ts, os.path.join(root, kind))
            except Exception as e:
                chk.violation("trace:exception:%s" % kind, "threaded run raised %r" % e, dict(kind=kind))
                continue
            if len(ev) != 2 * 2 * 2 * 4:
                raise core.MachineryError("recorder produced %d events, expected 32" % len(ev))
            r = core.validate_traces("trace/Trace_C15", "trace/Trace_C15.cfg", ev)
            chk.states += r.distinct
            chk.transitions += r.generated
            chk.tlc_runs.append(dict(instance="Trace_C15 threaded estimation (%s)" % kind, lines=len(ev), **r.as_dict()))
            rep = [e for e in r.emitted if "consumed" in e]
            if not rep or rep[-1]["consumed"] != len(ev) or rep[-1]["done"] != 16:
                raise core.MachineryError("trace validation did not consume the recorded run")
            chk.validated += len(ev)
            chk.count(len(ev), ("trace", kind))
            for l in sorted(rep[-1]["bad"])[:4]:
                e = ev[l - 1]
                if e["ev"] == "SetE":
                    chk.violation("trace:shared_loss_object:%s" % kind,
                                  "repetition %d of sample %d case %d configures loss object #%d, which another repetition of that case also uses (line %d of the recorded run)" % (e["r"], e["s"], e["c"], e["loss"], l),
                                  dict(kind=kind, line=l, event=e, trace=ev[:l]))
                else:
                    chk.violation("trace:own_data:%s" % kind,
                                  "algo.optimize of repetition %d (sample %d, case %d) starts on a loss object that does not hold this repetition's data (line %d)" % (e["r"], e["s"], e["c"], l),
                                  dict(kind=kind, line=l, event=e, trace=ev[:l]))
    finally:
        shutil.rmtree(root, ignore_errors=True)


def single_entry(chk):
    """execute_simulation: integer seed, generator, and the setting's own seed_data."""
    from numpy.random import Generator, MT19937
    import quara.simulation.standard_qtomography_simulation as sim
    from quara.protocol.qtomography.standard.linear_estimator import LinearEstimator
    c = qobjs.csys("qubit", 1)
    true = qobjs.gen("state", "a", c)
    testers = [qobjs.gen("povm", n, c) for n in "xyz"]
    n_rep, num_data = 4, [25, 100]

    def run(seed_kind, seed):
        ss = sim.StandardQTomographySimulationSetting(name="single", true_object=true, tester_objects=testers, estimator=LinearEstimator(),
                                                     seed_data=seed, n_rep=n_rep, num_data=num_data, schedules="all",
                                                     eps_proj_physical=1e-5, eps_truncate_imaginary_part=1e-5)
        qt = sim.generate_qtomography(ss, para=True, init_with_seed=False)
        if seed_kind == "npint_setting":
            ss = sim.StandardQTomographySimulationSetting(name="single", true_object=true, tester_objects=testers, estimator=LinearEstimator(),
                                                         seed_data=np.int64(seed), n_rep=n_rep, num_data=num_data, schedules="all",
                                                         eps_proj_physical=1e-5, eps_truncate_imaginary_part=1e-5)
        # an integer seed is an integer seed whether it is a Python int or a NumPy integer (e.g. read from an array)
        arg = {"int": seed, "npint": np.int64(seed), "generator": Generator(MT19937(seed)), "setting": None, "npint_setting": None}[seed_kind]
        with simrun.quiet():
            r = sim.execute_simulation(qt, ss, seed_or_generator=arg)
        data = [np.concatenate([np.concatenate([[float(e[0])], np.asarray(e[1], dtype=float).ravel()]) for step in seq for e in step]) for seq in r.empi_dists_sequences]
        est = [simrun.flat(list(er.estimated_var_sequence)) for er in r.estimation_results]
        return qt, data, est
    for seed in (7, 123456):
        for kind in ("int", "generator", "setting", "npint", "npint_setting"):
            chk.count(1, ("single", kind, seed))
            key = "single:%s" % kind
            try:
                qt, data, est = run(kind, seed)
                _, data2, est2 = run(kind, seed)
            except Exception as e:
                chk.violation(key + ":exception", "%r" % e, dict(kind=kind, seed=seed))
                continue
            if any(not np.array_equal(a, b) for a, b in zip(data + est, data2 + est2)):
                chk.violation(key + ":repeat", "two runs with the same seed differ", dict(kind=kind, seed=seed))
            if any(np.array_equal(data[i], data[j]) for i in range(n_rep) for j in range(i)):
                chk.violation(key + ":reps_identical", "repetitions of one run have identical data (seed %d): they restart the same stream" % seed, dict(kind=kind, seed=seed))
            # QSimSingle: repetition r draws the r-th segment of the one stream named by the seed
            g = Generator(MT19937(seed))
            want = []
            for r in range(n_rep):
                seq = qt.generate_empi_dists_sequence(true, num_data, g)
                want.append(np.concatenate([np.concatenate([[float(e[0])], np.asarray(e[1], dtype=float).ravel()]) for step in seq for e in step]))
            if any(not np.array_equal(a, b) for a, b in zip(data, want)):
                chk.violation(key + ":stream", "data differ from consecutive segments of the stream MT19937(%d)" % seed, dict(kind=kind, seed=seed))


# ---------------------------------------------------------------- auxiliary tables
def noise_row(chk, row):
    from quara.simulation.depolarized_qoperation_generation_setting import DepolarizedQOperationGenerationSetting
    typ, name, p = row["typ"], row["name"], row["p"][0] / row["p"][1]
    sys = (2,)
    if typ == "state":
        ideal = coords.state_from_h(sys, coords.rvec(row["ideal"]))
        want = coords.state_from_h(sys, coords.rvec(row["noisy"])).vec
        get = lambda o: o.vec
    elif typ == "povm":
        ideal = coords.povm_from_h(sys, [coords.rvec(y) for y in row["ideal"]])
        want = np.concatenate(coords.povm_from_h(sys, [coords.rvec(y) for y in row["noisy"]]).vecs)
        get = lambda o: np.concatenate(o.vecs)
    elif typ == "gate":
        ideal = coords.gate_from_h(sys, coords.rmat(row["ideal"]))
        want = coords.hs_from_h(sys, coords.rmat(row["noisy"]))
        get = lambda o: o.hs
    else:
        ideal = coords.mprocess_from_h(sys, [coords.rmat(m) for m in row["ideal"]])
        want = np.concatenate([coords.hs_from_h(sys, coords.rmat(m)) for m in row["noisy"]])
        get = lambda o: np.concatenate(o.hss)
    chk.count(1, ("noise", typ, name, tuple(row["p"])))
    key = "noise:%s:%s:%s" % (typ, name, "/".join(map(str, row["p"])))
    try:
        gs = DepolarizedQOperationGenerationSetting(qobjs.csys("qubit", 1), ideal, p)
        obj = gs.generate()
        obj = obj[0] if isinstance(obj, tuple) else obj
    except Exception as e:
        chk.violation(key + ":exception", "%r" % e, dict(row=dict(typ=typ, name=name, p=row["p"])))
        return
    if not np.allclose(get(obj), want, rtol=0, atol=1e-12):
        chk.violation(key, "depolarised %s %s at rate %s differs from (1-p) ideal + p maximally mixed (max dev %.3g)" % (
            typ, name, p, float(np.max(np.abs(get(obj) - want)))), dict(row=dict(typ=typ, name=name, p=row["p"])))
    if not obj.is_physical(1e-9, 1e-9) if typ != "state" and typ != "povm" else not obj.is_physical():
        chk.violation(key + ":physical", "depolarised object judged non-physical", dict(row=dict(typ=typ, name=name, p=row["p"])))


def random_lindbladian(chk, rs):
    """random effective-Lindbladian noise: physical outputs, a function of the stream, different across draws."""
    from numpy.random import Generator, MT19937
    from quara.simulation.random_effective_lindbladian_generation_setting import RandomEffectiveLindbladianGenerationSetting
    c = qobjs.csys("qubit", 1)
    for base in (("state", "z0"), ("povm", "x"), ("gate", "hadamard"), ("mprocess", "z-type1")):
        for strength in (1e-3, 1e-2, 1e-1, 1.0):
            chk.count(1, ("rel", base, strength))
            key = "rel:%s:%s:%g" % (base[0], base[1], strength)
            try:
                gs = RandomEffectiveLindbladianGenerationSetting(c, base, "identity", strength, strength)
                a = gs.generate(Generator(MT19937(5)))[0]
                b = gs.generate(Generator(MT19937(5)))[0]
                g = Generator(MT19937(5))
                c1, c2 = gs.generate(g)[0], gs.generate(g)[0]
            except Exception as e:
                chk.violation(key + ":exception", "%r" % e, dict(base=base, strength=strength))
                continue
            if not np.array_equal(simrun.flat(a), simrun.flat(b)):
                chk.violation(key + ":repeat", "the same stream state gives different noisy objects (the setting keeps state between calls)", dict(base=base, strength=strength))
            if not np.array_equal(simrun.flat(a), simrun.flat(c1)) or np.array_equal(simrun.flat(c1), simrun.flat(c2)):
                chk.violation(key + ":stream", "consecutive draws from one stream are not independent draws", dict(base=base, strength=strength))
            for o in (a, c2):
                ok = o.is_physical() if base[0] in ("state", "povm") else o.is_physical(1e-8, 1e-8)
                if not ok:
                    chk.violation(key + ":physical", "random-Lindbladian noise produced a non-physical object", dict(base=base, strength=strength))
                    break


def check_row(chk, item, cache):
    """one row of the physicality-check decision table on a fabricated simulation result."""
    import quara.simulation.standard_qtomography_simulation as sim
    from quara.simulation.standard_qtomography_simulation_check import StandardQTomographySimulationCheck
    from quara.protocol.qtomography.standard.standard_qtomography_estimator import StandardQTomographyEstimationResult
    from quara.protocol.qtomography.standard.linear_estimator import LinearEstimator
    from quara.protocol.qtomography.standard.projected_linear_estimator import ProjectedLinearEstimator
    from quara.protocol.qtomography.standard.loss_minimization_estimator import LossMinimizationEstimator
    from quara.protocol.qtomography.standard.standard_qtomography_estimator import StandardQTomographyEstimator
    from quara.minimization_algorithm.projected_gradient_descent_backtracking import ProjectedGradientDescentBacktrackingOption
    from quara.objects.state import State
    row = item["row"]
    c = qobjs.csys("qubit", 1)
    para = row["para"]
    template = State(c, np.array([1, 0, 0, 1]) / np.sqrt(2), is_physicality_required=False, on_para_eq_constraint=para)
    above = row["level"] == "above"
    delta = 2e-5 if above else 0.4e-5

    def var(viol):
        v = np.array([1.0, 0.3, -0.2, 0.4]) / np.sqrt(2)          # interior physical state
        if viol == "eq":
            v = v.copy(); v[0] = (1 + delta) / np.sqrt(2)
        elif viol == "ineq":
            v = np.array([1.0, 0.0, 0.0, 1 + 2 * delta]) / np.sqrt(2)   # smallest eigenvalue -delta
        return v[1:] if para else v
    n_rep, n_idx = 2, 2
    results = []
    for rp in range(1, n_rep + 1):
        seq = [var(row["viol"]) if (rp == row["rep"] and ix == row["idx"]) else var("none") for ix in range(1, n_idx + 1)]
        results.append(StandardQTomographyEstimationResult(seq, [0.0] * n_idx, template))

    class Other(StandardQTomographyEstimator):
        pass
    est = {"lin": LinearEstimator, "plin": ProjectedLinearEstimator, "lsq": LossMinimizationEstimator, "other": Other}[row["est"]]()
    opt = None
    if row["est"] == "lsq" and not row["algoNone"]:
        opt = ProjectedGradientDescentBacktrackingOption(on_algo_eq_constraint=row["eqFlag"], on_algo_ineq_constraint=row["ineqFlag"])
    ss = sim.StandardQTomographySimulationSetting(name="fab", true_object=template, tester_objects=[], estimator=est, seed_data=1, n_rep=n_rep,
                                                 num_data=[10, 100], schedules="all", eps_proj_physical=1e-5, eps_truncate_imaginary_part=1e-5,
                                                 algo_option=opt)
    res = sim.SimulationResult(estimation_results=results, empi_dists_sequences=None, qtomography=None, simulation_setting=ss)
    chk.count(1, ("check", row["est"], para, row["algoNone"], row["eqFlag"], row["ineqFlag"], row["viol"], row["level"]))
    key = "physcheck:%s:para=%s:%s:%s" % (row["est"], para, row["viol"], row["level"])
    try:
        with simrun.quiet():
            got = bool(StandardQTomographySimulationCheck(res).execute_physicality_violation_check(show_detail=False))
    except Exception as e:
        chk.violation(key + ":exception", "%r" % e, dict(row=row))
        return
    if got != item["passes"]:
        chk.violation(key, "built-in physicality check %s, decision table says %s (violation of %s %s the threshold in repetition %d, entry %d)" % (
            "passes" if got else "fails", "passes" if item["passes"] else "fails", row["viol"], row["level"], row["rep"], row["idx"]), dict(row=row))


def run(chk):
    t = chk.tier
    rs = np.random.RandomState(chk.seed % (2 ** 31))
    chk.tlc("mc/MC_C15", "mc/MC_C15_%s.cfg" % t, workers=16, label="MC_C15 " + t)
    expect_refuted(chk, "mc/MC_C15", "mc/MC_C15_ascoded.cfg", ("OwnData", "Reproducible"), "shared loss objects on threads")
    chk.tlc("QSimSingle", "mc/MC_C15_single.cfg", workers=1, label="QSimSingle")
    expect_refuted(chk, "QSimSingle", "mc/MC_C15_single_ascoded.cfg", ("SRepsIndependent", "SReproducible"), "integer seed restarted per repetition")
    n = 60 if t == "quick" else 600
    r = chk.tlc("mc/MC_C15", "mc/MC_C15_emit.cfg", workers=1, simulate="num=%d" % n, extra=("-depth", "200", "-seed", str(chk.seed % 100000)), label="MC_C15 simulate")
    scheds = [e for e in r.emitted if "sched" in e]
    uniq = {}
    for e in scheds:
        uniq[(tuple(sorted(e["par"].items())), tuple(map(tuple, e["sched"])))] = e
    if len(uniq) < min(20, n // 3):
        raise core.MachineryError("TLC simulation produced only %d distinct schedules" % len(uniq))
    replay_schedules(chk, list(uniq.values()))
    flow_checks(chk, "state", "rel", t, rs)
    flow_checks(chk, "povm", "depolarized", t, rs)
    flow_checks(chk, "state_z", "depolarized", t, rs)
    if t != "quick":
        flow_checks(chk, "gate", "rel", t, rs)
        flow_checks(chk, "mprocess", "depolarized", t, rs)
        flow_checks(chk, "state", "depolarized", t, rs)
    single_entry(chk)
    trace_threaded(chk)
    aux = chk.tlc("mc/MC_C15_aux", "mc/MC_C15_aux.cfg", workers=8, label="MC_C15_aux")
    cache = {}
    for item in aux.emitted:
        if item["k"] == "noise":
            noise_row(chk, item)
        else:
            check_row(chk, item, cache)
        chk.replayed += 1
    random_lindbladian(chk, rs)
    chk.assumptions += [
        "random values are symbolic in QSim (a draw is <<stream, position>>); the binding compares complete result tables bit for bit",
        "the controlled executor interleaves at the granularity of QSim's actions (loss-minimisation tasks are split before algo.optimize); real loky / threading runs sample OS schedules",
        "joblib backend rule (outermost parallel level on processes, one nested level on threads, deeper levels sequential) as observed with the installed joblib",
    ]
    return chk.finish(exhaustive=False, rule="all 16 worker configurations exhaustively in TLC; %d simulated schedules replayed; real parallel runs; distinct = schedules + configurations + table rows" % len(uniq))
