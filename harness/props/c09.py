"""C09 - linear estimation inverts the forward model exactly.

TLC (MC_C09): per configuration the exact model, its rank over two prime fields, and datasets with
the estimate the specification expects - exact data of arbitrary variable vectors and of the
physical catalogue, certificate data (exact data + verified null vector of A^T), and for small
models count-like / non-normalised data solved by exact rational elimination.  The invariant
ResidualOrthogonal establishes on the specification that every expected estimate satisfies the
normal equations exactly.  Binding: LinearEstimator on the concretised testers must return the
expected estimates (estimated_var, estimated_qoperation), sequence = single, independence of the
attached sample counts, rank-deficient tester sets must be refused, calc_mse_of_true_estimated
(consistency check) must vanish on the physical catalogue."""
import numpy as np

from harness import core, coords
from harness.props import c08


def split(f, sizes):
    offs = np.cumsum([0] + list(sizes))
    return [np.array(f[offs[k]:offs[k + 1]], dtype=np.float64) for k in range(len(sizes))]


def single_schedule(chk):
    """One informationally complete POVM = a tomography with ONE schedule (no stacking of several data vectors).  The
    caller's arrays are handed over as they are: a sequence equals each dataset alone, a dataset estimated twice gives the
    same result, other sample counts change nothing, the residual is orthogonal to the model, and the data are untouched."""
    from quara.objects.povm import Povm
    from quara.protocol.qtomography.standard.standard_qst import StandardQst
    from quara.protocol.qtomography.standard.linear_estimator import LinearEstimator
    from harness import qobjs, spectral
    c = qobjs.csys("qubit", 1)
    I2 = np.eye(2)
    paulis = [np.array([[0, 1], [1, 0]], dtype=complex), np.array([[0, -1j], [1j, 0]]), np.array([[1, 0], [0, -1]], dtype=complex)]
    dirs = np.array([[1, 1, 1], [1, -1, -1], [-1, 1, -1], [-1, -1, 1]], dtype=float) / np.sqrt(3)
    wts = np.array([0.35, 0.25, 0.25, 0.15])
    # unequal weights: sum_k w_k n_k must vanish for the elements to sum to the identity
    A_ = np.vstack([dirs.T, np.ones(4)])
    wts = np.linalg.lstsq(A_, np.array([0, 0, 0, 1.0]), rcond=None)[0] * 0 + 0.25          # regular tetrahedron weights
    els = [w_ * (I2 + sum(n_ * s_ for n_, s_ in zip(nv, paulis))) for w_, nv in zip(2 * wts, dirs)]
    # make it irregular (still a POVM): mix with a second, rotated tetrahedron of different weight
    els = [0.7 * e for e in els] + [0.3 * 0.5 * (I2 + sgn * paulis[2]) for sgn in (1, -1)]
    povm = Povm(c, [spectral.vec_of("q", e) for e in els], is_physicality_required=False)
    for para in (True, False):
        tag = "single_schedule:%s" % ("para" if para else "nopara")
        chk.count(1, (tag,))
        try:
            qt = StandardQst([povm], on_para_eq_constraint=para)
            A, b = np.asarray(qt.calc_matA(), dtype=float), np.asarray(qt.calc_vecB(), dtype=float)
            rs = np.random.RandomState(3)
            fs = [np.abs(rs.rand(len(els))) for _ in range(3)]
            fs = [f / f.sum() for f in fs]
            keep = [f.copy() for f in fs]
            want = [np.linalg.lstsq(A, f - b, rcond=None)[0] for f in keep]
            est = LinearEstimator()
            seq = est.calc_estimate_sequence(qt, [[(100, fs[0])], [(200, fs[1])], [(100, fs[0])], [(50, fs[2])]])
            got = [np.asarray(v, dtype=float) for v in seq.estimated_var_sequence]
            alone = [np.asarray(est.calc_estimate(qt, [(n_, fs[k])]).estimated_var, dtype=float) for n_, k in ((7, 0), (100, 1), (1000, 2))]
            ok_seq = all(np.allclose(g, want[k], atol=1e-10) for g, k in zip(got, (0, 1, 0, 2)))
            ok_alone = all(np.allclose(a_, want[k], atol=1e-10) for a_, k in zip(alone, (0, 1, 2)))
            if not ok_seq or not ok_alone:
                chk.violation(tag + ":estimate", "sequence / single estimates of a one-schedule tomography differ from the least-squares solutions of the data handed over (sequence ok: %s, alone ok: %s)" % (ok_seq, ok_alone), dict(para=para))
            if any(not np.array_equal(f, k_) for f, k_ in zip(fs, keep)):
                chk.violation(tag + ":data_modified", "the estimator changed the caller's data arrays", dict(para=para))
        except Exception as e:
            chk.violation(tag + ":exception", "%r" % e, dict(para=para))


def run(chk):
    from quara.protocol.qtomography.standard.linear_estimator import LinearEstimator
    from quara.simulation.consistency_check import calc_mse_of_true_estimated
    t = chk.tier
    r = chk.tlc("mc/MC_C09", "mc/MC_C09_%s.cfg" % t, workers=16, label="MC_C09 " + t, timeout=7000)
    cfgs = {}
    datas = []
    for e in r.emitted:
        if e["kind"] == "cfg":
            cfgs[(e["tomo"]["type"], tuple(e["tomo"]["tag"]), e["tomo"]["m"], e["tomo"]["para"])] = e
        else:
            datas.append(e)
    est = LinearEstimator()
    built = {}
    nsamp = 0
    for key, cfg in sorted(cfgs.items(), key=lambda kv: str(kv[0])):
        tomo = cfg["tomo"]
        tag = c08.tag_of(tomo)

        def bad(clause, msg, tag=tag, tomo=tomo):
            chk.violation("%s:%s" % (clause, tag), msg, dict(tomo=tomo, clause=clause))
        try:
            qt = c08.build_tomo(tomo)
        except Exception as e:
            bad("construct", "%r" % e)
            continue
        _, _, scale = c08.lib_model(tomo, [[[0, 1]] * cfg["numvar"]], [[0, 1]])
        built[key] = (qt, scale, cfg)
        sizes = cfg["sizes"]
        full = cfg["rank"] == cfg["numvar"]
        f0 = split(coords.rvec(cfg["data"]), sizes)
        chk.count(1, ("cfg", tag))
        if not full:
            # Informationally incomplete configuration: outside the property's quantifier ("complete and over-complete
            # tester sets").  The library refuses tall rank-deficient models; for schedule subsets with fewer rows than
            # variables its rank test (rank = min(rows, columns)) passes and it returns numbers - observed, not judged.
            try:
                est.calc_estimate(qt, [(100, f) for f in f0])
                chk.notes.setdefault("deficient_models_estimated", []).append(tag)
            except Exception:
                chk.notes.setdefault("deficient_models_refused", []).append(tag)
            continue
        chk.replayed += 1
        # all datasets of this configuration
        mine = [dict(didx=0, data=cfg["data"], est=cfg["est"], how="exact")] + \
               [d for d in datas if (d["type"], tuple(d["tag"]), d["m"], d["para"]) == key]
        seq_in, seq_exp = [], []
        for d in mine:
            fs = split(coords.rvec(d["data"]), sizes)
            want = coords.rvec(d["est"]) * scale
            try:
                res = est.calc_estimate(qt, [(100 + 7 * k, f.copy()) for k, f in enumerate(fs)])
                got = np.asarray(res.estimated_var)
            except Exception as e:
                bad("estimate:exception:%s" % d["how"], "calc_estimate raised %r on %s data" % (e, d["how"]))
                continue
            chk.count(1)
            if not coords.close(got, want, 1e-8):
                bad("estimate:%s" % d["how"], "estimated_var differs from the exact least-squares solution on %s data (max dev %.3g)" % (
                    d["how"], float(np.max(np.abs(got - want)))))
                continue
            # the estimate does not depend on the sample counts attached to the data
            res2 = est.calc_estimate(qt, [(1 + k, f.copy()) for k, f in enumerate(fs)])
            if not np.array_equal(np.asarray(res2.estimated_var), got):
                bad("estimate:depends_on_counts", "estimate changes with the attached sample counts")
            # estimated_qoperation is the object of those variables
            try:
                qo = res.estimated_qoperation
                if not coords.close(np.asarray(qo.to_var()).ravel(), got, 1e-9):
                    bad("estimated_qoperation", "to_var() of estimated_qoperation differs from estimated_var")
            except Exception as e:
                bad("estimated_qoperation:exception", "%r" % e)
            seq_in.append([(50, f.copy()) for f in fs])
            seq_exp.append(got)
            if nsamp < 4 and d["how"] != "exact":
                chk.sample(dict(tomo=tag, how=d["how"], data=d["data"][:6], est=d["est"][:4]))
                nsamp += 1
        # a sequence of datasets gives the same results as each dataset alone
        if seq_in:
            try:
                rs = est.calc_estimate_sequence(qt, seq_in)
                vs = [np.asarray(v) for v in rs.estimated_var_sequence]
                if len(vs) != len(seq_exp) or any(not np.array_equal(a, b) for a, b in zip(vs, seq_exp)):
                    bad("sequence", "calc_estimate_sequence differs from estimating each dataset alone")
                qs = rs.estimated_qoperation_sequence
                if len(qs) != len(vs) or any(not coords.close(np.asarray(q.to_var()).ravel(), v, 1e-9) for q, v in zip(qs, vs)):
                    bad("sequence:qoperations", "estimated_qoperation_sequence inconsistent with estimated_var_sequence")
            except Exception as e:
                bad("sequence:exception", "%r" % e)
        # physical catalogue: exact distributions give the object back; consistency check vanishes
        for ph in cfg["phys"]:
            fs = split(coords.rvec(ph["dist"]), sizes)
            want = coords.rvec(ph["var"]) * scale
            try:
                got = np.asarray(est.calc_estimate(qt, [(1000, f) for f in fs]).estimated_var)
                if not coords.close(got, want, 1e-8):
                    bad("recover:" + ph["name"], "exact distributions of %s are not inverted to it (max dev %.3g)" % (ph["name"], float(np.max(np.abs(got - want)))))
                obj = c08.build_unknown(tomo, ph["obj"])
                mse, _ = calc_mse_of_true_estimated(obj, qt, est)
                if not (mse < 1e-16):
                    bad("consistency_check:" + ph["name"], "calc_mse_of_true_estimated = %r for %s" % (mse, ph["name"]))
            except Exception as e:
                bad("recover:exception:" + ph["name"], "%r" % e)
            chk.count(1)
    # one estimator object serving many short-lived tomography objects (the way simulations use an estimator):
    # the estimate depends on the tomography it is given, not on tomographies the estimator has seen before
    import gc
    est2 = LinearEstimator()

    def one_shot(cfg):
        qt = c08.build_tomo(cfg["tomo"])           # not retained: freed when this helper returns
        fs = split(coords.rvec(cfg["data"]), cfg["sizes"])
        return np.asarray(est2.calc_estimate(qt, [(100, f.copy()) for f in fs]).estimated_var)
    full_cfgs = [(k, v) for k, v in sorted(built.items(), key=lambda kv: str(kv[0])) if v[2]["rank"] == v[2]["numvar"]]
    for rnd in range(2):
        for key, (_, scale, cfg) in full_cfgs:
            tag = c08.tag_of(cfg["tomo"])
            want = coords.rvec(cfg["est"]) * scale
            chk.count(1)
            try:
                got = one_shot(cfg)
                gc.collect()
                if got.shape != want.shape or not coords.close(got, want, 1e-8):
                    chk.violation("estimator_reuse:%s" % tag, "a re-used LinearEstimator returns a different estimate for a fresh tomography object than the exact least-squares solution",
                                  dict(tomo=cfg["tomo"], clause="estimator_reuse"))
                    break
            except Exception as e:
                chk.violation("estimator_reuse:exception:%s" % tag, "%r" % e, dict(tomo=cfg["tomo"], clause="estimator_reuse"))
                break
    single_schedule(chk)
    chk.notes["configurations"] = len(cfgs)
    chk.notes["datasets"] = len(datas) + len(cfgs)
    chk.assumptions += [
        "rank is computed over two prime fields below 2^15 (lower bound of the rational rank, equal unless a prime divides a minor)",
        "arbitrary (count-like, non-normalised) data only for models with at most SolveMax variables; larger models through certificate data",
    ]
    return chk.finish(exhaustive=True, rule="every configuration and dataset emitted by TLC; distinct = configurations")
