"""Life cycle of one Experiment (spec/QExpLife.tla), part of the C13 check (and the circuit side of C08).

TLC prints every transition of QExpLife: item assignment into the object lists of one long-lived Experiment
(`exp.states[i] = s`, the idiom of the tomography classes), the `states` setter, copy(), and runs of single schedules /
all schedules.  Every transition is replayed on a real Experiment; a run must return the Born statistics of the objects
its schedule names NOW (computed independently with compose_qoperations on freshly generated objects), never those of an
earlier occupant of the slot, and the data generators built on it must see the same distribution."""
import json

import numpy as np

from harness import core, graphwalk, qobjs


class Replayer:
    def __init__(self, chk):
        self.chk = chk
        self.c = qobjs.csys("qubit", 1)
        self.ref = {}

    def obj(self, kind, tok):
        return qobjs.gen(kind, tok, self.c)

    def born(self, term):
        from quara.objects.operators import compose_qoperations
        key = (term["state"], term["gate"], term["povm"])
        if key not in self.ref:
            self.ref[key] = np.asarray(compose_qoperations(self.obj("povm", key[2]), self.obj("gate", key[1]), self.obj("state", key[0])).ps, dtype=float)
        return self.ref[key]

    def construct(self, s):
        from quara.qcircuit.experiment import Experiment
        ns, np_ = len(s["st"]), len(s["pv"])
        scheds = [[("state", i), ("gate", 0), ("povm", j)] for i in range(ns) for j in range(np_)]
        return Experiment(states=[self.obj("state", t) for t in s["st"]], gates=[self.obj("gate", s["gt"])],
                          povms=[self.obj("povm", t) for t in s["pv"]], schedules=scheds)

    def walk(self, walk):
        chk = self.chk
        exp = self.construct(walk[0]["from"])
        try:
            exp.calc_prob_dists()          # whatever the object may remember is filled before the first step
        except Exception:
            pass
        for n, tr in enumerate(walk):
            act, arg = tr["act"], tr["arg"]
            ctx = dict(start=walk[0]["from"], walk=[dict(act=t["act"], arg=t["arg"]) for t in walk[:n + 1]], step=n)
            chk.count(1, (act, json.dumps(arg, sort_keys=True), json.dumps(tr["from"], sort_keys=True)))
            try:
                if act == "AssignItem":
                    getattr(exp, arg["kind"] + "s")[arg["index"]] = self.obj(arg["kind"], arg["tok"])
                elif act == "SetList":
                    exp.states = [self.obj("state", t) for t in arg["list"]]
                elif act == "Copy":
                    exp = exp.copy()
                elif act == "Run":
                    got = np.asarray(exp.calc_prob_dist(arg["schedule"]), dtype=float)
                    want = self.born(tr["res"])
                    if got.shape != want.shape or not np.allclose(got, want, rtol=0, atol=1e-12):
                        chk.violation("explife:stale:run", "calc_prob_dist(%d) returns %s; the objects the schedule names now (%s) give %s" % (
                            arg["schedule"], np.round(got, 6), tr["res"], np.round(want, 6)), ctx)
                        return
                    # the data generators see the same distribution: with many shots the frequencies are close to it
                    seq = exp.generate_empi_dist_sequence(arg["schedule"], [4000], seed_or_generator=7)
                    f = np.asarray(seq[0][1], dtype=float)
                    if np.max(np.abs(f - want)) > 0.06:
                        chk.violation("explife:stale:data", "data generated for schedule %d follow %s, the distribution of the current objects is %s" % (
                            arg["schedule"], np.round(f, 3), np.round(want, 3)), ctx)
                        return
                else:
                    got = [np.asarray(p, dtype=float) for p in exp.calc_prob_dists()]
                    wants = [self.born(t) for t in tr["res"]["all"]]
                    if len(got) != len(wants) or any(a.shape != b.shape or not np.allclose(a, b, rtol=0, atol=1e-12) for a, b in zip(got, wants)):
                        chk.violation("explife:stale:runall", "calc_prob_dists() differs from the statistics of the objects the schedules name now", ctx)
                        return
            except Exception as e:
                chk.violation("explife:exception:%s" % act, "%s(%s) raised %r" % (act, arg, e), ctx)
                return


def run_part(chk, rng):
    chk.tlc("mc/MC_ExpLife", "mc/MC_ExpLife.cfg", workers=8, label="MC_ExpLife")
    r = chk.tlc("mc/MC_ExpLife", "mc/MC_ExpLife_emit.cfg", workers=1, label="MC_ExpLife emit")
    g = graphwalk.Graph(r.emitted)
    rp = Replayer(chk)
    walks = g.cover_walks(10, rng)
    init = [k for k in g.out if json.loads(k) == r.emitted[0]["from"]] or list(g.out)[:1]
    walks += g.random_walks(40 if chk.tier == "quick" else 300, 25, rng)
    for wk in walks:
        rp.walk(wk)
        chk.replayed += 1
    chk.notes["explife_transitions"] = len(r.emitted)
    chk.notes["explife_walks"] = len(walks)
