"""QUARA2 - the composed two-qubit specification (spec/Quara2.tla).

Not one of the listed properties (growth of the specification, DESIGN.md 9.7).  TLC explores every session
product preparation -> one catalogue gate (two-qubit gate with every role assignment, or a pair of local
gates) -> product measurement, with the exact Hilbert-Schmidt matrices of QCatalogue, and checks
normalisation, positivity, marginals = local statistics, independence under local gates, the swap rule,
the Bell correlations of cx|+>|0> and the bit semantics of cx.  Every session is replayed through the
library: named states on the one-qubit subsystems, tensor_product, named gates with ids on the composite
system (or tensor products of local gates), compose_qoperations, product POVMs, the joint
MultinomialDistribution and its marginals.  Evidence: /verif/extra/evidence/QUARA2.json."""
import os

import numpy as np

from harness import core, coords, qobjs

SYS = (2, 2)


def run(chk):
    from quara.objects.composite_system import CompositeSystem
    from quara.objects.operators import compose_qoperations, tensor_product
    if not os.environ.get("VERIF_OUT"):
        chk._out = os.path.join(core.VERIF, "extra")
        chk._replay_dir = os.path.join(chk._out, "replays")
    t = chk.tier
    r = chk.tlc("mc/MC_Quara2", "mc/MC_Quara2_%s.cfg" % t, workers=16, label="MC_Quara2 " + t, timeout=5000)
    c2 = qobjs.csys("qubit", 2)
    ca, cb = CompositeSystem([c2[0]]), CompositeSystem([c2[1]])
    lib = {"id": "identity"}
    cache = {}

    def obj(mode, name, c, ids=None):
        key = (mode, name, id(c), tuple(ids) if ids else None)
        if key not in cache:
            cache[key] = qobjs.gen(mode, lib.get(name, name), c, ids=list(ids) if ids else None)
        return cache[key]

    def gate_of(g):
        key = ("G", str(sorted(g.items())))
        if key not in cache:
            if g["k"] == "two":
                cache[key] = obj("gate", g["n"], c2, g["ids"])
            else:
                cache[key] = tensor_product(obj("gate", g["a"], ca), obj("gate", g["b"], cb))
        return cache[key]
    for i, s in enumerate(r.emitted):
        tag = "%s,%s|%s|%s,%s" % (s["prep"][0], s["prep"][1],
                                  (s["gate"]["n"] + "".join(map(str, s["gate"]["ids"]))) if s["gate"]["k"] == "two" else s["gate"]["a"] + "x" + s["gate"]["b"],
                                  s["meas"][0], s["meas"][1])
        chk.count(1, ("session", tag))

        def bad(clause, msg):
            chk.violation("%s:%s" % (clause, tag), msg, dict(session={k: s[k] for k in ("prep", "gate", "meas")}, clause=clause))
        try:
            st = tensor_product(obj("state", s["prep"][0], ca), obj("state", s["prep"][1], cb))
            out = compose_qoperations(gate_of(s["gate"]), st)
            pv = tensor_product(obj("povm", s["meas"][0], ca), obj("povm", s["meas"][1], cb))
            dist = compose_qoperations(pv, out)
        except Exception as e:
            bad("exception", "%r" % e)
            continue
        want = coords.state_from_h(SYS, coords.rvec(s["out"])).vec
        if not np.allclose(out.vec, want, rtol=0, atol=1e-12):
            bad("state", "state after the gate differs from the exact one (max dev %.3g)" % float(np.max(np.abs(out.vec - want))))
        joint = np.array([[x[0] / x[1] for x in row] for row in s["joint"]])
        ps = np.asarray(dist.ps, dtype=float)
        # the library returns the joint distribution flat; the product POVM carries the layout
        if list(pv.nums_local_outcomes) != [2, 2] or ps.size != 4:
            bad("shape", "product POVM reports local outcome counts %s, distribution of size %d" % (list(pv.nums_local_outcomes), ps.size))
            continue
        from quara.objects.multinomial_distribution import MultinomialDistribution
        dist = MultinomialDistribution(ps.copy(), shape=tuple(pv.nums_local_outcomes))
        if not np.allclose(ps.reshape(2, 2), joint, rtol=0, atol=1e-12):
            bad("joint", "joint outcome distribution differs from the exact one (max dev %.3g)" % float(np.max(np.abs(ps.reshape(2, 2) - joint))))
        for k in (0, 1):
            for l in (0, 1):
                if abs(dist[(k, l)] - joint[k, l]) > 1e-12:
                    bad("index", "multi-index access (%d, %d) does not give the joint probability" % (k, l))
        for var, key in ((0, "m1"), (1, "m2")):
            m = np.asarray(dist.marginalize([var]).ps, dtype=float)
            if not np.allclose(m, coords.rvec(s[key]), rtol=0, atol=1e-12):
                bad("marginal:%d" % var, "marginal of variable %d differs from the local statistics" % var)
        chk.replayed += 1
        if i in (3, 900):
            chk.sample({k: s[k] for k in ("prep", "gate", "meas", "joint")})
    chk.assumptions += ["two qubits; stabiliser preparations and measurements along x, y, z; catalogue gates with every role assignment"]
    return chk.finish(exhaustive=True, rule="every session TLC reaches; distinct = sessions")
