"""State ensembles produced by measurement processes: states and probabilities share one layout."""


def run(chk):
    # filled in together with the composition catalogue (C06)
    return
