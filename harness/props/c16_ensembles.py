"""State ensembles produced by measurement processes: states and probabilities share one layout.

TLC (MC_C06, chains state -> measurement process (-> measurement process) with 2/3/4 outcomes) gives
for every outcome multi-index the exact unnormalised post-measurement state; the ensemble returned by
the library must hold, at the SAME multi-index (accessor state(outcome) and prob_dist[outcome]), a
probability and a normalised state whose product is that exact value; shape = outcome counts in time
order."""
import itertools

import numpy as np

from harness import coords
from harness.props import c06


def run(chk):
    from quara.objects.operators import compose_qoperations
    r = chk.tlc("mc/MC_C06", "mc/MC_C06_ens_emit.cfg", workers=8, label="MC_C06 ensembles emit")
    n = 0
    for case in r.emitted:
        if case["kind"] != "chain" or case["val"]["kind"] != "S":
            continue
        chain = case["chain"]
        if chain[0]["k"] != "S" or not any(it["k"] == "M" for it in chain):
            continue
        names = "-".join(it["n"] for it in chain)
        objs = [c06.build(it["k"], el) for it, el in zip(chain, case["elems"])]
        res = objs[0]
        for o in objs[1:]:
            res = compose_qoperations(o, res)
        shape = tuple(case["val"]["shape"])
        want = [coords.rvec(x) for x in case["val"]["items"]]
        n += 1
        chk.count(len(want), ("ens", names))
        if tuple(res.prob_dist.shape) != shape:
            chk.violation("ensemble:shape:%s" % names, "ensemble shape %s, outcome counts in time order %s" % (res.prob_dist.shape, shape), dict(chain=chain))
            continue
        for mi in itertools.product(*[range(s) for s in shape]):
            ser = int(np.ravel_multi_index(mi, shape))
            key = tuple(mi) if len(mi) > 1 else int(mi[0])
            st = res.state(key)
            p = res.prob_dist[key]
            if not coords.close(p * coords.h_of_vec((2,), st.vec), want[ser], 1e-9) or st is not res.states[ser]:
                chk.violation("ensemble:layout:%s" % names, "state/probability at outcome %s do not belong together" % (mi,), dict(chain=chain))
                break
        ps = np.asarray(res.prob_dist.ps)
        if abs(ps.sum() - 1) > 1e-9:
            chk.violation("ensemble:norm:%s" % names, "probabilities sum to %r" % ps.sum(), dict(chain=chain))
        chk.replayed += 1
    chk.notes["ensembles"] = n
