"""C19 - analytical error formulas equal exact expectations.

TLC (MC_C19 over QStats): for every configuration, true object of the physical catalogue and
sample-size list, the exact multinomial expectations obtained by COMPLETE enumeration of count
vectors equal the analytic formulas on the specification (normalisation, mean, covariance, MSE of
the empirical distributions, MSE of the linear estimate in library coordinates), the object-mode MSE
dominates the variable-mode one with equality iff nothing is implied, 1/N scaling.  Binding: the
library's calc_covariance_mat_single/_total, calc_covariance_linear_mat_total,
calc_mse_linear_analytical (both modes), calc_mse_empi_dists_analytical, calc_fisher_matrix(_total),
calc_cramer_rao_bound and the sample-statistics helpers must reproduce the exact values."""
import itertools

import numpy as np

from harness import core, coords, qobjs
from harness.props import c08


def obj_map(T, d, m, para):
    """rows: all cells (stacked order), columns: variables; the affine map's linear part."""
    layout = coords.var_layout(T, d, m, para)
    pos = {c: i for i, c in enumerate(layout)}
    n = d * d
    if T == "state":
        cells = [(0, r, 0) for r in range(n)]
    elif T == "povm":
        cells = [(x, r, 0) for x in range(m) for r in range(n)]
    elif T == "gate":
        cells = [(0, r, c) for r in range(n) for c in range(n)]
    else:
        cells = [(x, r, c) for x in range(m) for r in range(n) for c in range(n)]
    M = np.zeros((len(cells), len(layout)))
    for i, c in enumerate(cells):
        if c in pos:
            M[i, pos[c]] = 1.0
        elif para:
            if T == "povm" and c[0] == m - 1:
                for x in range(m - 1):
                    M[i, pos[(x, c[1], 0)]] = -1.0
            if T == "mprocess" and c[0] == m - 1 and c[1] == 0:
                for x in range(m - 1):
                    M[i, pos[(x, 0, c[2])]] = -1.0
    return cells, M


def object_mse_helper(chk):
    """calc_mse_qoperations: mean (and sample standard deviation) of |x_i - y_i|^2 over PAIRS of objects - lists whose reference
    objects differ from pair to pair, all four object types."""
    from quara.data_analysis import data_analysis as da
    from harness import qobjs
    c = qobjs.csys("qubit", 1)
    lists = {"state": (["x0", "y0", "z1", "a"], ["z0", "x1", "y1", "y0"]), "povm": (["x", "y", "z"], ["z", "x", "y"]),
             "gate": (["x90", "hadamard", "y90", "identity"], ["identity", "x90", "hadamard", "z90"]), "mprocess": (["x-type1", "z-type1"], ["z-type1", "y-type1"])}
    for kind, (xn, yn) in lists.items():
        xs = [qobjs.gen(kind, n_, c) for n_ in xn]
        ys = [qobjs.gen(kind, n_, c) for n_ in yn]
        pts = [float(np.sum((np.asarray(x.to_stacked_vector()) - np.asarray(y.to_stacked_vector())) ** 2)) for x, y in zip(xs, ys)]
        chk.count(1, ("object_mse", kind))
        try:
            mse, std = da.calc_mse_qoperations(xs, ys, mode="qoperation", with_std=True)
            mse2 = da.calc_mse_qoperations(xs, ys, mode="qoperation", with_std=False)
            if abs(mse - np.mean(pts)) > 1e-12 or abs(std - np.std(pts, ddof=1)) > 1e-12 or abs(mse2 - np.mean(pts)) > 1e-12:
                chk.violation("helper:calc_mse_qoperations:%s" % kind, "calc_mse_qoperations=%r / %r, mean and sample standard deviation of the pairwise squared distances %r / %r" % (
                    mse, std, float(np.mean(pts)), float(np.std(pts, ddof=1))), dict(kind=kind))
        except Exception as e:
            chk.violation("helper:calc_mse_qoperations:exception:%s" % kind, "%r" % e, dict(kind=kind))


def helper_checks(chk, rng):
    """Sample statistics helpers compute what they say (enumerated integer samples)."""
    from quara.utils import matrix_util as mu
    from quara.data_analysis import data_analysis as da
    object_mse_helper(chk)
    n = 0
    for dims in ((1, 2), (2, 2), (3, 2), (2, 3)):
        k, L = dims
        for vals in itertools.product((-1, 0, 2), repeat=min(k * L, 4)):
            vals = list(vals) + [1] * (k * L - len(vals))
            xs = [np.array(vals[i * L:(i + 1) * L], dtype=float) for i in range(k)]
            ys = [np.array([(j + i) % 3 for j in range(L)], dtype=float) for i in range(k)]
            se = mu.calc_se(xs, ys)
            want = sum(float(np.sum((x - y) ** 2)) for x, y in zip(xs, ys))
            n += 1
            if abs(se - want) > 1e-12:
                chk.violation("helper:calc_se", "calc_se=%r, definition %r" % (se, want), dict(xs=[list(x) for x in xs]))
    # mean / std over repetitions
    for reps in (2, 3, 5):
        xs_list = [[np.array([i, 2.0 * i]), np.array([1.0, i * i])] for i in range(reps)]
        ys_list = [[np.array([0.0, 1.0]), np.array([1.0, 0.0])] for _ in range(reps)]
        mse, std = mu.calc_mse_prob_dists(xs_list, ys_list)
        ses = [sum(float(np.sum((x - y) ** 2)) for x, y in zip(xs, ys)) for xs, ys in zip(xs_list, ys_list)]
        n += 1
        if abs(mse - np.mean(ses)) > 1e-12 or abs(std - np.std(ses, ddof=1)) > 1e-12:
            chk.violation("helper:calc_mse_prob_dists", "mean/std %r,%r vs %r,%r" % (mse, std, np.mean(ses), np.std(ses, ddof=1)), dict(reps=reps))
        g = da.calc_mse_general_norm([np.array([float(i), 1.0]) for i in range(reps)], np.array([1.0, 1.0]), lambda a, b: float(np.linalg.norm(a - b)))
        if abs(g - np.mean([(i - 1.0) ** 2 for i in range(reps)])) > 1e-12:
            chk.violation("helper:calc_mse_general_norm", "%r" % g, dict(reps=reps))
    # direct sums, covariance of a distribution
    a = np.array([[1.0, 2.0], [3.0, 4.0]])
    b = np.array([[5.0]])
    c = np.arange(9.0).reshape(3, 3)
    ds = mu.calc_direct_sum([a, b, c])
    want = np.zeros((6, 6))
    want[:2, :2] = a
    want[2:3, 2:3] = b
    want[3:, 3:] = c
    n += 1
    if ds.shape != want.shape or not np.array_equal(ds, want):
        chk.violation("helper:calc_direct_sum", "direct sum wrong", dict())
    for p in ([0.25, 0.75], [0.5, 0.25, 0.25], [0.125, 0.5, 0.25, 0.125]):
        p = np.array(p)
        for N in (1, 3, 8):
            w = (np.diag(p) - np.outer(p, p)) / N
            n += 1
            if not np.allclose(mu.calc_covariance_mat(p, N), w, atol=1e-15) or not np.allclose(da.calc_covariance_matrix_of_prob_dist(p, N), w, atol=1e-15):
                chk.violation("helper:calc_covariance_mat", "covariance helper wrong for p=%s N=%d" % (p, N), dict(p=list(p), N=N))
        tot = da.calc_covariance_matrix_of_prob_dists([p, p[::-1]], 4)
        w = mu.calc_direct_sum([(np.diag(p) - np.outer(p, p)) / 4, (np.diag(p[::-1]) - np.outer(p[::-1], p[::-1])) / 4])
        if not np.allclose(tot, w, atol=1e-15):
            chk.violation("helper:calc_covariance_matrix_of_prob_dists", "block structure wrong", dict(p=list(p)))
    chk.count(n)


def mixed_outcome_counts(chk):
    """Tester sets whose schedules have DIFFERENT outcome counts (2, 4, 2 and 2, 3, 4).  The complete enumeration of a
    4-outcome schedule overflows TLC's 32-bit rationals, so the formulas TLC verified on the uniform configurations
    (covariance (diag p - p p^T)/N per schedule, MSE = trace, linear estimate through the pseudo-inverse of A) are
    evaluated here in numpy from Born probabilities computed from the objects' matrices."""
    from quara.objects.povm import Povm
    from quara.protocol.qtomography.standard.standard_qst import StandardQst
    c = qobjs.csys("qubit", 1)
    sv = {n: qobjs.gen("state", n, c).vec for n in ("z0", "z1", "y0", "y1")}
    p4 = Povm(c, [0.5 * sv["z0"], 0.5 * sv["z1"], 0.5 * sv["y0"], 0.5 * sv["y1"]])
    x, z = qobjs.gen("povm", "x", c), qobjs.gen("povm", "z", c)
    sets = {"x-p4-z": [x, p4, z], "z-p3-p4": [z, qobjs.povm3_qubit(), p4], "p4-x-y-z": [p4, x, qobjs.gen("povm", "y", c), z]}
    from quara.objects.state import State
    trues = {"a": qobjs.gen("state", "a", c), "interior": State(c, np.array([1.0, 0.3, -0.2, 0.4]) / np.sqrt(2))}
    for sname, povms in sets.items():
        ns = [3, 5, 4, 6][:len(povms)]
        for para in (True, False):
            qt = StandardQst(povms, on_para_eq_constraint=para, schedules="all")
            A = np.asarray(qt.calc_matA())
            Ap = np.linalg.pinv(A)
            for tname, tr in trues.items():
                tag = "mixed:%s:%s:%s" % (sname, "para" if para else "nopara", tname)
                obj = tr.copy()
                obj._on_para_eq_constraint = para
                rho = tr.to_density_matrix()
                ps = [np.array([np.trace(E @ rho).real for E in pv.matrices()]) for pv in povms]
                covs = [(np.diag(p) - np.outer(p, p)) / n for p, n in zip(ps, ns)]
                sizes = [len(p) for p in ps]
                off = np.cumsum([0] + sizes)
                tot = np.zeros((off[-1], off[-1]))
                for k, cv in enumerate(covs):
                    tot[off[k]:off[k + 1], off[k]:off[k + 1]] = cv
                chk.count(4, ("mixed", tag))

                def bad(clause, msg):
                    chk.violation("%s:%s" % (clause, tag), msg, dict(tester_set=sname, para=para, true=tname, ns=ns, clause=clause))
                try:
                    for k in range(len(povms)):
                        got = np.asarray(qt.calc_covariance_mat_single(obj, k, ns[k]))
                        if got.shape != covs[k].shape or not coords.close(got, covs[k], 1e-9):
                            bad("covariance_single", "calc_covariance_mat_single(schedule %d) differs from (diag p - p p^T)/N with the Born probabilities" % k)
                            break
                    got = np.asarray(qt.calc_covariance_mat_total(obj, ns))
                    if got.shape != tot.shape or not coords.close(got, tot, 1e-9):
                        bad("covariance_total", "calc_covariance_mat_total is not the direct sum of the schedule covariances")
                    g = float(qt.calc_mse_empi_dists_analytical(obj, ns))
                    if abs(g - np.trace(tot)) > 1e-9:
                        bad("mse_empi", "calc_mse_empi_dists_analytical=%r, trace of the covariance %r" % (g, float(np.trace(tot))))
                    want = float(np.trace(Ap @ tot @ Ap.T))
                    for mode in ("var", "qoperation"):
                        g = float(qt.calc_mse_linear_analytical(obj, ns, mode=mode))
                        if abs(g - want) > 1e-8 * (1 + abs(want)):
                            bad("mse_linear:" + mode, "calc_mse_linear_analytical(mode=%s)=%r, tr(A+ V A+^T)=%r" % (mode, g, want))
                except Exception as e:
                    bad("exception", "%r" % e)


def run(chk):
    import random
    rng = random.Random(chk.seed)
    t = chk.tier
    r = chk.tlc("mc/MC_C19", "mc/MC_C19_%s.cfg" % t, workers=16, label="MC_C19 " + t, timeout=7000)
    cache = {}
    for case in r.emitted:
        tomo = case["tomo"]
        st = case["st"]
        sizes = case["sizes"]
        key = (tomo["type"], tuple(tomo["tag"]), tomo["m"], tomo["para"])
        tag = c08.tag_of(tomo)
        T = c08.TYPE_T[tomo["type"]]
        d = int(np.prod(tomo["sys"]))
        if key not in cache:
            qt = c08.build_tomo(tomo)
            layout = coords.var_layout(T, d, tomo["m"], tomo["para"])
            scale = coords.var_scale(T, tuple(tomo["sys"]), tomo["m"], tomo["para"], layout)
            cache[key] = (qt, scale)
        qt, scale = cache[key]
        obj = c08.build_unknown(tomo, case["obj"])
        ns = list(st["ns"])
        uniq = "%s:%s:N%s" % (tag, st["name"], "-".join(map(str, ns)))

        def bad(clause, msg):
            chk.violation("%s:%s:m%d:%s" % (clause, tomo["type"], tomo["m"], "para" if tomo["para"] else "nopara"), "%s [%s]" % (msg, uniq),
                          dict(tomo=tomo, name=st["name"], ns=ns, clause=clause))
        try:
            covs = [coords.rmat(c) for c in st["covs"]]
            for s in range(len(sizes)):
                got = np.asarray(qt.calc_covariance_mat_single(obj, s, ns[s]))
                if got.shape != covs[s].shape or not coords.close(got, covs[s], 1e-9):
                    bad("covariance_single", "calc_covariance_mat_single(schedule %d) differs from the exact covariance" % s)
                    break
            tot = np.asarray(qt.calc_covariance_mat_total(obj, ns))
            off = np.cumsum([0] + sizes)
            want = np.zeros((off[-1], off[-1]))
            for s in range(len(sizes)):
                want[off[s]:off[s + 1], off[s]:off[s + 1]] = covs[s]
            if tot.shape != want.shape or not coords.close(tot, want, 1e-9):
                bad("covariance_total", "calc_covariance_mat_total is not the direct sum of the exact covariances")
            cl = coords.rmat(st["covLin"]) * np.outer(scale, scale)
            got = np.asarray(qt.calc_covariance_linear_mat_total(obj, ns))
            if got.shape != cl.shape or not coords.close(got, cl, 1e-8):
                bad("covariance_linear", "calc_covariance_linear_mat_total differs from the exact covariance of the linear estimate")
            mv = coords.rat(st["mseVar"])
            mo = coords.rat(st["mseObj"])
            me = coords.rat(st["mseEmpi"])
            g = float(qt.calc_mse_linear_analytical(obj, ns, mode="var"))
            if abs(g - mv) > 1e-8 * (1 + abs(mv)):
                bad("mse_linear:var", "calc_mse_linear_analytical(mode=var)=%r, exact expectation %r" % (g, mv))
            g = float(qt.calc_mse_linear_analytical(obj, ns, mode="qoperation"))
            if abs(g - mo) > 1e-8 * (1 + abs(mo)):
                bad("mse_linear:qoperation", "calc_mse_linear_analytical(mode=qoperation)=%r, exact expectation of |stacked(est)-stacked(true)|^2 is %r (variable mode %r)" % (g, mo, mv))
            g = float(qt.calc_mse_empi_dists_analytical(obj, ns))
            if abs(g - me) > 1e-9 * (1 + abs(me)):
                bad("mse_empi", "calc_mse_empi_dists_analytical=%r, exact %r" % (g, me))
            chk.count(5 + len(sizes), ("case", uniq))
            # Fisher matrix and Cramer-Rao bound (interior objects only)
            if st["fishers"]:
                F = [coords.rmat(f) / np.outer(scale, scale) for f in st["fishers"]]
                # the true point may be handed over as an object or as its variable vector: both forms name the same point
                forms = (("object", obj), ("array", np.asarray(obj.to_var()).copy()))
                for s in range(len(sizes)):
                    for fname, arg in forms:
                        got = np.asarray(qt.calc_fisher_matrix(s, arg))
                        if got.shape != F[s].shape or not coords.close(got, F[s], 1e-7):
                            bad("fisher" + ("" if fname == "object" else ":array"), "calc_fisher_matrix(%d) (true point given as %s) differs from sum grad grad^T / p" % (s, fname))
                            break
                N = max(ns)
                w = [n_ / N for n_ in ns]
                Ft = sum(wi * Fi for wi, Fi in zip(w, F))
                for fname, arg in forms:
                    got = np.asarray(qt.calc_fisher_matrix_total(arg, w))
                    if not coords.close(got, Ft, 1e-7):
                        bad("fisher_total" + ("" if fname == "object" else ":array"), "calc_fisher_matrix_total (true point given as %s) differs from the weighted sum" % fname)
                if np.linalg.matrix_rank(Ft) == len(Ft):
                    inv = np.linalg.inv(Ft)
                    crb_var = np.trace(inv) / N
                    cells, M = obj_map(T, d, tomo["m"], tomo["para"])
                    # object-parametrisation bound: tr(M F^-1 M^T)/N  (library coordinates: M has entries 0, +-1)
                    crb_obj = np.trace(M @ inv @ M.T) / N
                    want = crb_obj if tomo["type"] == "povmt" else crb_var
                    for fname, arg in forms:
                        g = float(qt.calc_cramer_rao_bound(arg, N, ns))
                        if abs(g - want) > 1e-6 * (1 + abs(want)):
                            bad("cramer_rao" + ("" if fname == "object" else ":array"), "calc_cramer_rao_bound (true point given as %s)=%r, textbook value %r" % (fname, g, want))
                chk.count(2 + len(sizes))
            else:
                # boundary objects: some outcome has probability exactly 0 and the textbook matrix diverges; the library's
                # DOCUMENTED regularisation (matrix_util: "a parameter to avoid divergence about the inverse of probability,
                # by default 1e-8") floors those probabilities at 1e-8 and takes the excess evenly from the others.
                # Gradients: rows of the model matrix (decided by C08).
                A = np.asarray(qt.calc_matA(), dtype=float)
                pv = np.array([coords.rat(x) for x in st["p"]], dtype=float)
                off = np.cumsum([0] + list(sizes))
                for s in range(len(sizes)):
                    ps = pv[off[s]:off[s + 1]].copy()
                    zero = ps < 1e-8
                    if zero.any() and not zero.all():
                        ps[~zero] -= 1e-8 * zero.sum() / (~zero).sum()
                        ps[zero] = 1e-8
                    G = A[off[s]:off[s + 1]]
                    want = (G.T / ps) @ G
                    got = np.asarray(qt.calc_fisher_matrix(s, obj))
                    if got.shape != want.shape or np.max(np.abs(got - want)) > 1e-6 * (1 + np.max(np.abs(want))):
                        bad("fisher:boundary", "calc_fisher_matrix(%d) at a true object with a zero-probability outcome differs from sum grad grad^T / p with the "
                            "documented floor 1e-8 (largest entry %.6g, expected %.6g)" % (s, float(np.max(np.abs(got))), float(np.max(np.abs(want)))))
                        break
                chk.count(len(sizes))
        except Exception as e:
            bad("exception", "%r" % e)
        chk.replayed += 1
        if len(chk.samples) < 3:
            chk.sample(dict(tomo=tag, true=st["name"], ns=ns, mseVar=st["mseVar"], mseObj=st["mseObj"], mseEmpi=st["mseEmpi"], cov0=st["covs"][0]))
    helper_checks(chk, rng)
    mixed_outcome_counts(chk)
    chk.assumptions += [
        "exact expectations by complete enumeration for sample sizes 1..4 per schedule; larger sizes only through the verified 1/N scaling",
        "configurations restricted to tester sets whose exact pseudo-inverse fits TLC's 32-bit rationals",
        "the library's variable-mode bound is compared for state/gate/mprocess unknowns, the object-mode bound for POVM unknowns (as the library documents)",
    ]
    return chk.finish(exhaustive=True, rule="every (configuration, true object, sample-size list) emitted by TLC; distinct = those tuples")
