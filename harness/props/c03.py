"""C03 - optimisation variables and objects are in one-to-one correspondence.

TLC model-checks QIndex (layouts injective, cover exactly the non-implied cells, preserve the
stacked order, index maps mutually inverse, total index of an operation set bijective) and prints
every configuration's layout; the replay fills real State/Povm/Gate/MProcess objects and variable
vectors with distinct integer labels and requires the library to move every label exactly where the
specification's layout says (all indices of every configuration)."""
import json
import math
import random

import numpy as np

from harness import core, qobjs


def label(cell):
    x, r, c = cell
    return float(1 + x * 1000000 + r * 1000 + c)


def csys_for(d):
    if d == 2:
        return qobjs.csys("qubit", 1)
    if d == 3:
        return qobjs.csys("qutrit", 1)
    if d == 4:
        return qobjs.csys("qubit", 2)
    if d == 6:
        return qobjs.csys_mixed((2, 3))
    raise core.MachineryError("no composite system for d=%d" % d)


def build(T, d, m, para, cellval, layout="C"):
    """Object of type T whose entry at `cell` is cellval(cell).  layout: memory layout of the matrices handed to the
    constructor - "C" (row-major), "F" (column-major) or "T" (a transposed view of the transposed matrix): the same values."""
    from quara.objects.state import State
    from quara.objects.povm import Povm
    from quara.objects.gate import Gate
    from quara.objects.mprocess import MProcess
    c = csys_for(d)
    n = d * d
    kw = dict(is_physicality_required=False, on_para_eq_constraint=para)
    if T == "state":
        return State(c, np.array([cellval((0, r, 0)) for r in range(n)], dtype=np.float64), **kw)
    if T == "povm":
        return Povm(c, [np.array([cellval((x, r, 0)) for r in range(n)], dtype=np.float64) for x in range(m)], **kw)
    def mem(a_):
        return a_ if layout == "C" else np.asfortranarray(a_) if layout == "F" else np.ascontiguousarray(a_.T).T
    if T == "gate":
        return Gate(c, mem(np.array([[cellval((0, r, cc)) for cc in range(n)] for r in range(n)], dtype=np.float64)), **kw)
    if T == "mprocess":
        return MProcess(c, [mem(np.array([[cellval((x, r, cc)) for cc in range(n)] for r in range(n)], dtype=np.float64))
                            for x in range(m)], **kw)


def read_cell(obj, T, cell):
    x, r, c = cell
    if T == "state":
        return obj.vec[r]
    if T == "povm":
        return obj.vecs[x][r]
    if T == "gate":
        return obj.hs[r][c]
    return obj.hss[x][r][c]


def index_funcs(T):
    if T == "state":
        from quara.objects.state import convert_var_index_to_state_index as v2o, convert_state_index_to_var_index as o2v
        return (lambda c, obj, v, para: (0, v2o(v, para), 0)), (lambda c, obj, cell, para: o2v(cell[1], para))
    if T == "povm":
        from quara.objects.povm import convert_var_index_to_povm_index as v2o, convert_povm_index_to_var_index as o2v
        return (lambda c, obj, v, para: tuple(v2o(c, obj.vecs, v, para)) + (0,)), \
               (lambda c, obj, cell, para: o2v(c, obj.vecs, (cell[0], cell[1]), para))
    if T == "gate":
        from quara.objects.gate import convert_var_index_to_gate_index as v2o, convert_gate_index_to_var_index as o2v
        return (lambda c, obj, v, para: (0,) + tuple(v2o(c, v, para))), \
               (lambda c, obj, cell, para: o2v(c, (cell[1], cell[2]), para))
    from quara.objects.mprocess import convert_var_index_to_mprocess_index as v2o, convert_mprocess_index_to_var_index as o2v
    return (lambda c, obj, v, para: tuple(v2o(c, obj.hss, v, para))), \
           (lambda c, obj, cell, para: o2v(c, tuple(cell), obj.hss, para))


def const_value(name, d):
    return {"0": 0.0, "1": 1.0, "INV_SQRT_D": 1 / math.sqrt(d), "SQRT_D": math.sqrt(d)}[name]


def replay_object(chk, case, rng, grad_budget):
    cfg = case["cfg"]
    T, d, m, para = cfg["T"], cfg["d"], cfg["m"], cfg["para"]
    tag = "%s:d%d:m%d:%s" % (T, d, m, "para" if para else "nopara")
    var_layout = [tuple(c) for c in case["var"]]
    stack_layout = [tuple(c) for c in case["stack"]]
    nv = case["numvar"]
    c = csys_for(d)

    def bad(clause, msg):
        chk.violation("%s:%s" % (clause, tag), msg, dict(cfg=cfg, clause=clause))

    try:
        obj = build(T, d, m, para, label)
        # to_stacked_vector / to_var
        sv = np.asarray(obj.to_stacked_vector()).ravel()
        if len(sv) != len(stack_layout) or any(sv[i] != label(stack_layout[i]) for i in range(len(sv))):
            bad("to_stacked_vector", "stacked vector does not follow the specified layout")
        var = np.asarray(obj.to_var()).ravel()
        if len(var) != nv:
            bad("to_var:len", "len(to_var())=%d, NumVar=%d" % (len(var), nv))
        elif any(var[v] != label(var_layout[v]) for v in range(nv)):
            k = [v for v in range(nv) if var[v] != label(var_layout[v])][0]
            bad("to_var", "to_var()[%d]=%r but the specification places cell %s (label %r) there" % (k, var[k], var_layout[k], label(var_layout[k])))
        chk.count(len(sv) + nv)
        # generate_from_var on a labelled variable vector
        vlab = np.array([float(5 + 3 * v) for v in range(nv)], dtype=np.float64)
        vkeep = vlab.copy()
        obj2 = obj.generate_from_var(vlab)
        if not np.array_equal(vlab, vkeep):
            bad("generate_from_var:mutates", "generate_from_var modified its argument")
        cellval = {}
        for v in range(nv):
            cellval[var_layout[v]] = vlab[v]
            got = read_cell(obj2, T, var_layout[v])
            if got != vlab[v]:
                bad("generate_from_var", "variable %d should land in cell %s; found %r there" % (v, var_layout[v], got))
                break
        for imp in case["implied"]:
            cell = tuple(imp["cell"])
            want = const_value(imp["const"], d) - sum(cellval[tuple(q)] for q in imp["minus"])
            got = read_cell(obj2, T, cell)
            if abs(got - want) > 1e-9 * (1 + abs(want)):
                bad("implied", "implied cell %s = %r, specification formula gives %r" % (cell, got, want))
                break
        back = np.asarray(obj2.to_var()).ravel()
        if len(back) != nv or not np.array_equal(back, vlab):
            bad("var_roundtrip", "to_var(generate_from_var(v)) != v")
        # the memory layout of the arrays an object was built from is not part of its value
        if T in ("gate", "mprocess"):
            for lay in ("F", "T"):
                try:
                    ob_l = build(T, d, m, para, label, layout=lay)
                    if not np.array_equal(np.asarray(ob_l.to_var()).ravel(), var) or not np.array_equal(np.asarray(ob_l.to_stacked_vector()).ravel(), sv):
                        bad("memory_layout", "to_var / to_stacked_vector of an object built from %s arrays differ from those of the same matrices in row-major memory" % ("column-major" if lay == "F" else "transposed-view"))
                        break
                except Exception as e:
                    bad("memory_layout:exception", "%r" % e)
                    break
        # the parametrisation named in the call wins over the template's: a template built with the OTHER flag, asked for
        # this flag explicitly, gives the same object as a template of this flag
        try:
            other = build(T, d, m, not para, label)
            obj5 = other.generate_from_var(vlab.copy(), on_para_eq_constraint=para)
            if obj5.on_para_eq_constraint != para or not np.array_equal(np.asarray(obj5.to_stacked_vector()).ravel(), np.asarray(obj2.to_stacked_vector()).ravel()) \
                    or not np.array_equal(np.asarray(obj5.to_var()).ravel(), vlab):
                bad("generate_from_var:explicit_flag", "generate_from_var(v, on_para_eq_constraint=%s) on a template built with %s does not give the object of the named parametrisation" % (para, not para))
        except Exception as e:
            bad("generate_from_var:explicit_flag:exception", "generate_from_var(v, on_para_eq_constraint=%s) on a template built with %s raised %r" % (para, not para, e))
        # the object regenerated from to_var() of obj reproduces obj on non-implied cells, and for
        # an object that satisfies the equality constraint reproduces it completely
        obj3 = obj.generate_from_var(np.asarray(obj.to_var()))
        for v in range(nv):
            if read_cell(obj3, T, var_layout[v]) != label(var_layout[v]):
                bad("obj_roundtrip", "generate_from_var(to_var(o)) differs from o at cell %s" % (var_layout[v],))
                break
        sv2 = np.asarray(obj2.to_stacked_vector()).ravel()
        obj4 = obj2.generate_from_var(np.asarray(obj2.to_var()))
        if not np.allclose(np.asarray(obj4.to_stacked_vector()).ravel(), sv2, rtol=0, atol=1e-9):
            bad("obj_roundtrip_constrained", "generate_from_var(to_var(o)) != o for an object on the constraint")
        # static conversions var <-> stacked
        cls = type(obj)
        st = np.asarray(cls.convert_var_to_stacked_vector(c, vlab.copy(), para)).ravel()
        if len(st) != len(stack_layout) or not np.allclose(st, sv2, rtol=0, atol=1e-9):
            bad("convert_var_to_stacked_vector", "differs from generate_from_var(var).to_stacked_vector()")
        vv = np.asarray(cls.convert_stacked_vector_to_var(c, sv2.copy(), para)).ravel()
        if len(vv) != nv or not np.array_equal(vv, vlab):
            bad("convert_stacked_vector_to_var", "stacked -> var does not return the variables")
        # index conversions, every index
        v2o, o2v = index_funcs(T)
        for v in range(nv):
            cell = tuple(int(t) for t in v2o(c, obj, v, para))
            if cell != var_layout[v]:
                bad("var_index_to_obj_index", "index %d -> %s, specification says %s" % (v, cell, var_layout[v]))
                break
            w = int(o2v(c, obj, var_layout[v], para))
            if w != v:
                bad("obj_index_to_var_index", "cell %s -> %d, specification says %d" % (var_layout[v], w, v))
                break
        chk.count(2 * nv, ("idx", tag))
        # gradients (one-hot at the predicted cell)
        idxs = list(range(nv)) if nv <= grad_budget else sorted(set([0, 1, nv - 1, nv - 2] + rng.sample(range(nv), grad_budget)))
        for v in idxs:
            g = obj.calc_gradient(v)
            gs = np.asarray(g.to_stacked_vector()).ravel()
            pos = stack_layout.index(var_layout[v])
            if gs[pos] != 1.0 or np.count_nonzero(gs) != 1:
                bad("calc_gradient", "calc_gradient(%d) is not the unit object at cell %s" % (v, var_layout[v]))
                break
        chk.count(len(idxs))
    except Exception as e:  # an exception where the conversion is defined is a violation
        bad("exception", "unexpected %s: %s" % (type(e).__name__, e))


def build_items(descs, start):
    """real objects for a list of descriptors, every entry labelled (base differs per object)."""
    out = []
    for j, o in enumerate(descs):
        base = 1e7 * (start + j + 1)
        out.append(build(o["T"], o["d"], o["m"], o["para"], lambda cell, base=base: base + label(cell)))
    return out


def set_tag(st):
    return "|".join("%s:%s" % (mode, ",".join("d%dm%d%s" % (o["d"], o["m"], "p" if o["para"] else "n") for o in st[mode]))
                    for mode in ("state", "gate", "povm", "mprocess"))


def check_set(chk, sq, objs, size, total, tag, bad):
    """every report of the operation set `sq` against the specification's layout (size, total) of the lists `objs`."""
    total = [tuple(t) for t in total]
    if sq.size_var_total() != size:
        bad("size", "size_var_total()=%d, specification %d" % (sq.size_var_total(), size))
        return False
    vt = np.asarray(sq.var_total()).ravel()
    if len(vt) != size:
        bad("var_total:length", "len(var_total())=%d, specification %d" % (len(vt), size))
        return False
    for k, (mode, item, local) in enumerate(total):
        want = np.asarray(objs[mode][item].to_var()).ravel()[local]
        if vt[k] != want:
            bad("var_total", "var_total()[%d] is not variable %d of %s[%d]" % (k, local, mode, item))
            return False
        got = sq.index_var_total_from_local_info(mode, item, local)
        if got != k:
            bad("index_var_total_from_local_info", "(%s,%d,%d) -> %d, specification %d" % (mode, item, local, got, k))
            return False
        info = sq.local_info_from_index_var_total(k)
        if (info["mode"], info["index_operations"], info["index_var_local"]) != (mode, item, local):
            bad("local_info_from_index_var_total", "%d -> %s, specification %s" % (k, info, (mode, item, local)))
            return False
    chk.count(3 * len(total), ("set", tag))
    # regenerate the whole set from a labelled total vector
    newv = np.array([float(11 + 7 * k) for k in range(len(total))], dtype=np.float64)
    sq2 = sq.set_qoperations_from_var_total(newv)
    back = np.asarray(sq2.var_total()).ravel()
    if not np.array_equal(back, newv):
        bad("set_qoperations_from_var_total", "var_total of the regenerated set differs from the vector given")
        return False
    for k, (mode, item, local) in enumerate(total):
        ob = sq2.qoperations(mode)[item]
        if np.asarray(ob.to_var()).ravel()[local] != newv[k]:
            bad("set_qoperations_from_var_total:place", "total index %d did not reach %s[%d] variable %d" % (k, mode, item, local))
            return False
    return True


def replay_set(chk, case):
    from quara.objects.qoperations import SetQOperations
    st = case["set"]
    objs = {}
    n = 0
    for mode in ("state", "gate", "povm", "mprocess"):
        objs[mode] = build_items(st[mode], n)
        n += len(objs[mode])
    tag = set_tag(st)

    def bad(clause, msg):
        chk.violation("set:%s:%s" % (clause, tag), msg, dict(set=st, clause=clause))

    try:
        sq = SetQOperations(states=objs["state"], gates=objs["gate"], povms=objs["povm"], mprocesses=objs["mprocess"])
        check_set(chk, sq, objs, case["size"], case["total"], tag, bad)
    except Exception as e:
        bad("exception", "unexpected %s: %s" % (type(e).__name__, e))


ATTR = {"state": "states", "gate": "gates", "povm": "povms", "mprocess": "mprocesses"}


def replay_set_walk(chk, walk):
    """QSetLife: one long-lived SetQOperations driven through a walk of list assignments (the setters); after every
    assignment all reports must be those of the lists it holds now."""
    from quara.objects.qoperations import SetQOperations
    st = walk[0]["from"]
    objs, n = {}, 0
    for mode in ("state", "gate", "povm", "mprocess"):
        objs[mode] = build_items(st[mode], n)
        n += 10
    sq = SetQOperations(states=objs["state"], gates=objs["gate"], povms=objs["povm"], mprocesses=objs["mprocess"])
    try:
        # reading before the first assignment fills whatever the set may cache
        sq.size_var_total(), sq.var_total()
        for k in range(sq.size_var_total()):
            sq.local_info_from_index_var_total(k)
    except Exception:
        pass
    for step, tr in enumerate(walk):
        mode, lst = tr["arg"]["mode"], tr["arg"]["list"]
        tag = "%s := [%s] in %s" % (mode, ",".join("m%d%s" % (o["m"], "p" if o["para"] else "n") for o in lst), set_tag(tr["from"]))
        ctx = dict(start=st, walk=[w["arg"] for w in walk[:step + 1]], step=step)

        def bad(clause, msg):
            chk.violation("setlife:%s:%s" % (clause, mode), "after %s: %s" % (tag, msg), ctx)
        try:
            n += 10
            objs[mode] = build_items(lst, n)
            setattr(sq, ATTR[mode], objs[mode])
            if not check_set(chk, sq, objs, tr["size"], tr["total"], "walk:" + set_tag(tr["to"]), bad):
                return
        except Exception as e:
            bad("exception", "unexpected %s: %s" % (type(e).__name__, e))
            return


def tomo_numvars(chk):
    """num_variables of the four tomography classes equals NumVar of the estimated type."""
    from quara.protocol.qtomography.standard.standard_qst import StandardQst
    from quara.protocol.qtomography.standard.standard_povmt import StandardPovmt
    from quara.protocol.qtomography.standard.standard_qpt import StandardQpt
    from quara.protocol.qtomography.standard.standard_qmpt import StandardQmpt
    out = []
    for mode, d in (("qubit", 2), ("qutrit", 3)):
        c = qobjs.csys(mode, 1)
        sts = qobjs.tester_states(mode)
        pvs = qobjs.tester_povms(mode)
        for para in (False, True):
            out.append(("state", d, 1, para, StandardQst(pvs, on_para_eq_constraint=para).num_variables))
            out.append(("gate", d, 1, para, StandardQpt(sts, pvs, on_para_eq_constraint=para).num_variables))
            for m in (2, 3, 4):
                out.append(("povm", d, m, para, StandardPovmt(sts, m, on_para_eq_constraint=para).num_variables))
                out.append(("mprocess", d, m, para, StandardQmpt(sts, pvs, m, on_para_eq_constraint=para).num_variables))
    return out


def run(chk):
    rng = random.Random(chk.seed)
    t = chk.tier
    chk.tlc("mc/MC_C03", "mc/MC_C03_%s.cfg" % t, workers=16, label="MC_C03 " + t)
    r = chk.tlc("mc/MC_C03", "mc/MC_C03_%s_emit.cfg" % t, workers=1, label="MC_C03 emit " + t)
    nobj = nset = 0
    numvar = {}
    for case in r.emitted:
        if case["kind"] == "object":
            cfg = case["cfg"]
            numvar[(cfg["T"], cfg["d"], cfg["m"], cfg["para"])] = case["numvar"]
            replay_object(chk, case, rng, 400 if t == "quick" else 3000)
            nobj += 1
            if nobj in (3, 17):
                chk.sample(dict(cfg=cfg, numvar=case["numvar"], var_head=case["var"][:6], implied_head=case["implied"][:2]))
        else:
            replay_set(chk, case)
            nset += 1
            if nset in (5, 500):
                chk.sample(dict(set=case["set"], size=case["size"], total_head=case["total"][:5]))
        chk.replayed += 1
    # operation sets along histories (spec/QSetLife.tla): setters on one long-lived set
    from harness import graphwalk
    chk.tlc("mc/MC_SetLife", "mc/MC_SetLife_%s.cfg" % t, workers=8, label="MC_SetLife " + t)
    r2 = chk.tlc("mc/MC_SetLife", "mc/MC_SetLife_%s_emit.cfg" % t, workers=1, label="MC_SetLife emit " + t)
    g = graphwalk.Graph(r2.emitted)
    walks = g.cover_walks(8, rng)
    empty = [k for k in g.out if all(len(v) == 0 for v in json.loads(k).values())]
    walks += g.random_walks(40 if t == "quick" else 300, 12, rng, starts=set(empty))
    for wk in walks:
        replay_set_walk(chk, wk)
        chk.replayed += 1
    chk.notes["setlife_transitions"] = len(r2.emitted)
    chk.notes["setlife_walks"] = len(walks)
    for (T, d, m, para, got) in tomo_numvars(chk):
        want = numvar.get((T, d, m, para))
        chk.count(1)
        if want is not None and got != want:
            chk.violation("tomo_num_variables:%s:d%d:m%d:%s" % (T, d, m, para),
                          "num_variables=%d, specification NumVar=%d" % (got, want), dict(T=T, d=d, m=m, para=para))
    chk.notes["object_configurations"] = nobj
    chk.notes["operation_sets"] = nset
    chk.assumptions.append("dimensions enumerated: 2,3,4 (quick) / 2,3,4,6 (thorough); larger d follow the same arithmetic but are not enumerated")
    return chk.finish(exhaustive=True,
                      rule="every configuration (type x d x m x flag) and every operation set up to MaxObjs objects emitted by TLC; each index of each configuration is one evaluation; distinct = configurations")
