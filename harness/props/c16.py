"""C16 - outcome-probability bookkeeping obeys probability theory.

(a) index maps: C->S - every (shape, serial) with <= 4 variables of 1..5 values goes through
    quara.utils.index_util both ways; TLC validates every recorded line against QIndex
    (Serial / Multi), after having model-checked that the two are mutually inverse and row-major.
(b) weight tensors: S->C - TLC builds every tensor of the bounded family, checks
    total / marginal-of-marginal / chain rule on the specification and prints the exact marginals
    and conditionals; MultinomialDistribution must reproduce them (constructor thresholding,
    __getitem__, marginalize, conditionalize), and validate_prob_dist must accept them.
(c) state ensembles produced by measurement processes index states and probabilities alike
    (uses the composition catalogue; see C06 for the statistics themselves)."""
import itertools
import random

import numpy as np

from harness import core

TINY = 1e-12


def index_events():
    from quara.utils import index_util as iu
    ev = []
    for k in range(1, 5):
        for shape in itertools.product(range(1, 6), repeat=k):
            n_tot = int(np.prod(shape))
            for n in range(n_tot):
                mi = iu.index_multi_dimensional_from_index_serial(list(shape), n)
                back = iu.index_serial_from_index_multi_dimensional(list(shape), tuple(mi))
                ev.append(dict(shape=list(shape), n=n, multi=[int(x) for x in mi], back=int(back)))
    return ev


def concretise(w):
    tw = [0 if x == -1 else x for x in w]
    tot = sum(tw)
    scale = tot if tot > 0 else 1
    return np.array([TINY if x == -1 else x / scale for x in w], dtype=np.float64), tot


def close(a, b):
    a = np.asarray(a, dtype=float).ravel()
    b = np.asarray(b, dtype=float).ravel()
    return a.shape == b.shape and np.allclose(a, b, rtol=0, atol=1e-12)


def replay_tensor(chk, case):
    from quara.objects.multinomial_distribution import MultinomialDistribution
    from quara.math.probability import validate_prob_dist
    from quara.objects.prob_dist import ProbDist
    shape = tuple(case["shape"])
    w = case["w"]
    tag = "shape%s" % "x".join(map(str, shape))
    ps0, tot = concretise(w)

    def bad(clause, msg):
        chk.violation("%s:%s" % (clause, tag), msg, dict(shape=shape, w=w, clause=clause))

    try:
        md = MultinomialDistribution(ps0.copy(), shape)
    except Exception as e:
        bad("ctor", "constructor raised %r" % e)
        return
    want = np.array([0 if x == -1 else x for x in w], dtype=float) / (tot if tot else 1)
    if not close(md.ps, want):
        bad("ctor:threshold", "ps after construction %s, expected %s" % (md.ps, want))
        return
    if tuple(md.shape) != shape:
        bad("ctor:shape", "shape %s" % (md.shape,))
    if md.is_zero_dist != (tot == 0):
        bad("ctor:is_zero_dist", "is_zero_dist=%s for total weight %d" % (md.is_zero_dist, tot))
    if tot:
        try:
            validate_prob_dist(md.ps)
        except Exception as e:
            bad("validate_prob_dist", "normalised distribution rejected: %r" % e)
    # indexed accessors
    pd = ProbDist(md.ps, shape)
    for n, mi in enumerate(itertools.product(*[range(s) for s in shape])):
        if md[mi] != md.ps[n] or md[n] != md.ps[n] or abs(md[mi] - want[n]) > 1e-12:
            bad("getitem", "dist[%s] is not the serial entry %d" % (mi, n))
            break
        if len(shape) > 0 and pd[mi] != md.ps[n]:
            bad("probdist_getitem", "ProbDist[%s] is not the serial entry %d" % (mi, n))
            break
    chk.count(len(want))
    if tot == 0:
        return
    nvar = len(shape)
    # marginals
    for mg in case["margs"]:
        keep = [k - 1 for k in mg["keep"]]
        if len(keep) == 0:
            continue  # distribution over zero variables: outside the property (documented)
        wm = np.array(mg["w"], dtype=float) / tot
        try:
            r = md.marginalize(keep)
        except Exception as e:
            bad("marginalize:exc", "marginalize(%s) raised %r" % (keep, e))
            continue
        if tuple(r.shape) != tuple(mg["shape"]) or not close(r.ps, wm):
            bad("marginalize", "marginalize(%s) = %s shape %s; specification %s shape %s" % (keep, r.ps, r.shape, wm, mg["shape"]))
        if abs(np.sum(r.ps) - 1) > 1e-9:
            bad("marginalize:norm", "marginal not normalised")
        # retained variables given in a different order: shape and data must agree with each other
        if len(keep) >= 2:
            perm = list(reversed(keep))
            try:
                r2 = md.marginalize(perm)
                t_asc = wm.reshape(mg["shape"])
                axes = list(reversed(range(len(keep))))
                ok = (tuple(r2.shape) == tuple(mg["shape"]) and close(r2.ps, wm)) or \
                     (tuple(r2.shape) == tuple(np.transpose(t_asc, axes).shape) and close(r2.ps, np.transpose(t_asc, axes).ravel()))
                if not ok:
                    bad("marginalize:order", "marginalize(%s): reported shape and data disagree" % (perm,))
            except Exception as e:
                bad("marginalize:order:exc", "marginalize(%s) raised %r" % (perm, e))
        chk.count(1)
    # conditionals
    for cd in case["conds"]:
        cv = [k - 1 for k in cd["vars"]]
        if len(cv) == nvar or len(cv) == 0:
            continue
        mass = sum(cd["w"])
        if mass == 0:
            continue  # conditioning on a null event: unconstrained
        wc = np.array(cd["w"], dtype=float) / mass
        try:
            r = md.conditionalize(cv, cd["vals"])
        except Exception as e:
            bad("conditionalize:exc", "conditionalize(%s,%s) raised %r" % (cv, cd["vals"], e))
            continue
        if tuple(r.shape) != tuple(cd["shape"]) or not close(r.ps, wc):
            bad("conditionalize", "conditionalize(%s,%s) = %s shape %s; specification %s shape %s" % (cv, cd["vals"], r.ps, r.shape, wc, cd["shape"]))
        # joint = marginal x conditional, numerically, through the library's own marginal
        mg = md.marginalize(cv)
        pa = mg[tuple(cd["vals"])]
        rest = [j for j in range(nvar) if j not in cv]
        for n_r, mi_r in enumerate(itertools.product(*[range(shape[j]) for j in rest])):
            full = [None] * nvar
            for j, v in zip(cv, cd["vals"]):
                full[j] = v
            for j, v in zip(rest, mi_r):
                full[j] = v
            if abs(md[tuple(full)] - pa * r.ps[n_r]) > 1e-12:
                bad("chain_rule", "joint%s != marginal x conditional" % (tuple(full),))
                break
        chk.count(1)
    # the operands are unchanged by the queries
    if not close(md.ps, want):
        bad("mutation", "distribution changed by marginalize/conditionalize")


def zero_threshold_option(chk):
    """The constructor's `eps_zero` is the threshold below which an entry counts as zero - nothing else: the tolerance of the
    sign check and of the sum check (1e-8, documented) does not move with it."""
    from quara.objects.multinomial_distribution import MultinomialDistribution
    cases = [
        # (tensor, shape, eps_zero, expectation)
        ([0.30, 0.20, 0.25, 0.22], (2, 2), 0.05, "raise"),          # sums to 0.97, nothing below the threshold: not a distribution
        ([0.50, -0.02, 0.30, 0.22], (2, 2), 0.05, "raise"),         # a negative entry is not "small"
        ([0.60, 0.03, 0.37, 0.00], (2, 2), 0.05, [0.60 / 0.97, 0.0, 0.37 / 0.97, 0.0]),   # sub-threshold entries zeroed, rest renormalised
        ([0.5, -5e-9, 0.5 + 5e-9, 0.0], (2, 2), 1e-10, [0.5, 0.0, 0.5, 0.0]),           # rounding noise within the documented 1e-8
        ([0.25, 0.25, 0.25, 0.25], (4,), 1e-3, [0.25, 0.25, 0.25, 0.25]),
    ]
    for ps, shape, ez, want in cases:
        chk.count(1, ("eps_zero", tuple(ps), ez))
        try:
            md = MultinomialDistribution(np.array(ps, dtype=float), shape, eps_zero=ez)
            got = np.asarray(md.ps, dtype=float)
            if want == "raise":
                chk.violation("eps_zero:accepted", "MultinomialDistribution(%s, eps_zero=%g) accepted a tensor that is not a probability distribution (stored %s)" % (ps, ez, np.round(got, 6)), dict(ps=ps, eps_zero=ez))
            elif not np.allclose(got, want, rtol=0, atol=1e-8):
                chk.violation("eps_zero:value", "MultinomialDistribution(%s, eps_zero=%g) stores %s, expected %s" % (ps, ez, np.round(got, 9), np.round(want, 9)), dict(ps=ps, eps_zero=ez))
        except ValueError as e:
            if want != "raise":
                chk.violation("eps_zero:refused", "MultinomialDistribution(%s, eps_zero=%g) refused a valid tensor: %r" % (ps, ez, e), dict(ps=ps, eps_zero=ez))


def run(chk):
    t = chk.tier
    zero_threshold_option(chk)
    chk.tlc("mc/MC_C16", "mc/MC_C16_%s.cfg" % t, workers=16, label="MC_C16 " + t)
    # (a)
    ev = index_events()
    r = core.validate_traces("trace/Trace_C16", "trace/Trace_C16.cfg", ev)
    chk.states += r.distinct
    chk.transitions += r.generated
    chk.tlc_runs.append(dict(instance="Trace_C16 index maps", lines=len(ev), **r.as_dict()))
    rep = [e for e in r.emitted if "consumed" in e]
    if not rep or rep[-1]["consumed"] != len(ev):
        raise core.MachineryError("trace validation did not consume all lines")
    chk.validated += len(ev)
    chk.count(len(ev), "index-maps")
    for l in sorted(rep[-1]["bad"])[:50]:
        e = ev[l - 1]
        chk.violation("index_util:%s:%d" % ("x".join(map(str, e["shape"])), e["n"]),
                      "index_util result %s is not what QIndex computes" % e, e)
    chk.sample(ev[len(ev) // 2])
    # (b)
    r = chk.tlc("mc/MC_C16", "mc/MC_C16_%s_emit.cfg" % t, workers=1, label="MC_C16 emit " + t)
    for i, case in enumerate(r.emitted):
        replay_tensor(chk, case)
        chk.replayed += 1
        chk.nontrivial.add((tuple(case["shape"]), tuple(case["w"])))
        if i in (700, 3000):
            chk.sample(dict(shape=case["shape"], w=case["w"], margs=case["margs"][:2], conds=case["conds"][:2]))
    # (c)
    from harness.props import c16_ensembles
    c16_ensembles.run(chk)
    chk.assumptions += [
        "weight -1 denotes a positive entry below the zero threshold (concretised as 1e-12)",
        "marginal over an empty set of retained variables and conditioning on all variables / on null events are not constrained",
        "retained variables in non-ascending order: only agreement of reported shape and data is required",
    ]
    return chk.finish(exhaustive=True, rule="all shapes <= 4 variables of 1..5 values (every serial index); every weight tensor over the configured shapes and weights, every retained subset and conditioning assignment; distinct = tensors")
