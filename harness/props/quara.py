"""QUARA - the composed specification (spec/Quara.tla): sessions prepare -> noisy items -> tomography.

Not one of the listed properties: this is the growth of the specification beyond them (DESIGN.md 9.7).
TLC explores every session (catalogue state with depolarising noise, up to MaxLen noisy gates /
measurement processes) and checks normalisation, positivity, physicality of every branch, the sum rule,
forward model = Born rule of the composed circuit and exact recovery by linear inversion.  Every session
is replayed into the library end to end: DepolarizedQOperationGenerationSetting, compose_qoperations,
StateEnsemble accessors, StandardQst.calc_prob_dists, LinearEstimator and ProjectedLinearEstimator on
the exact data; every intermediate value must equal the specification's exact one.

Evidence goes to /verif/extra/evidence/QUARA.json (not a property evidence file)."""
import itertools
import os

import numpy as np

from harness import core, coords, qobjs

SYS = (2,)


def run(chk):
    from quara.objects.operators import compose_qoperations
    from quara.simulation.depolarized_qoperation_generation_setting import DepolarizedQOperationGenerationSetting
    from quara.protocol.qtomography.standard.standard_qst import StandardQst
    from quara.protocol.qtomography.standard.linear_estimator import LinearEstimator
    from quara.protocol.qtomography.standard.projected_linear_estimator import ProjectedLinearEstimator
    if not os.environ.get("VERIF_OUT"):
        chk._out = os.path.join(core.VERIF, "extra")
        chk._replay_dir = os.path.join(chk._out, "replays")
    t = chk.tier
    # exact catalogue (ideal objects) from a tiny emission of the same modules
    cat = chk.tlc("mc/MC_Quara_cat", "mc/MC_Quara_cat.cfg", workers=1, label="catalogue")
    ideal = {}
    for e in cat.emitted:
        if e["k"] == "S":
            ideal[("S", e["n"])] = coords.state_from_h(SYS, coords.rvec(e["v"]))
        elif e["k"] == "G":
            ideal[("G", e["n"])] = coords.gate_from_h(SYS, coords.rmat(e["v"]))
        else:
            ideal[("M", e["n"])] = coords.mprocess_from_h(SYS, [coords.rmat(m) for m in e["v"]])
    r = chk.tlc("mc/MC_Quara", "mc/MC_Quara_%s.cfg" % t, workers=16, label="MC_Quara " + t)
    c = qobjs.csys("qubit", 1)
    povms = [qobjs.gen("povm", n, c) for n in "xyz"]
    qsts = {para: StandardQst(povms, on_para_eq_constraint=para, schedules="all") for para in (True, False)}
    noisy = {}

    def noisy_obj(kind, name, p):
        key = (kind, name, tuple(p))
        if key not in noisy:
            gs = DepolarizedQOperationGenerationSetting(c, ideal[(kind, name)], p[0] / p[1])
            o = gs.generate()
            noisy[key] = o[0] if isinstance(o, tuple) else o
        return noisy[key]
    for i, sess in enumerate(r.emitted):
        tag = "%s@%s|%s" % (sess["prep"]["n"], "/".join(map(str, sess["prep"]["p"])),
                            ",".join("%s@%s" % (it["n"], "/".join(map(str, it["p"]))) for it in sess["chain"]))
        chk.count(1, ("session", tag))

        def bad(clause, msg):
            chk.violation("%s:%s" % (clause, tag), msg, dict(prep=sess["prep"], chain=sess["chain"], clause=clause))
        try:
            res = noisy_obj("S", sess["prep"]["n"], sess["prep"]["p"])
            for it in sess["chain"]:
                res = compose_qoperations(noisy_obj(it["k"], it["n"], it["p"]), res)
        except Exception as e:
            bad("compose:exception", "%r" % e)
            continue
        shape = tuple(sess["shape"])
        probs = coords.rvec(sess["probs"])
        if not shape:
            branches = {0: res}
            got_p = np.array([1.0])
        else:
            if tuple(res.prob_dist.shape) != shape:
                bad("shape", "ensemble shape %s, specification %s" % (tuple(res.prob_dist.shape), shape))
                continue
            got_p = np.asarray(res.prob_dist.ps, dtype=float).ravel()
            branches = {}
            for mi in itertools.product(*[range(s) for s in shape]):
                ser = int(np.ravel_multi_index(mi, shape))
                branches[ser] = res.state(tuple(mi) if len(mi) > 1 else int(mi[0]))
        if not np.allclose(got_p, probs, rtol=0, atol=1e-12):
            bad("probabilities", "joint outcome distribution differs from the exact one (max dev %.3g)" % float(np.max(np.abs(got_p - probs))))
        for k in sess["live"]:
            st = branches[k]
            want = coords.state_from_h(SYS, coords.rvec(sess["branches"][k])).vec
            if not np.allclose(st.vec, want, rtol=0, atol=1e-11):
                bad("branch", "post-measurement state of outcome %d differs from the exact one" % k)
                continue
            if not st.is_physical():
                bad("branch:physical", "branch state judged non-physical")
            born = coords.rvec(sess["born"][k])
            for para, qst in qsts.items():
                pd = np.concatenate([np.asarray(x).ravel() for x in qst.calc_prob_dists(st)])
                if not np.allclose(pd, born, rtol=0, atol=1e-12):
                    bad("forward_model:para=%s" % para, "calc_prob_dists differs from the Born rule of the composed circuit")
                    continue
                empi = [(1000, born[2 * j: 2 * j + 2]) for j in range(3)]
                for est_name, est in (("linear", LinearEstimator()), ("projected", ProjectedLinearEstimator(mode_proj_order="eq_ineq"))):
                    try:
                        e = est.calc_estimate(qst, empi, is_computation_time_required=False).estimated_qoperation
                    except Exception as ex:
                        bad("estimate:%s:exception" % est_name, "%r" % ex)
                        continue
                    tol = 1e-10 if est_name == "linear" else 1e-6
                    if not np.allclose(e.vec, want, rtol=0, atol=tol):
                        bad("estimate:%s:para=%s" % (est_name, para), "estimate from exact data differs from the branch state (max dev %.3g)" % float(np.max(np.abs(e.vec - want))))
        chk.replayed += 1
        if i in (5, 200):
            chk.sample(dict(prep=sess["prep"], chain=sess["chain"], probs=sess["probs"]))
    chk.assumptions += ["one qubit; catalogue of spec/QObjects.tla; dyadic noise rates (32-bit rationals)",
                        "projected linear estimate compared at 1e-6 (the library stops Dykstra at eps_proj_physical)"]
    return chk.finish(exhaustive=True, rule="every session TLC reaches (prepare x noisy items up to MaxLen); distinct = sessions")
