"""C12 - loss values, derivatives and fast paths agree.

TLC (MC_C12, QLoss): per configuration, dataset, weighting mode and point the exact squared-error
value / gradient / Hessian (rationals), the exact relative-entropy value as a list of
coef * log(num/den) terms with per-row gradient / Hessian coefficients, and the exact weights of
every mode (inverse sample / unbiased covariance by rational inversion).  Invariants: the quadratic's
central differences reproduce gradient and Hessian exactly, weights symmetric, every mode changes the
weights, the inverse-covariance weight inverts the regularised covariance block, Hessian coefficients
non-negative.  Binding: the generic and the tomography-specialised losses of both families are
configured through set_from_standard_qtomography_option_data and must reproduce value, gradient,
Hessian (generic) and the weights held after configuration; generic = fast; finite differences of
the reported value match the reported gradient / Hessian."""
import numpy as np

from harness import core, coords
from harness.props import c08


def loss_classes():
    from quara.loss_function.weighted_probability_based_squared_error import (
        WeightedProbabilityBasedSquaredError, WeightedProbabilityBasedSquaredErrorOption)
    from quara.loss_function.standard_qtomography_based_weighted_probability_based_squared_error import (
        StandardQTomographyBasedWeightedProbabilityBasedSquaredError, StandardQTomographyBasedWeightedProbabilityBasedSquaredErrorOption)
    from quara.loss_function.weighted_relative_entropy import WeightedRelativeEntropy, WeightedRelativeEntropyOption
    from quara.loss_function.standard_qtomography_based_weighted_relative_entropy import (
        StandardQTomographyBasedWeightedRelativeEntropy, StandardQTomographyBasedWeightedRelativeEntropyOption)
    return {
        "se": (WeightedProbabilityBasedSquaredError, WeightedProbabilityBasedSquaredErrorOption),
        "se_fast": (StandardQTomographyBasedWeightedProbabilityBasedSquaredError, StandardQTomographyBasedWeightedProbabilityBasedSquaredErrorOption),
        "re": (WeightedRelativeEntropy, WeightedRelativeEntropyOption),
        "re_fast": (StandardQTomographyBasedWeightedRelativeEntropy, StandardQTomographyBasedWeightedRelativeEntropyOption),
    }


def num_grad(f, v, h=1e-6):
    g = np.zeros(len(v))
    for i in range(len(v)):
        e = np.zeros(len(v))
        e[i] = h
        g[i] = (f(v + e) - f(v - e)) / (2 * h)
    return g


def large_systems(chk, classes):
    """The formulas TLC verified on the one-qubit configurations (QLoss: value, gradient and Hessian of both families as
    functions of the model (A, b), the data and the weights), evaluated in numpy on a qutrit and on two qubits - systems
    whose model matrices C08 validates (MC_C08_big) but whose exact losses do not fit TLC's 32-bit rationals."""
    from quara.objects.state import State
    from quara.objects.povm import Povm
    from quara.protocol.qtomography.standard.standard_qst import StandardQst
    from quara.protocol.qtomography.standard.standard_povmt import StandardPovmt
    from harness import qobjs
    rs = np.random.RandomState(5)
    c3, c22 = qobjs.csys("qutrit", 1), qobjs.csys("qubit", 2)
    mixed = lambda c: np.concatenate([[1.0 / np.sqrt(c.dim)], np.zeros(c.dim ** 2 - 1)])
    inner = lambda c, name, lam: State(c, lam * qobjs.gen("state", name, c).vec + (1 - lam) * mixed(c), is_physicality_required=False)
    pv22 = [qobjs.gen("povm", n, c22) for n in ("x_x", "x_y", "y_z", "z_x", "z_z", "y_y", "z_y", "x_z", "y_x")]
    st22 = [qobjs.gen("state", "%s_%s" % (a, b), c22) for a in ("x0", "y0", "z0", "z1") for b in ("x0", "y0", "z0", "z1")]
    bellm = qobjs.gen("povm", "bell", c22)
    cfgs = []
    for para in (True, False):
        cfgs.append(("qst:qutrit", StandardQst(qobjs.tester_povms("qutrit"), on_para_eq_constraint=para), inner(c3, "01x0", 0.6), inner(c3, "12y1", 0.5), para))
        cfgs.append(("qst:2qubit", StandardQst(pv22, on_para_eq_constraint=para), inner(c22, "bell_phi_plus", 0.7), inner(c22, "x0_z1", 0.6), para))
        noisy = Povm(c22, [0.85 * v + 0.15 * np.concatenate([[0.5], np.zeros(15)]) for v in bellm.vecs], is_physicality_required=False)
        cfgs.append(("povmt:2qubit:m4", StandardPovmt(st22, 4, on_para_eq_constraint=para), noisy, bellm, para))
    for name, qt, at, truth, para in cfgs:
        at2, tr2 = at.copy(), truth.copy()
        at2._on_para_eq_constraint = para
        tr2._on_para_eq_constraint = para
        v = np.asarray(at2.to_var(), dtype=float)
        A, b = np.asarray(qt.calc_matA(), dtype=float), np.asarray(qt.calc_vecB(), dtype=float)
        sizes = [len(p_) for p_ in qt.calc_prob_dists(tr2)]
        offs = np.cumsum([0] + sizes)
        data = []
        for j, p_ in enumerate(qt.calc_prob_dists(tr2)):
            f = np.clip(np.asarray(p_, dtype=float), 0, None) + 0.05 + 0.02 * rs.rand(len(p_))
            data.append((100 + 10 * j, f / f.sum()))
        q = np.concatenate([f for _, f in data])
        for scale_v, mode in ((1.0, "identity"), (1.0, "custom"), (1.0, "custom0"), (1.5, "identity"), (1.5, "custom")):
            # without the built-in parametrisation the trace is free: 1.5 x the variables is a legitimate evaluation point at
            # which predicted "probabilities" exceed one (the losses are defined there: the optimisers evaluate them off the
            # physical set)
            if scale_v != 1.0 and para:
                continue
            v = scale_v * np.asarray(at2.to_var(), dtype=float)
            p = A @ v + b
            if scale_v != 1.0 and not (p.max() > 1.0 and p.min() > 1e-3):
                continue
            Ws, wre = [], []
            for j, m in enumerate(sizes):
                M = rs.randn(m, m)
                Ws.append(np.eye(m) if mode == "identity" else M @ M.T + (1 + j) * np.eye(m))
                wre.append(1.0 if mode == "identity" else 1.0 + 0.5 * j)
                if mode == "custom0" and j == 1:
                    # a schedule switched off: weight exactly zero (a legitimate custom weight)
                    Ws[-1] = np.zeros((m, m))
                    wre[-1] = 0.0
            Wb = np.zeros((len(q), len(q)))
            for j in range(len(sizes)):
                Wb[offs[j]:offs[j + 1], offs[j]:offs[j + 1]] = Ws[j]
            wrow = np.concatenate([[wre[j]] * sizes[j] for j in range(len(sizes))])
            exp = {"se": ((p - q) @ Wb @ (p - q), 2 * A.T @ Wb @ (p - q), 2 * A.T @ Wb @ A),
                   "re": (float(np.sum(wrow * q * np.log(q / p))), -A.T @ (wrow * q / p), A.T @ ((wrow * q / p ** 2)[:, None] * A))}
            for fam, (L, O) in classes.items():
                is_re = fam.startswith("re")
                tagk = "%s:%s:%s" % (name, "para" if para else "nopara", mode)
                chk.count(1, ("large", fam, tagk))

                def bad(clause, msg):
                    chk.violation("large:%s:%s:%s:%s" % (clause, fam, mode, name), "%s [%s]" % (msg, tagk), dict(config=name, para=para, mode=mode, family=fam))
                try:
                    opt = O(mode_weight="custom", weights=[float(x) for x in wre] if is_re else [w.copy() for w in Ws]) if mode != "identity" else O(mode_weight="identity")
                    loss = L()
                    loss.set_from_standard_qtomography_option_data(qt, opt, [(n, f.copy()) for n, f in data], True, not fam.endswith("fast"))
                    val, grad = float(loss.value(v.copy())), np.asarray(loss.gradient(v.copy()), dtype=float)
                    e_val, e_grad, e_hess = exp["re" if is_re else "se"]
                    if abs(val - e_val) > 1e-9 * (1 + abs(e_val)):
                        bad("value", "value %r, defining formula gives %r" % (val, e_val))
                    if grad.shape != e_grad.shape or not coords.close(grad, e_grad, 1e-8):
                        bad("gradient", "gradient differs from the defining formula")
                    if not fam.endswith("fast"):
                        hess = np.asarray(loss.hessian(v.copy()), dtype=float)
                        if hess.shape != e_hess.shape or not coords.close(hess, e_hess, 1e-7):
                            bad("hessian", "Hessian differs from the defining formula")
                except Exception as e:
                    bad("exception", "%r" % e)


def nonlinear_models(chk):
    """The generic losses take the model as user-supplied functions; nothing makes it linear.  With a polynomial model the
    second-order terms of the Hessians are non-zero: value = defining formula, gradient / Hessian = derivatives of that formula
    (central differences of the formula evaluated in numpy), identity and custom weights."""
    from quara.loss_function.weighted_probability_based_squared_error import WeightedProbabilityBasedSquaredError
    from quara.loss_function.weighted_relative_entropy import WeightedRelativeEntropy
    P = [lambda v: np.array([v[0] ** 2, v[1] * v[2], 1 - v[0] ** 2 - v[1] * v[2]]),
         lambda v: np.array([(v[0] + v[1]) ** 2 / 4, v[2] ** 2, 1 - (v[0] + v[1]) ** 2 / 4 - v[2] ** 2])]

    def num_jac(f, v, h=1e-6):
        return np.stack([(f(v + h * e) - f(v - h * e)) / (2 * h) for e in np.eye(len(v))], axis=-1)
    G = [lambda al, v, x=x: num_jac(P[x], np.asarray(v, dtype=float))[:, al] for x in range(2)]
    # exact second derivatives of the polynomials
    H0 = np.zeros((3, 3, 3)); H0[0, 0] = [2, 0, -2]; H0[1, 2] = H0[2, 1] = [0, 1, -1]
    H1 = np.zeros((3, 3, 3)); H1[0, 0] = H1[1, 1] = H1[0, 1] = H1[1, 0] = [0.5, 0, -0.5]; H1[2, 2] = [0, 2, -2]
    HS = [lambda al, be, v: H0[al, be].copy(), lambda al, be, v: H1[al, be].copy()]
    # exact first derivatives (the library is handed exact functions, the finite differences are only the oracle)
    GE = [lambda al, v: np.array([[2 * v[0], 0, -2 * v[0]], [0, v[2], -v[2]], [0, v[1], -v[1]]], dtype=float)[al],
          lambda al, v: np.array([[(v[0] + v[1]) / 2, 0, -(v[0] + v[1]) / 2], [(v[0] + v[1]) / 2, 0, -(v[0] + v[1]) / 2], [0, 2 * v[2], -2 * v[2]]], dtype=float)[al]]
    qs = [np.array([0.5, 0.0, 0.5]), np.array([0.2, 0.3, 0.5])]
    Ws = [np.array([[2.0, 0.5, 0.0], [0.5, 1.0, -0.3], [0.0, -0.3, 3.0]]), np.array([[1.5, -0.4, 0.2], [-0.4, 0.7, 0.1], [0.2, 0.1, 2.5]])]
    wre = [1.0, 2.5]
    for v in (np.array([0.6, 0.5, 0.4]), np.array([0.3, 0.7, 0.2]), np.array([0.8, 0.45, 0.3])):
        for fam, mode in (("se", "identity"), ("se", "custom"), ("re", "identity"), ("re", "custom")):
            chk.count(1, ("nonlinear", fam, mode, tuple(v)))

            def bad(clause, msg):
                chk.violation("nonlinear:%s:%s:%s" % (clause, fam, mode), "%s at %s" % (msg, v), dict(family=fam, mode=mode, point=list(v)))
            if fam == "se":
                W = Ws if mode == "custom" else [np.eye(3), np.eye(3)]
                formula = lambda u: sum((P[x](u) - qs[x]) @ W[x] @ (P[x](u) - qs[x]) for x in range(2))
                loss = WeightedProbabilityBasedSquaredError(3, P, GE, HS, [q.copy() for q in qs], [w.copy() for w in Ws] if mode == "custom" else None)
            else:
                w = wre if mode == "custom" else [1.0, 1.0]
                formula = lambda u: sum(w[x] * sum(qs[x][i] * np.log(qs[x][i] / P[x](u)[i]) for i in range(3) if qs[x][i] > 0) for x in range(2))
                loss = WeightedRelativeEntropy(3, P, GE, HS, [q.copy() for q in qs], list(wre) if mode == "custom" else None)
            try:
                val, grad, hess = float(loss.value(v.copy())), np.asarray(loss.gradient(v.copy()), dtype=float), np.asarray(loss.hessian(v.copy()), dtype=float)
            except Exception as e:
                bad("exception", "%r" % e)
                continue
            g_fd = num_jac(lambda u: np.array([formula(u)]), v, 1e-6)[0]
            h_fd = num_jac(lambda u: num_jac(lambda t_: np.array([formula(t_)]), u, 1e-4)[0], v, 1e-4)
            if abs(val - formula(v)) > 1e-10 * (1 + abs(val)):
                bad("value", "value %r, defining formula %r" % (val, formula(v)))
            if not np.allclose(grad, g_fd, rtol=1e-5, atol=1e-6):
                bad("gradient", "gradient %s, derivative of the defining formula %s" % (np.round(grad, 6), np.round(g_fd, 6)))
            if not np.allclose(hess, h_fd, rtol=1e-3, atol=1e-4):
                bad("hessian", "Hessian differs from the second derivative of the defining formula (max dev %.3g)" % float(np.max(np.abs(hess - h_fd))))


def run(chk):
    t = chk.tier
    r = chk.tlc("mc/MC_C12", "mc/MC_C12_%s.cfg" % t, workers=16, label="MC_C12 " + t, timeout=7000)
    classes = loss_classes()
    large_systems(chk, classes)
    nonlinear_models(chk)
    cache = {}
    reused = {}
    n_re = 0
    modes_seen = set()
    for case in r.emitted:
        tomo = case["tomo"]
        lq = case["lq"]
        key = (tomo["type"], tuple(tomo["tag"]), tomo["m"], tomo["para"])
        tag = c08.tag_of(tomo)
        mode = lq["mode"]
        sizes = case["sizes"]
        if key not in cache:
            qt = c08.build_tomo(tomo)
            T = c08.TYPE_T[tomo["type"]]
            d = int(np.prod(tomo["sys"]))
            layout = coords.var_layout(T, d, tomo["m"], tomo["para"])
            scale = coords.var_scale(T, tuple(tomo["sys"]), tomo["m"], tomo["para"], layout)
            cache[key] = (qt, scale, np.asarray(qt.calc_matA()))
        qt, scale, A_lib = cache[key]
        v = coords.rvec(lq["v"]) * scale
        q = coords.rvec(lq["q"])
        offs = np.cumsum([0] + sizes)
        data = [(lq["n"][s], q[offs[s]:offs[s + 1]].copy()) for s in range(len(sizes))]
        W = [coords.rmat(w) for w in lq["W"]]
        wre = coords.rvec(lq["w"])
        uniq = "%s:d%d:%s:k%d" % (tag, lq["d"], mode, lq["k"])
        kmax = max(sizes)

        def bad(clause, msg, fam):
            chk.violation("%s:%s:%s:%s:m%d:out%d" % (clause, fam, mode, tomo["type"], tomo["m"], kmax), "%s [%s]" % (msg, uniq),
                          dict(tomo=tomo, lq=dict(d=lq["d"], mode=mode, k=lq["k"]), clause=clause, family=fam))

        results = {}
        for fam, (L, O) in classes.items():
            is_re = fam.startswith("re")
            if is_re and (mode not in ("identity", "custom") or not lq["reOK"]):
                continue
            try:
                if mode == "custom":
                    opt = O(mode_weight="custom", weights=[float(x) for x in wre] if is_re else [w.copy() for w in W])
                else:
                    opt = O(mode_weight=mode)
                loss = L()
                loss.set_from_standard_qtomography_option_data(qt, opt, [(n, f.copy()) for n, f in data], True, not fam.endswith("fast"))
                val = float(loss.value(v.copy()))
                grad = np.asarray(loss.gradient(v.copy()), dtype=float)
                hess = None if fam.endswith("fast") else np.asarray(loss.hessian(v.copy()), dtype=float)
            except Exception as e:
                bad("exception", "%s: %r" % (fam, e), fam)
                continue
            results[fam] = (val, grad, hess)
            chk.count(1, (fam, uniq))
            # the same numbers from ONE long-lived loss object per family and tomography that is re-configured for every
            # case (other data, other weights of the same layout), the way an estimator re-uses its loss over a sequence
            try:
                lr = reused.setdefault((fam, key), L())
                lr.set_from_standard_qtomography_option_data(qt, opt, [(n, f.copy()) for n, f in data], True, not fam.endswith("fast"))
                val2 = float(lr.value(v.copy()))
                grad2 = np.asarray(lr.gradient(v.copy()), dtype=float)
                if abs(val2 - val) > 1e-9 * (1 + abs(val)) or not coords.close(grad2, grad, 1e-8):
                    bad("reconfigured", "a re-configured loss object gives value %r, a fresh one %r (gradient max dev %.3g)" % (val2, val, float(np.max(np.abs(grad2 - grad)))), fam)
            except Exception as e:
                bad("reconfigured:exception", "%s: %r" % (fam, e), fam)
            modes_seen.add((fam, mode))
            # weights held after configuration
            if not is_re:
                held = loss.weight_matrices
                if mode == "identity":
                    okw = held is None or all(np.allclose(h, np.eye(len(h))) for h in held)
                else:
                    okw = held is not None and len(held) == len(W) and all(coords.close(np.asarray(h), w, 1e-9) for h, w in zip(held, W))
                if not okw:
                    bad("weights", "weights after configuration differ from the exact weights of mode %s" % mode, fam)
            else:
                held = loss.weights
                if mode == "identity":
                    okw = held is None or np.allclose(held, 1.0)
                else:
                    okw = held is not None and coords.close(np.asarray(held, dtype=float), wre, 1e-12)
                if not okw:
                    bad("weights", "weights after configuration differ from the option's weights", fam)
            # exact expectations
            if not is_re:
                e_val = coords.rat(lq["seValue"])
                e_grad = coords.rvec(lq["seGrad"]) / scale
                e_hess = coords.rmat(lq["seHess"]) / np.outer(scale, scale)
            else:
                e_val = sum(coords.rat(tm["coef"]) * np.log(coords.rat(tm["num"]) / coords.rat(tm["den"])) for tm in lq["reTerms"])
                gc = coords.rvec(lq["reGradCoef"])
                hc = coords.rvec(lq["reHessCoef"])
                e_grad = A_lib.T @ gc
                e_hess = A_lib.T @ (hc[:, None] * A_lib)
                n_re += 1
            if abs(val - e_val) > 1e-9 * (1 + abs(e_val)):
                bad("value", "value %r, defining formula gives %r" % (val, e_val), fam)
            if grad.shape != e_grad.shape or not coords.close(grad, e_grad, 1e-8):
                bad("gradient", "gradient differs from the exact derivative (max dev %.3g)" % float(np.max(np.abs(grad - e_grad))) if grad.shape == e_grad.shape else "gradient shape", fam)
            if hess is not None and (hess.shape != e_hess.shape or not coords.close(hess, e_hess, 1e-8)):
                bad("hessian", "Hessian differs from the exact second derivative", fam)
            # reported derivatives are derivatives of the reported value (finite differences)
            try:
                ng = num_grad(lambda x: float(loss.value(x)), v)
                if not np.allclose(ng, grad, rtol=1e-5, atol=1e-6 * (1 + np.max(np.abs(grad)))):
                    bad("gradient_vs_value", "finite differences of value disagree with gradient (max dev %.3g)" % float(np.max(np.abs(ng - grad))), fam)
                if hess is not None and len(v) <= 16:
                    nh = np.array([num_grad(lambda x, i=i: float(loss.gradient(x)[i]), v) for i in range(len(v))])
                    if not np.allclose(nh, hess, rtol=1e-4, atol=1e-5 * (1 + np.max(np.abs(hess)))):
                        bad("hessian_vs_gradient", "finite differences of gradient disagree with Hessian", fam)
            except Exception as e:
                bad("exception:finite_difference", "%r" % e, fam)
        # fast = generic
        for a, b in (("se", "se_fast"), ("re", "re_fast")):
            if a in results and b in results:
                if abs(results[a][0] - results[b][0]) > 1e-10 * (1 + abs(results[a][0])) or not coords.close(results[a][1], results[b][1], 1e-9):
                    bad("fast_vs_generic", "fast and generic implementations disagree: value %r vs %r" % (results[b][0], results[a][0]), b)
        chk.replayed += 1
        if len(chk.samples) < 4 and mode != "identity":
            chk.sample(dict(tomo=tag, mode=mode, d=lq["d"], k=lq["k"], q=lq["q"][:4], W0=lq["W"][0], seValue=lq["seValue"], seGrad=lq["seGrad"][:3]))
    if n_re == 0:
        raise core.MachineryError("no relative-entropy evaluation was exercised (vacuous)")
    chk.notes["relative_entropy_cases"] = n_re
    chk.notes["family_mode_pairs"] = sorted("%s/%s" % fm for fm in modes_seen)
    chk.assumptions += [
        "relative entropy is evaluated where all predictions exceed 1e-3 (away from the documented clipping at 1e-10)",
        "covariance modes: 4 samples per schedule (a perfect square) and at most 4 outcomes per schedule, positive frequencies (replace_prob_dist inactive)",
        "uniform outcome counts per configuration (the fast losses stack the data into a rectangle)",
        "relative-entropy gradient/Hessian are assembled from the specification's per-row coefficients with the model matrix that C08 validates",
    ]
    return chk.finish(exhaustive=True, rule="every (configuration, dataset, mode, point) emitted by TLC x four loss implementations; distinct = those tuples")
