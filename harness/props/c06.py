"""C06 - composition implements quantum mechanics and is associative.

TLC (MC_C06 over QAlgebra): every type-valid chain up to MaxLen over the exact catalogue (states,
gates, measurement processes with 2/3/4 outcomes, POVMs with 2/3/4 outcomes, non-commuting) is built
item by item; invariants: EVERY bracketing of the chain gives the value of the sequential
application (associativity of the specification's binary Compose), results normalised /
non-negative, one outcome axis per measuring item in time order, a measurement process on a state
has the statistics of its induced POVM, POVM -> measurement process in the three back-action modes
induces the POVM back.  Binding: each chain is rebuilt from the emitted H-coordinates as real
objects (physicality required) and EVERY bracketing is evaluated through nested
compose_qoperations calls (plus the library's own n-ary fold and Experiment.calc_prob_dist); the
result must be the specification's value: same numbers in the same serial order, compatible shape."""
import itertools

import numpy as np

from harness import core, coords, qobjs

SYS = (2,)


def build(kind, items):
    if kind == "S":
        return coords.state_from_h(SYS, coords.rvec(items[0]), is_physicality_required=True)
    if kind == "G":
        return coords.gate_from_h(SYS, coords.rmat(items[0]), is_physicality_required=True)
    if kind == "M":
        return coords.mprocess_from_h(SYS, [coords.rmat(m) for m in items], is_physicality_required=True)
    return coords.povm_from_h(SYS, [coords.rvec(y) for y in items], is_physicality_required=True)


def trees(i, j):
    """all binary bracketings of positions i..j (time order); a tree is an int or (earlier, later)."""
    if i == j:
        return [i]
    out = []
    for k in range(i, j):
        for e in trees(i, k):
            for l in trees(k + 1, j):
                out.append((e, l))
    return out


def evaluate(tree, objs):
    from quara.objects.operators import compose_qoperations
    if isinstance(tree, int):
        return objs[tree]
    e = evaluate(tree[0], objs)
    l = evaluate(tree[1], objs)
    return compose_qoperations(l, e)


def project(res):
    """library result -> (kind, shape, flat items in H-coordinates / probabilities)."""
    from quara.objects.state import State
    from quara.objects.povm import Povm
    from quara.objects.gate import Gate
    from quara.objects.mprocess import MProcess
    from quara.objects.state_ensemble import StateEnsemble
    from quara.objects.multinomial_distribution import MultinomialDistribution
    if isinstance(res, State):
        return "S", (), [coords.h_of_vec(SYS, res.vec)], None
    if isinstance(res, StateEnsemble):
        ps = np.asarray(res.prob_dist.ps, dtype=float)
        items = [p * coords.h_of_vec(SYS, s.vec) for p, s in zip(ps, res.states)]
        return "S", tuple(res.prob_dist.shape), items, ps
    if isinstance(res, MProcess):
        return "C", tuple(res.shape), [coords.h_of_hs(SYS, h) for h in res.hss], None
    if isinstance(res, Gate):
        return "C", (), [coords.h_of_hs(SYS, res.hs)], None
    if isinstance(res, Povm):
        return "P", tuple(res.nums_local_outcomes), [coords.h_of_vec(SYS, v) for v in res.vecs], None
    if isinstance(res, MultinomialDistribution):
        return "D", tuple(res.shape), [float(p) for p in res.ps], None
    raise core.MachineryError("unexpected result type %r" % type(res))


def shape_compatible(got, want):
    """The property fixes the labelling of outcomes, i.e. the time-ordered row-major serial order.  A result
    that merges ADJACENT axes of the time-ordered shape (a Povm composed with measurement processes has a
    single outcome axis) describes the same labelling; any other shape does not."""
    got, want = [int(x) for x in got], [int(x) for x in want]
    if got == want:
        return True
    i = 0
    for g in got:
        prod = 1
        if i >= len(want):
            return False
        while i < len(want) and prod < g:
            prod *= want[i]
            i += 1
        if prod != g:
            return False
    return i == len(want)


def tree_str(t):
    return str(t).replace(" ", "")


def replay_chain(chk, case):
    from quara.objects.operators import compose_qoperations
    chain = case["chain"]
    kinds = "".join(it["k"] for it in chain)
    names = "-".join(it["n"] for it in chain)
    val = case["val"]
    try:
        objs = [build(it["k"], el) for it, el in zip(chain, case["elems"])]
    except Exception as e:
        chk.violation("construct:%s" % kinds, "catalogue objects of chain %s could not be built as physical objects: %r" % (names, e), dict(chain=chain))
        return
    want_kind = val["kind"]
    want_shape = tuple(val["shape"])
    if want_kind == "D":
        want_items = [coords.rat(x) for x in val["items"]]
    elif want_kind in ("S", "P"):
        want_items = [coords.rvec(x) for x in val["items"]]
    else:
        want_items = [coords.rmat(x) for x in val["items"]]
    n = len(chain)
    all_trees = trees(0, n - 1)
    for tr in all_trees:
        chk.count(1, (names, tree_str(tr)))
        try:
            res = evaluate(tr, objs)
        except Exception as e:
            chk.violation("exception:%s:%s" % (kinds, tree_str(tr)), "bracketing %s of chain %s raised %r" % (tree_str(tr), names, e), dict(chain=chain, tree=tree_str(tr)))
            continue
        kind, shape, items, ps = project(res)
        ok_vals = kind == want_kind and len(items) == len(want_items) and all(coords.close(a, b, 1e-9) for a, b in zip(items, want_items))
        if not ok_vals:
            chk.violation("value:%s:%s" % (kinds, tree_str(tr)),
                          "bracketing %s of chain %s: result differs from the quantum-mechanical value (kind %s/%s, %d/%d outcomes)" % (
                              tree_str(tr), names, kind, want_kind, len(items), len(want_items)), dict(chain=chain, tree=tree_str(tr)))
            continue
        if not shape_compatible(shape, want_shape):
            chk.violation("shape:%s:%s" % (kinds, tree_str(tr)),
                          "bracketing %s of chain %s reports outcome shape %s, time-ordered shape is %s" % (tree_str(tr), names, shape, want_shape),
                          dict(chain=chain, tree=tree_str(tr)))
        # the POVM a (composed) measurement process induces: Tr[E_k rho] = Tr[M_k(rho)] on a spanning set of states
        if type(res).__name__ == "MProcess":
            try:
                pv = res.to_povm()
                d = res.dim
                for nm in ("x0", "y0", "z0", "z1"):
                    rho = qobjs.gen("state", nm, res.composite_system)
                    for k_, hs in enumerate(res.hss):
                        tr_out = float(np.sqrt(d) * (hs @ rho.vec)[0])
                        if abs(float(np.dot(pv.vecs[k_], rho.vec)) - tr_out) > 1e-9:
                            chk.violation("to_povm:%s:%s" % (kinds, tree_str(tr)),
                                          "bracketing %s of chain %s: to_povm() of the resulting measurement process is not its induced POVM (outcome %d on %s)" % (tree_str(tr), names, k_, nm),
                                          dict(chain=chain, tree=tree_str(tr)))
                            raise StopIteration
            except StopIteration:
                pass
            except Exception as e:
                chk.violation("to_povm:exception:%s" % kinds, "to_povm() of the result of chain %s raised %r" % (names, e), dict(chain=chain))
        # physical operands give a physical result
        try:
            if hasattr(res, "is_physical") and kind != "D" and not (kind == "S" and ps is not None):
                if not res.is_physical():
                    chk.violation("unphysical:%s" % kinds, "composition of physical operations is not physical for chain %s" % names, dict(chain=chain))
        except Exception:
            pass
        if kind == "S" and ps is not None:
            if abs(ps.sum() - 1) > 1e-9 or (ps < -1e-12).any():
                chk.violation("ensemble_probabilities:%s" % kinds, "ensemble probabilities %s" % ps, dict(chain=chain))
            # a state ensemble keeps the multi-index structure of the measurements that produced it (C16): one axis per
            # measurement process, in time order - for every bracketing (merged axes are accepted for POVMs only)
            if tuple(int(x) for x in shape) != tuple(int(x) for x in want_shape):
                chk.violation("ensemble_shape:%s:%s" % (kinds, tree_str(tr)),
                              "bracketing %s of chain %s: the ensemble reports outcome shape %s, the measurements of the chain have shape %s" % (tree_str(tr), names, shape, want_shape),
                              dict(chain=chain, tree=tree_str(tr)))
            # normalised post states, accessed by multi-index, belong to the probability at that index (C16)
            if len(shape) >= 1:
                for mi in itertools.product(*[range(s) for s in shape]):
                    ser = int(np.ravel_multi_index(mi, shape))
                    st = res.state(tuple(mi)) if len(mi) > 1 else res.state(int(mi[0]))
                    p = res.prob_dist[tuple(mi)] if len(mi) > 1 else res.prob_dist[int(mi[0])]
                    if not coords.close(p * coords.h_of_vec(SYS, st.vec), want_items[ser], 1e-9):
                        chk.violation("ensemble_layout:%s" % kinds, "state/probability at outcome %s of chain %s do not belong together" % (mi, names), dict(chain=chain))
                        break
    # the library's own n-ary fold (latest first) and, for complete circuits, Experiment
    try:
        res = compose_qoperations(*list(reversed(objs)))
        kind, shape, items, ps = project(res)
        if not (kind == want_kind and len(items) == len(want_items) and all(coords.close(a, b, 1e-9) for a, b in zip(items, want_items))):
            chk.violation("value:%s:nary" % kinds, "compose_qoperations(*chain) differs from the quantum-mechanical value for %s" % names, dict(chain=chain))
        # the same call with ONE list argument (the other documented form): same result, and the caller's list is an operand
        lst = list(reversed(objs))
        keep = list(lst)
        res2 = compose_qoperations(lst)
        res3 = compose_qoperations(lst)
        k2, _, items2, _ = project(res2)
        k3, _, items3, _ = project(res3)
        if len(lst) != len(keep) or any(a_ is not b_ for a_, b_ in zip(lst, keep)):
            chk.violation("nary:list_argument_modified:%s" % kinds, "compose_qoperations([...]) changed the list it was given (%d -> %d elements) for %s" % (len(keep), len(lst), names), dict(chain=chain))
        elif not (k2 == k3 == want_kind and len(items2) == len(items3) == len(want_items) and all(coords.close(a_, b_, 1e-9) for a_, b_ in zip(items2, want_items))
                  and all(coords.close(a_, b_, 1e-9) for a_, b_ in zip(items3, want_items))):
            chk.violation("value:%s:nary_list" % kinds, "compose_qoperations([chain]) (called twice on one list) differs from the quantum-mechanical value for %s" % names, dict(chain=chain))
    except Exception as e:
        chk.violation("exception:%s:nary" % kinds, "%r" % e, dict(chain=chain))
    if want_kind == "D":
        from quara.qcircuit.experiment import Experiment
        lists = {"S": [], "G": [], "M": [], "P": []}
        sched = []
        for it, ob in zip(chain, objs):
            lists[it["k"]].append(ob)
            sched.append(({"S": "state", "G": "gate", "M": "mprocess", "P": "povm"}[it["k"]], len(lists[it["k"]]) - 1))
        try:
            exp = Experiment(schedules=[sched], states=lists["S"], gates=lists["G"], mprocesses=lists["M"], povms=lists["P"])
            got = np.asarray(exp.calc_prob_dist(0), dtype=float).ravel()
            if not coords.close(got, np.array(want_items), 1e-9):
                chk.violation("value:%s:experiment" % kinds, "Experiment.calc_prob_dist differs from the Born-rule statistics for %s" % names, dict(chain=chain))
        except Exception as e:
            chk.violation("exception:%s:experiment" % kinds, "%r" % e, dict(chain=chain))


def replay_gen(chk, case):
    """POVM -> measurement process in the three back-action modes."""
    ys = [coords.rvec(y) for y in case["ys"]]
    povm = coords.povm_from_h(SYS, ys, is_physicality_required=True)
    mode = case["mode"]
    name = case["povm"]
    chk.count(1, ("gen", name, mode))
    try:
        if mode == 2:
            post = [coords.state_from_h(SYS, coords.rvec(x), is_physicality_required=True) for x in case["post"]][: len(ys)]
            mp = povm.generate_mprocess(mode_backaction=2, post_selected_states=post)
        else:
            mp = povm.generate_mprocess(mode_backaction=mode)
    except Exception as e:
        chk.violation("generate_mprocess:exception:mode%d:%s" % (mode, name), "generate_mprocess(mode_backaction=%d) raised %r for POVM %s" % (mode, e, name), dict(case=case))
        return
    hss = [coords.h_of_hs(SYS, h) for h in mp.hss]
    if case["exact"]:
        want = [coords.rmat(m) for m in case["mp"]]
        if len(hss) != len(want) or any(not coords.close(a, b, 1e-8) for a, b in zip(hss, want)):
            chk.violation("generate_mprocess:value:mode%d:%s" % (mode, name), "generated measurement process differs from the exact instrument", dict(case=case))
    # relational clauses that hold for every POVM: induced POVM, physicality, statistics
    try:
        back = mp.to_povm()
        if any(not coords.close(coords.h_of_vec(SYS, v), y, 1e-8) for v, y in zip(back.vecs, ys)):
            chk.violation("generate_mprocess:to_povm:mode%d:%s" % (mode, name), "to_povm(generate_mprocess(P)) != P", dict(case=case))
    except Exception as e:
        chk.violation("generate_mprocess:to_povm:exception:mode%d:%s" % (mode, name), "to_povm() of the generated measurement process raised %r" % e, dict(case=case))
    if not mp.is_physical():
        chk.violation("generate_mprocess:unphysical:mode%d:%s" % (mode, name), "generated measurement process is not physical", dict(case=case))
    from quara.objects.operators import compose_qoperations
    rho = coords.state_from_h(SYS, np.array([0.5, 0.125, -0.25, 0.25]), is_physicality_required=True)
    try:
        ens = compose_qoperations(mp, rho)
        born = compose_qoperations(povm, rho)
        if not coords.close(np.asarray(ens.prob_dist.ps), np.asarray(born.ps), 1e-9):
            chk.violation("generate_mprocess:statistics:mode%d:%s" % (mode, name), "outcome probabilities differ from the POVM's Born rule", dict(case=case))
    except Exception as e:
        chk.violation("generate_mprocess:statistics:exception:mode%d:%s" % (mode, name), "%r" % e, dict(case=case))


def run(chk):
    t = chk.tier
    chk.tlc("mc/MC_C06", "mc/MC_C06_%s.cfg" % t, workers=16, label="MC_C06 " + t, timeout=7000)
    r = chk.tlc("mc/MC_C06", "mc/MC_C06_%s_emit.cfg" % t, workers=16, label="MC_C06 emit " + t, timeout=7000)
    nch = 0
    for case in r.emitted:
        if case["kind"] == "chain":
            replay_chain(chk, case)
            nch += 1
            if nch in (50, 900):
                chk.sample(dict(chain=case["chain"], kind=case["val"]["kind"], shape=case["val"]["shape"], first_item=case["val"]["items"][0]))
        else:
            replay_gen(chk, case)
        chk.replayed += 1
    chk.notes["chains"] = nch
    chk.assumptions += [
        "1-qubit exact catalogue (non-commuting, pairwise different outcome counts 2/3/4); all operators through multilinearity of composition",
        "a result that reports a flat shape with the time-ordered serial layout is accepted; differing multi-dimensional shapes are not",
        "mode_sampling=True (random branch) is not exercised",
    ]
    return chk.finish(exhaustive=True, rule="every type-valid chain up to MaxLen over the catalogue x every bracketing; distinct = (chain, bracketing)")
