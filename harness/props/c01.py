"""C01 - physicality verdicts match the mathematical definitions at the given tolerance.

TLC (MC_C01 over QSpectral): abstract objects (type x shape x spectrum class x equality deviation x
most negative eigenvalue) judged at tolerance 10^-k in exact decimal arithmetic with a guard band
(TRUE below 0.9 atol, FALSE above 1.1 atol); invariants: physical = eq /\\ ineq, exact objects are
physical at every tolerance, gross violations never are, construction succeeds iff physical; the
action property Monotone over the Loosen step (a looser tolerance never turns a forced TRUE to FALSE).
Binding: every emitted case is concretised in seeded frames (identity / real / generic complex) as a
real State, Povm (common eigenframe), Gate and MProcess (Weyl-diagonal maps in a local frame, whose
Choi spectrum is d * weights), the three verdict methods are called with explicit atol and through the
global setting, constructors with is_physicality_required=True must raise exactly on non-physical
objects, origin objects must be physical and zero objects zero."""
import numpy as np

from harness import core, spectral

FRAMES = ("identity", "real", "complex")


def mag(m):
    return m["m"] * 10.0 ** (-m["e"])


def base_spectrum(cls, n):
    if cls in ("interior", "faint"):
        w = np.arange(n, 0, -1, dtype=float) + 1.0
    elif cls == "pure":
        w = np.zeros(n)
        w[0] = 1.0
    elif cls == "rankdef":
        w = np.zeros(n)
        w[: max(1, n // 2)] = np.arange(max(1, n // 2), 0, -1)
    else:  # mixedrank: one dominant, one tiny-but-clear, rest zero
        w = np.zeros(n)
        w[0] = 3.0
        w[-1] = 1.0
    return w / w.sum()


def with_negative(w, delta):
    """lower the smallest weight to -delta, compensating on the largest (sum kept)."""
    w = w.copy()
    if delta == 0:
        return w
    j = int(np.argmin(w))
    i = int(np.argmax(w))
    w[i] += w[j] + delta
    w[j] = -delta
    return w


def build(case, rs, frame_kind, required=False, eqdir="I"):
    """returns (constructor thunk, description).  The thunk builds the library object."""
    from quara.objects.state import State
    from quara.objects.povm import Povm
    from quara.objects.gate import Gate
    from quara.objects.mprocess import MProcess
    o = case["obj"]
    shape = o["shape"]
    sys = spectral.SHAPES[shape]
    d = int(np.prod(sys))
    c = spectral.csys_of(shape)
    tau = mag(o["eqDev"])
    delta = mag(o["negDev"])
    ty = o["type"]
    if ty == "state":
        lam = with_negative(base_spectrum(o["class"], d), delta)
        lam[int(np.argmax(lam))] += tau
        U = spectral.frame(frame_kind, d, rs)
        rho = (U * lam) @ U.conj().T
        vec = spectral.vec_of(shape, rho)
        return lambda: State(c, vec.copy(), is_physicality_required=required)
    if ty == "povm":
        m = d if o["class"] == "pure" else 3
        U = spectral.frame(frame_kind, d, rs)
        # per diagonal position a probability vector over the outcomes
        cols = []
        for pos in range(d):
            if o["class"] == "pure":
                w = np.zeros(m)
                w[pos] = 1.0
            else:
                w = np.roll(base_spectrum(o["class"], m), pos)
            cols.append(w)
        E = np.array(cols).T.copy()          # E[x, pos]
        if o["class"] == "faint":
            # an extra outcome that (almost) never occurs: eigenvalues -delta and +delta, compensated in a dominant element
            x1 = int(np.argmax(E[:, 0]))
            extra = np.zeros(d)
            extra[0], extra[1] = -delta, delta
            E[x1, 0] += delta
            E[x1, 1] -= delta
            E = np.vstack([E, extra])
            m += 1
            E[x1, :] += tau
            vecs = [spectral.vec_of(shape, (U * E[x]) @ U.conj().T) for x in range(m)]
            return lambda: Povm(c, [v.copy() for v in vecs], is_physicality_required=required)
        if delta:
            x0 = int(np.argmin(E[:, 0]))
            x1 = int(np.argmax(E[:, 0]))
            E[x1, 0] += E[x0, 0] + delta
            E[x0, 0] = -delta
            tau_elem = x1                   # equality deviation goes to an element without the negative eigenvalue
        else:
            tau_elem = m - 1
        mats = [(U * E[x]) @ U.conj().T for x in range(m)]
        # the equality deviation: tau times a Hermitian matrix whose largest entry is one - the identity, or a real symmetric
        # / a purely imaginary antisymmetric off-diagonal unit (computational basis, entries of modulus tau either way)
        D = np.eye(d, dtype=np.complex128)
        if eqdir != "I":
            D = np.zeros((d, d), dtype=np.complex128)
            D[0, d - 1], D[d - 1, 0] = (1.0, 1.0) if eqdir == "X" else (-1j, 1j)
        mats[tau_elem] = mats[tau_elem] + tau * D
        vecs = [spectral.vec_of(shape, M) for M in mats]
        return lambda: Povm(c, [v.copy() for v in vecs], is_physicality_required=required)
    # gate / mprocess: Weyl-diagonal maps in a local frame; Choi spectrum = d * weights
    W = spectral.local_frame(frame_kind, sys, rs)
    ops = [W @ K for K in spectral.weyl(sys)]
    n = len(ops)
    if ty == "gate":
        p = with_negative(base_spectrum(o["class"], n), delta / d)
        hs = spectral.hs_of_map(shape, list(zip(p, ops)))
        hs[0, 1] += tau
        return lambda: Gate(c, hs.copy(), is_physicality_required=required)
    # mprocess with two outcomes carrying 0.6 / 0.4 of the weight; the negative weight sits in outcome 1
    p0 = 0.6 * base_spectrum(o["class"], n)
    p1 = 0.4 * np.roll(base_spectrum(o["class"], n), 1)
    if o["class"] == "faint":
        # a third outcome that (almost) never occurs and carries the violation: weights +delta/d and -delta/d
        p2 = np.zeros(n)
        p2[0], p2[1] = delta / d, -delta / d
        hs0 = spectral.hs_of_map(shape, list(zip(p0, ops)))
        hs1 = spectral.hs_of_map(shape, list(zip(p1, ops)))
        hs2 = spectral.hs_of_map(shape, list(zip(p2, ops)))
        hs0[0, 1] += tau
        return lambda: MProcess(c, [hs0.copy(), hs1.copy(), hs2.copy()], is_physicality_required=required)
    if delta:
        j = int(np.argmin(p1))
        i = int(np.argmax(p1))
        p1[i] += p1[j] + delta / d
        p1[j] = -delta / d
    hs0 = spectral.hs_of_map(shape, list(zip(p0, ops)))
    hs1 = spectral.hs_of_map(shape, list(zip(p1, ops)))
    hs0[0, 1] += tau
    return lambda: MProcess(c, [hs0.copy(), hs1.copy()], is_physicality_required=required)


def generic_bases(chk):
    """The basis-generic branches: unnormalised Pauli basis, orthonormal Hermitian basis whose first element is
    not the identity, computational basis.  Maps are given by Kraus operators; a map scaled by (1 + t) violates
    trace preservation by t * max|Tr B| on the basis elements that have a trace."""
    from quara.objects.matrix_basis import get_pauli_basis, get_normalized_pauli_basis, get_comp_basis, MatrixBasis
    from quara.objects.elemental_system import ElementalSystem
    from quara.objects.composite_system import CompositeSystem
    from quara.objects.state import State
    from quara.objects.gate import Gate
    nb = get_normalized_pauli_basis()
    bases = {"unnormalised": get_pauli_basis(), "identity_not_first": MatrixBasis([nb[1], nb[2], nb[3], nb[0]]), "computational": get_comp_basis()}
    g = 0.36
    h = np.array([[1, 1], [1, -1]]) / np.sqrt(2)
    ad = [np.array([[1, 0], [0, np.sqrt(1 - g)]]), np.array([[0, np.sqrt(g)], [0, 0]])]
    paulis = [np.eye(2), np.array([[0, 1], [1, 0]]), np.array([[0, -1j], [1j, 0]]), np.array([[1, 0], [0, -1]])]
    maps = {
        "unitary": ([(1.0, h)], True),
        "amplitude_damping": ([(1.0, k) for k in ad], True),                       # trace preserving, not unital
        "amplitude_damping_adjoint": ([(1.0, k.conj().T) for k in ad], False),     # unital, not trace preserving (O(1))
        "depolarising": ([(0.7, paulis[0])] + [(0.1, p_) for p_ in paulis[1:]], True),
    }
    k = 8
    atol = 10.0 ** (-k)
    for bname, basis in bases.items():
        c = CompositeSystem([ElementalSystem(0, basis)])
        B = [np.asarray(x.toarray() if hasattr(x, "toarray") else x, dtype=np.complex128) for x in c.basis()]
        gram = np.array([[np.trace(a.conj().T @ b) for b in B] for a in B])
        tr_scale = max(abs(np.trace(b)) for b in B)

        def hs_of(kw, scale):
            hs = np.zeros((4, 4), dtype=np.complex128)
            for j, b in enumerate(B):
                img = scale * sum(p_ * (K @ b @ K.conj().T) for p_, K in kw)
                hs[:, j] = np.linalg.solve(gram, np.array([np.trace(a.conj().T @ img) for a in B]))
            return hs
        for mname, (kw, tp) in maps.items():
            for rel in (0.0, 0.5, 0.8, 1.2, 2.0, 10.0, 1e6):
                t = rel * atol / tr_scale
                hs = hs_of(kw, 1.0 + t)
                if np.max(np.abs(hs.imag)) > 1e-12:
                    continue      # complex HS entries: not representable in this basis
                hs = hs.real.astype(np.float64)
                expect = None if 0.9 < rel < 1.1 else (tp and rel <= 0.9)
                tag = "%s:%s:rel%g" % (bname, mname, rel)
                chk.count(1, ("generic", tag))
                try:
                    gt = Gate(c, hs.copy(), is_physicality_required=False)
                    got = bool(gt.is_tp(atol))
                    got2 = bool(gt.is_eq_constraint_satisfied(atol))
                except Exception as e:
                    chk.violation("generic_basis:exception:%s" % bname, "%r [%s]" % (e, tag), dict(tag=tag))
                    continue
                if expect is not None and (got != expect or got2 != expect):
                    chk.violation("generic_basis:is_tp:%s:%s" % (bname, "tp_map" if tp else "non_tp_map"),
                                  "trace-preservation verdict %s / %s, definition says %s [%s]" % (got, got2, expect, tag), dict(tag=tag))
                if expect is not None and rel in (0.0, 1e6):
                    try:
                        Gate(c, hs.copy(), is_physicality_required=True)
                        made = True
                    except ValueError:
                        made = False
                    if made != expect:
                        chk.violation("generic_basis:construct:%s" % bname, "constructor with physicality required %s, expected %s [%s]" % (made, expect, tag), dict(tag=tag))
        # states on the Hermitian generic bases: trace and positivity
        if bname != "computational":
            for lam, tr_ok, psd_ok in (((0.7, 0.3), True, True), ((1.0, 0.0), True, True), ((0.7, 0.3 + 5e-9), True, True), ((0.7, 0.3 + 2e-8), False, True),
                                       ((1.0 + 2e-8, -2e-8), True, False), ((1.0 + 5e-9, -5e-9), True, True)):
                U = spectral.haar(2, np.random.RandomState(3))
                rho = (U * np.array(lam)) @ U.conj().T
                vec = np.linalg.solve(gram, np.array([np.trace(a.conj().T @ rho) for a in B])).real
                st = State(c, vec.astype(np.float64), is_physicality_required=False)
                chk.count(1, ("generic-state", bname, lam))
                if bool(st.is_eq_constraint_satisfied(atol)) != tr_ok or bool(st.is_ineq_constraint_satisfied(atol)) != psd_ok:
                    chk.violation("generic_basis:state:%s" % bname, "state verdicts (%s, %s) for spectrum %s at atol 1e-8, definition (%s, %s)" % (
                        st.is_eq_constraint_satisfied(atol), st.is_ineq_constraint_satisfied(atol), lam, tr_ok, psd_ok), dict(basis=bname, lam=lam))


def textbook_maps(chk):
    """Maps whose verdict every textbook states: positive but NOT completely positive maps (transpose, partial transpose, inversion
    of the Bloch vector) - trace preserving, Hilbert-Schmidt matrix orthogonal, Choi matrix with eigenvalue -1/2 or below - next to
    unitary conjugations, which share the orthogonal HS matrix and ARE completely positive."""
    from quara.objects.gate import Gate
    from quara.objects.mprocess import MProcess
    from harness import qobjs
    c1, c2 = qobjs.csys("qubit", 1), qobjs.csys("qubit", 2)
    T1 = np.diag([1.0, 1.0, -1.0, 1.0])                      # rho -> rho^T in the Pauli basis: Y changes sign
    inv = np.diag([1.0, -1.0, -1.0, -1.0])                   # Bloch vector -> minus itself
    cases = [("transpose", c1, T1, False), ("bloch_inversion", c1, inv, False), ("partial_transpose", c2, np.kron(np.eye(4), T1), False),
             ("x_gate", c1, np.diag([1.0, 1.0, -1.0, -1.0]), True), ("identity", c1, np.eye(4), True)]
    for name, c, hs, cp in cases:
        for atol in (None, 1e-13, 1e-8, 1e-2):
            chk.count(1, ("textbook", name, atol))
            try:
                g = Gate(c, hs.copy(), is_physicality_required=False)
                m = MProcess(c, [hs.copy()], is_physicality_required=False)
                got = [bool(g.is_cp(atol)), bool(g.is_ineq_constraint_satisfied(atol)), bool(g.is_physical(atol, atol) if atol else g.is_physical()),
                       bool(m.is_cp(atol)), bool(g.is_tp(atol))]
                want = [cp, cp, cp, cp, True]
                if got != want:
                    chk.violation("textbook:%s" % name, "%s map at atol %s: is_cp / is_ineq / is_physical / MProcess.is_cp / is_tp = %s, by definition %s" % (name, atol, got, want), dict(map=name, atol=atol))
                    break
                if atol is None:
                    try:
                        Gate(c, hs.copy(), is_physicality_required=True)
                        made = True
                    except ValueError:
                        made = False
                    if made != cp:
                        chk.violation("textbook:construct:%s" % name, "constructor with physicality required %s the %s map" % ("accepts" if made else "refuses", name), dict(map=name))
            except Exception as e:
                chk.violation("textbook:exception:%s" % name, "%r" % e, dict(map=name))
                break


def run(chk):
    from quara.settings import Settings
    rs = np.random.RandomState(chk.seed % (2 ** 31))
    t = chk.tier
    chk.tlc("mc/MC_C01", "mc/MC_C01_%s.cfg" % t, workers=16, label="MC_C01 " + t)
    r = chk.tlc("mc/MC_C01", "mc/MC_C01_%s_emit.cfg" % t, workers=16, label="MC_C01 emit " + t)
    default_atol = Settings.get_atol()
    n = 0
    try:
        for case in r.emitted:
            o = case["obj"]
            k = case["k"]
            atol = 10.0 ** (-k)
            allowed = case["verdicts"]
            fk = FRAMES[n % 3]
            n += 1
            ty = o["type"]
            # the equality defect of a gate / measurement process (one first-row entry) perturbs the Choi
            # spectrum too: with a defect present only the equality verdict is asserted for these types
            eq_only = ty in ("gate", "mprocess") and o["eqDev"]["m"] != 0
            # POVMs: the sum may miss the identity in any direction; off-diagonal directions also move the spectrum of the element
            # that carries them, so only the equality verdict is asserted for those
            eqdir = ("I", "X", "Y")[n % 3] if (ty == "povm" and o["eqDev"]["m"] != 0 and o["class"] != "faint") else "I"
            eq_only = eq_only or eqdir != "I"
            key = "%s:%s:%s" % (ty, o["shape"], o["class"])
            devk = "eq%se%d:neg%se%d:k%d" % (o["eqDev"]["m"], o["eqDev"]["e"] - k if o["eqDev"]["m"] else 0,
                                             o["negDev"]["m"], o["negDev"]["e"] - k if o["negDev"]["m"] else 0, k)
            try:
                obj = build(case, np.random.RandomState(rs.randint(2 ** 31)), fk, eqdir=eqdir)()
            except Exception as e:
                chk.violation("build:%s" % key, "object could not be built without physicality requirement: %r" % e, case)
                continue
            chk.count(1, (key, devk, fk))

            def check(tag, eq, ineq, phys):
                ok_eq = any(v["eq"] == bool(eq) for v in allowed)
                ok_in = eq_only or any(v["ineq"] == bool(ineq) for v in allowed)
                if eq_only:
                    ok_ph = any(v["eq"] == bool(eq) and (not v["eq"] or True) for v in allowed) and (bool(phys) <= bool(eq))
                else:
                    ok_ph = any((v["eq"], v["ineq"], v["phys"]) == (bool(eq), bool(ineq), bool(phys)) for v in allowed)
                if not ok_eq:
                    chk.violation("verdict:eq:%s:%s" % (tag, ty), "%s equality verdict %s, specification allows %s (eq deviation %s, atol 1e-%d, frame %s, %s)" % (
                        key, eq, sorted({v["eq"] for v in allowed}), o["eqDev"], k, fk, tag), case)
                elif not ok_in:
                    chk.violation("verdict:ineq:%s:%s" % (tag, ty), "%s inequality verdict %s, specification allows %s (negative eigenvalue %s, atol 1e-%d, frame %s, %s)" % (
                        key, ineq, sorted({v["ineq"] for v in allowed}), o["negDev"], k, fk, tag), case)
                elif not ok_ph or bool(phys) != (bool(eq) and bool(ineq)):
                    chk.violation("verdict:phys:%s:%s" % (tag, ty), "%s is_physical=%s with eq=%s ineq=%s" % (key, phys, eq, ineq), case)

            # explicit tolerance
            check("explicit", obj.is_eq_constraint_satisfied(atol), obj.is_ineq_constraint_satisfied(atol),
                  obj.is_physical(atol_eq_const=atol, atol_ineq_const=atol))
            # two different tolerances: the verdict is the conjunction of the two sub-verdicts, each at ITS tolerance
            # (the sub-verdicts themselves are compared with the specification at every tolerance of the grid)
            for a_eq, a_in in ((atol, atol * 1e3), (atol * 1e3, atol), (atol, atol * 1e-3)):
                try:
                    ph = bool(obj.is_physical(atol_eq_const=a_eq, atol_ineq_const=a_in))
                    want_ph = bool(obj.is_eq_constraint_satisfied(a_eq)) and bool(obj.is_ineq_constraint_satisfied(a_in))
                    if ph != want_ph:
                        chk.violation("verdict:split_tolerance:%s" % ty, "%s: is_physical(atol_eq_const=%g, atol_ineq_const=%g)=%s but eq(%g)=%s and ineq(%g)=%s" % (
                            key, a_eq, a_in, ph, a_eq, obj.is_eq_constraint_satisfied(a_eq), a_in, obj.is_ineq_constraint_satisfied(a_in)), case)
                        break
                except Exception as e:
                    chk.violation("verdict:split_tolerance:exception:%s" % ty, "%r" % e, case)
                    break
            # the global setting
            Settings.set_atol(atol)
            try:
                eq, ineq, phys = obj.is_eq_constraint_satisfied(), obj.is_ineq_constraint_satisfied(), obj.is_physical()
                check("global", eq, ineq, phys)
                # construction with physicality required succeeds exactly for physical objects
                if not eq_only:
                    try:
                        build(case, np.random.RandomState(7), fk, required=True, eqdir=eqdir)()
                        outcome = "ok"
                    except ValueError:
                        outcome = "raise"
                    if outcome not in case["construct"]:
                        chk.violation("construct:%s" % ty, "%s constructor with physicality required: %s, specification allows %s (%s)" % (key, outcome, case["construct"], devk), case)
            finally:
                Settings.set_atol(default_atol)
            # origin / zero objects
            if n % 7 == 0:
                try:
                    org = obj.generate_origin_obj()
                    if not org.is_physical(atol_eq_const=1e-12, atol_ineq_const=1e-12):
                        chk.violation("origin:%s" % ty, "origin object of %s is not physical" % key, case)
                    z = obj.generate_zero_obj()
                    sv = np.asarray(z.to_stacked_vector())
                    if np.any(sv != 0):
                        chk.violation("zero:%s" % ty, "zero object of %s is not the zero operator" % key, case)
                except Exception as e:
                    chk.violation("origin_zero:exception:%s" % ty, "%r" % e, case)
                # the verdicts are those of the operators the object denotes NOW: after set_zero() (the object has been queried
                # above) it denotes the zero operator - positive semidefinite / completely positive, but not unit trace /
                # not summing to the identity / not trace preserving
                try:
                    obj.set_zero()
                    eq0, in0 = obj.is_eq_constraint_satisfied(1e-9), obj.is_ineq_constraint_satisfied(1e-9)
                    ph0 = obj.is_physical(atol_eq_const=1e-9, atol_ineq_const=1e-9)
                    if bool(eq0) or not bool(in0) or bool(ph0):
                        chk.violation("verdict:after_set_zero:%s" % ty, "%s after set_zero(): eq=%s ineq=%s physical=%s; the zero operator gives False / True / False" % (
                            key, eq0, in0, ph0), case)
                except Exception as e:
                    chk.violation("verdict:after_set_zero:exception:%s" % ty, "%r" % e, case)
            chk.replayed += 1
            if n in (11, 2000):
                chk.sample(case)
    finally:
        Settings.set_atol(default_atol)
    generic_bases(chk)
    textbook_maps(chk)
    chk.assumptions += [
        "guard band: verdicts are unconstrained for deviations between 0.9 and 1.1 atol",
        "deviations are scalars (trace, multiple of identity, one HS entry, one eigenvalue) so every norm gives the same magnitude",
        "gates / measurement processes: with a trace-preservation defect present only the equality verdict is asserted (the defect perturbs the Choi spectrum)",
        "POVM elements share one eigenframe; gates and measurement processes are Weyl-diagonal maps in a local unitary frame (Choi spectrum = d x weights); frames are sampled",
    ]
    return chk.finish(rule="every abstract object x tolerance emitted by TLC, concretised in one of three frame classes; distinct = (type, shape, class, deviations, tolerance, frame)")
