"""QTESTER - tester sets of a tomography experiment (spec/QTester.tla).

Not one of the listed properties (growth of the specification, DESIGN.md 9.7).  TLC expands every list of
one-system state names / measurement axes over one and two qubits (row-major, first system slowest), applies the
depolarising channel of the whole system, and checks: every tester physical, depolarised = mixture with the
maximally mixed object, product testers give product statistics, rank(list (x) list) = rank(list)^2, noise with
p < 1 keeps the rank and p = 1 collapses it to 1.  Every case is replayed through
quara.objects.tester_typical (generate_tester_states / _povms and their _depolarized forms, common rate and - on one
system - per-tester rates): the k-th library tester must be the k-th tester of the specification, be physical exactly
as the specification says, and the numerical rank of the list must be the exact one; tomographies built from a
complete list must have a model matrix of full column rank, and only those.  Evidence: /verif/extra/evidence/QTESTER.json."""
import os

import numpy as np

from harness import core, coords, qobjs


def run(chk):
    from quara.objects import tester_typical as tt
    from quara.protocol.qtomography.standard.standard_qst import StandardQst
    from quara.protocol.qtomography.standard.standard_povmt import StandardPovmt
    if not os.environ.get("VERIF_OUT"):
        chk._out = os.path.join(core.VERIF, "extra")
        chk._replay_dir = os.path.join(chk._out, "replays")
    t = chk.tier
    r = chk.tlc("mc/MC_QTester", "mc/MC_QTester_%s.cfg" % t, workers=16, label="MC_QTester " + t, timeout=3000)
    systems = {1: ((2,), qobjs.csys("qubit", 1)), 2: ((2, 2), qobjs.csys("qubit", 2))}
    for i, s in enumerate(r.emitted):
        sys_, c = systems[s["nsys"]]
        names = list(s["names"])
        p = s["rate"][0] / s["rate"][1]
        tag = "%s|%s|n%d|p%s/%s" % (s["kind"], ",".join(names), s["nsys"], s["rate"][0], s["rate"][1])
        chk.count(1, ("case", tag))

        def bad(clause, msg):
            chk.violation("%s:%s" % (clause, tag), msg, dict(case={k: s[k] for k in ("kind", "names", "nsys", "rate")}, clause=clause))
        forms = []
        try:
            if s["kind"] == "state":
                if p == 0:
                    forms.append(("plain", tt.generate_tester_states(c, names)))
                forms.append(("common_rate", tt.generate_tester_states_depolarized(c, names, float(p))))
                if s["nsys"] == 1:
                    forms.append(("rate_list", tt.generate_tester_states_depolarized(c, names, [float(p)] * len(names))))
            else:
                if p == 0:
                    forms.append(("plain", tt.generate_tester_povms(c, names)))
                forms.append(("common_rate", tt.generate_tester_povms_depolarized(c, names, float(p))))
                if s["nsys"] == 1:
                    forms.append(("rate_list", tt.generate_tester_povms_depolarized(c, names, [float(p)] * len(names))))
        except Exception as e:
            bad("exception", "%r" % e)
            continue
        for fname, objs in forms:
            if len(objs) != len(s["list"]):
                bad("count:" + fname, "%d testers, the specification lists %d" % (len(objs), len(s["list"])))
                continue
            rows = []
            for k, (o, want) in enumerate(zip(objs, s["list"])):
                if s["kind"] == "state":
                    w = coords.state_from_h(sys_, coords.rvec(want)).vec
                    got = np.asarray(o.vec)
                    rows.append(got)
                else:
                    w = np.concatenate([v for v in coords.povm_from_h(sys_, [coords.rvec(y) for y in want]).vecs])
                    got = np.concatenate([np.asarray(v) for v in o.vecs])
                    rows += [np.asarray(v) for v in o.vecs]
                if got.shape != w.shape or not np.allclose(got, w, rtol=0, atol=1e-12):
                    bad("value:%s:%d" % (fname, k), "tester %d differs from the product the specification names (max dev %.3g)"
                        % (k, float(np.max(np.abs(got - w))) if got.shape == w.shape else float("nan")))
                    break
                if not o.is_physical():
                    bad("unphysical:%s:%d" % (fname, k), "tester %d is reported non-physical" % k)
                    break
            else:
                rk = int(np.linalg.matrix_rank(np.array(rows), tol=1e-9))
                if rk != s["rank"]:
                    bad("rank:" + fname, "numerical rank of the tester list %d, exact rank %d" % (rk, s["rank"]))
                # a tomography built on a complete list has a full-rank model; on an incomplete one it has not
                if fname != "rate_list":
                    try:
                        qt = StandardQst(objs, on_para_eq_constraint=False) if s["kind"] == "povm" else \
                            StandardPovmt(objs, 2 ** s["nsys"], on_para_eq_constraint=False)
                        A = np.asarray(qt.calc_matA())
                        # identifiability = full COLUMN rank (is_fullrank_matA compares with min(rows, columns): C08)
                        full = int(np.linalg.matrix_rank(A, tol=1e-9)) == A.shape[1]
                        if full != bool(s["complete"]):
                            bad("completeness:" + fname, "the model matrix of the tomography has full column rank: %s; the specification says complete=%s" % (full, s["complete"]))
                    except Exception as e:
                        bad("tomography:" + fname, "%r" % e)
        chk.replayed += 1
        if i in (1, 9):
            chk.sample({k: s[k] for k in ("kind", "names", "nsys", "rate", "rank", "complete")})
    chk.assumptions += ["one and two qubits; stabiliser state names and the three projective measurements (exact Gaussian-rational coordinates)",
                        "per-tester rate lists only on one system (on n >= 2 systems the library asserts len(error_rates) == len(names) but indexes the expanded list: see DESIGN.md 9.7)"]
    return chk.finish(exhaustive=True, rule="every (kind, name list, number of systems, rate) TLC reaches; distinct = cases")
