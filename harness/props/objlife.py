"""Life cycle of value objects (spec/QObjLife.tla), part of the C13 check.

TLC prints every transition of QObjLife for pairs of object kinds: reads, set_zero, set_mode_proj_order and copy on
a main object and on a copy of it.  Each transition is replayed on real objects constructed in the transition's
source state:
  * a read must give the value the SAME read gives on an object built directly by the class constructor from the
    arrays and settings the specification's term names (value "orig" or "zero", projection order, physicality flag) -
    never what the object held before;
  * every slot the step does not name is byte-identical afterwards, and reads change nothing at all;
  * set_zero leaves exactly the all-zero object with is_physicality_required cleared;
  * copy gives an equal object that shares no memory with its original.
"""
import json

import numpy as np

from harness import core, graphwalk
from harness.props import c13 as base

NAMES = {"state": "a", "povm": "x", "gate": "x90", "mprocess": "x-type2", "lindbladian": "hk"}


def source(kind, c):
    """the catalogue object a slot starts from (a dissipative physical generator for the Lindbladian kind)."""
    from quara.objects.qoperation_typical import generate_qoperation
    if kind != "lindbladian":
        return generate_qoperation(mode=kind, name=NAMES[kind], c_sys=c)
    from quara.objects.effective_lindbladian import generate_effective_lindbladian_from_hk
    h = np.array([[0.3, 0.1 - 0.2j], [0.1 + 0.2j, -0.3]])
    k = np.array([[0.5, 0.1, 0.0], [0.1, 0.3, 0.05j], [0.0, -0.05j, 0.2]])
    return generate_effective_lindbladian_from_hk(c, h, k)


_SYS = {}


def _sys(role="ref"):
    """Two composite systems: one for the objects under test, one for the reference objects (their cached tables are
    the subject of QPool, not of this part)."""
    from quara.objects.composite_system_typical import generate_composite_system
    if role not in _SYS:
        _SYS[role] = generate_composite_system("qubit", 1, ids_esys=[0])
    return _SYS[role]


def arrays(o):
    from quara.objects.state import State
    from quara.objects.povm import Povm
    from quara.objects.mprocess import MProcess
    if isinstance(o, State):
        return [o.vec]
    if isinstance(o, Povm):
        return list(o.vecs)
    if isinstance(o, MProcess):
        return list(o.hss)
    return [o.hs]


def full_raw(o):
    """byte-exact value + every setting of an object."""
    return (tuple(base.raw(a) for a in arrays(o)), o.is_physicality_required, o.mode_proj_order, o.on_para_eq_constraint,
            o.on_algo_eq_constraint, o.on_algo_ineq_constraint, o.eps_proj_physical, o.eps_truncate_imaginary_part)


def build(kind, c, val, order):
    """The object the term names, built by the constructor alone (no setter involved)."""
    from quara.objects.qoperation_typical import generate_qoperation
    from quara.objects.state import State
    from quara.objects.povm import Povm
    from quara.objects.gate import Gate
    from quara.objects.mprocess import MProcess
    src = source(kind, c)
    arrs = [np.array(a, dtype=np.float64) if val == "orig" else np.zeros(np.shape(a), dtype=np.float64) for a in arrays(src)]
    kw = dict(is_physicality_required=(val == "orig"), mode_proj_order=order)
    if kind == "state":
        return State(c, arrs[0], **kw)
    if kind == "povm":
        return Povm(c, arrs, **kw)
    if kind == "gate":
        return Gate(c, arrs[0], **kw)
    if kind == "lindbladian":
        from quara.objects.effective_lindbladian import EffectiveLindbladian
        return EffectiveLindbladian(c, arrs[0], **kw)
    return MProcess(c, arrs, **kw)


def rebuild(z, kind):
    """An object with the value and settings of z, built by the constructor from freshly allocated arrays."""
    from quara.objects.state import State
    from quara.objects.povm import Povm
    from quara.objects.gate import Gate
    from quara.objects.mprocess import MProcess
    arrs = [np.array(a, dtype=np.float64, copy=True) for a in arrays(z)]
    kw = dict(is_physicality_required=z.is_physicality_required, mode_proj_order=z.mode_proj_order,
              on_para_eq_constraint=z.on_para_eq_constraint, eps_proj_physical=z.eps_proj_physical)
    c = z.composite_system
    if kind == "state":
        return State(c, arrs[0], **kw)
    if kind == "povm":
        return Povm(c, arrs, **kw)
    if kind == "gate":
        return Gate(c, arrs[0], **kw)
    if kind == "lindbladian":
        from quara.objects.effective_lindbladian import EffectiveLindbladian
        return EffectiveLindbladian(c, arrs[0], **kw)
    return MProcess(c, arrs, shape=tuple(z.shape), **kw)


def read(o, kind, name):
    c = o.composite_system
    cls = type(o)
    if name == "var":
        v = o.to_var()
        return [v, o.to_stacked_vector(), o.is_physicality_required, o.mode_proj_order, o.on_para_eq_constraint,
                cls.convert_var_to_stacked_vector(c, v, o.on_para_eq_constraint),
                cls.convert_stacked_vector_to_var(c, o.to_stacked_vector(), o.on_para_eq_constraint)]
    if name == "reps":
        if kind == "state":
            return [o.vec, o.to_density_matrix(), o.to_density_matrix_with_sparsity(), o.calc_eigenvalues(), o.calc_proj_physical()]
        if kind == "povm":
            return [list(o.vecs), o.matrices(), o.matrices_with_sparsity(), o.matrix(0), o.calc_eigenvalues(), o.calc_proj_physical()]
        if kind == "lindbladian":
            return [o.hs, o.calc_h_mat(), o.calc_j_mat(), o.calc_k_mat(), o.calc_h_part(), o.calc_j_part(), o.calc_k_part(), o.calc_d_part(),
                    o.calc_k_part(mode_basis="comp_basis"), o.is_tp(), o.is_cp(), o.calc_k_mat()]
        if kind == "gate":
            return [o.hs, o.to_choi_matrix(), o.to_choi_matrix_with_dict(), o.to_choi_matrix_with_sparsity(), o.to_process_matrix(),
                    o.convert_to_comp_basis()]
        return [list(o.hss), o.to_choi_matrix(0), o.to_choi_matrix_with_dict(1), o.to_choi_matrix_with_sparsity(1), o.to_process_matrix(0),
                o.to_povm(), o.convert_to_comp_basis()]
    if name == "copy":
        cp = o.copy()
        return [base.snapshot_obj(cp), full_raw(cp)[1:]]
    if name == "roundtrip":
        return [o.generate_from_var(o.to_var()), o.generate_from_var(o.to_var(), is_physicality_required=False)]
    if name == "derive":
        # derived objects are objects like any other: what they return afterwards depends on their value alone
        # (in particular not on how their arrays were allocated)
        out = [o.calc_gradient(0), o.calc_gradient(len(o.to_var()) - 1)]
        for label, z in (("zero_obj", o.generate_zero_obj()), ("origin_obj", o.generate_origin_obj()), ("copy", o.copy())):
            ar = arrays(z)
            alias = any(np.shares_memory(ar[i], ar[j]) for i in range(len(ar)) for j in range(i)) or \
                any(np.shares_memory(a, b_) for a in ar for b_ in arrays(o))
            beh = lambda x: base.digest([x, x.to_var(), x.to_stacked_vector(), x.calc_proj_eq_constraint(), x.calc_proj_ineq_constraint()])
            # the same value handed to the constructor in freshly allocated arrays
            twin = rebuild(z, kind)
            # shared arrays alone are not a violation (recorded for the diagnosis only); a different behaviour is
            out += [z, ("must", label + ":behaves_like_constructed" + (" (its arrays share memory)" if alias else ""), beh(z) == beh(twin))]
        return out
    if name == "physproj":
        return [o.calc_proj_eq_constraint(), o.calc_proj_ineq_constraint(), o.calc_proj_physical(),
                o.calc_proj_physical_with_var(o.to_var(), on_para_eq_constraint=o.on_para_eq_constraint)]
    if name == "closures":
        # the function forms handed to optimisers, asked with explicit arguments that differ from the object's own settings:
        # calling them is a read (the object keeps its value AND its settings)
        other = "ineq_eq" if o.mode_proj_order == "eq_ineq" else "eq_ineq"
        full = np.asarray(o.to_stacked_vector(), dtype=float).copy()
        red = np.asarray(o.to_var(), dtype=float).copy()
        out = []
        for flag, v in ((False, full), (True, red if o.on_para_eq_constraint else None)):
            if v is None:
                continue
            out += [o.func_calc_proj_eq_constraint(flag)(v.copy()), o.func_calc_proj_ineq_constraint(flag)(v.copy()),
                    o.func_calc_proj_eq_constraint_with_var(flag)(v.copy()), o.func_calc_proj_ineq_constraint_with_var(flag)(v.copy())]
        if kind != "lindbladian":
            out += [o.func_calc_proj_physical_with_var(on_para_eq_constraint=False, mode_proj_order=other)(full.copy()),
                    o.func_calc_proj_physical(on_para_eq_constraint=False, mode_proj_order=other)(full.copy())]
        return out
    if name == "flags":
        return [o.is_physical(), o.is_eq_constraint_satisfied(), o.is_ineq_constraint_satisfied(), o.is_physical(atol_eq_const=1e-3, atol_ineq_const=1e-3)]
    raise core.MachineryError("unknown read " + name)


def poison(val, own):
    if isinstance(val, np.ndarray):
        if val.dtype != object and val.flags.writeable and val.size and not any(np.shares_memory(val, a) for a in own):
            try:
                val += 1.0
            except Exception:
                pass
    elif isinstance(val, (list, tuple)):
        for x in val:
            poison(x, own)


class Replayer:
    def __init__(self, chk):
        self.chk = chk
        self.ref = {}

    def fresh(self, kind, name, val, order):
        key = (kind, name, val, order)
        if key not in self.ref:
            try:
                self.ref[key] = base.digest(read(build(kind, _sys(), val, order), kind, name))
            except Exception as e:
                self.ref[key] = "EXC:" + type(e).__name__
        return self.ref[key]

    def construct(self, st):
        from quara.objects.qoperation_typical import generate_qoperation
        c = _sys("main")
        W = {}
        for kind, slots in st.items():
            main = source(kind, c)
            cp = main.copy() if slots["copy"]["val"] != "none" else None
            for o, s in ((main, slots["main"]), (cp, slots["copy"])):
                if o is None:
                    continue
                if s["val"] == "zero":
                    o.set_zero()
                if s["order"] != o.mode_proj_order:
                    o.set_mode_proj_order(s["order"])
            W[kind] = {"main": main, "copy": cp}
        return W

    def snap(self, W):
        return {(k, s): full_raw(o) for k, d in W.items() for s, o in d.items() if o is not None}

    def walk(self, walk):
        W = self.construct(walk[0]["from"])
        self._snap = self.snap(W)
        for n, tr in enumerate(walk):
            if not self.step(W, tr, walk, n):
                return

    def step(self, W, tr, walk, n):
        chk = self.chk
        act, arg = tr["act"], tr["arg"]
        kind = arg["kind"]
        slot = arg.get("slot", "copy")
        before = self._snap
        res = None
        ctx = dict(walk=[dict(act=t["act"], arg=t["arg"]) for t in walk[:n + 1]], start=walk[0]["from"], step=n)
        chk.count(1, (act, json.dumps(arg, sort_keys=True), json.dumps(tr["from"][kind], sort_keys=True)))
        try:
            o = W[kind][slot]
            if act == "Read":
                val = read(o, kind, arg["read"])
                failed = [x[1] for x in val if isinstance(x, tuple) and len(x) == 3 and x[0] == "must" and not x[2]]
                if failed:
                    chk.violation("objlife:derived:%s:%s" % (kind, failed[0].split(" (")[0]),
                                  "object derived from the %s object (value %s): %s does not hold" % (kind, tr["res"]["val"], ", ".join(failed)), ctx)
                    return False
                res = base.digest(val)
                # what a read returns belongs to the caller: writing into it must not reach the object (checked by the snapshots
                # and by every later read).  Arrays that ARE the object's value (attribute getters) are left alone.
                poison(val, arrays(o))
            elif act == "SetZero":
                o.set_zero()
            elif act == "SetOrder":
                o.set_mode_proj_order(arg["order"])
            elif act == "Copy":
                W[kind]["copy"] = W[kind]["main"].copy()
        except Exception as e:
            res = "EXC:" + type(e).__name__
            if act != "Read":
                chk.violation("objlife:exception:%s:%s" % (act, kind), "%s(%s) raised %r" % (act, arg, e), ctx)
                return False
        after = self._snap = self.snap(W)
        touched = (kind, slot)
        for key in before:
            if key == touched and act != "Read":
                continue
            if key in after and before[key] != after[key]:
                chk.violation("objlife:mutation:%s:%s:%s" % (act, kind, "%s.%s" % key),
                              "%s(%s) changed the %s object in slot %s" % (act, arg, key[0], key[1]), ctx)
                return False
        want = tr["to"][kind][slot]
        o = W[kind][slot]
        if act == "SetZero":
            ref = build(kind, _sys(), "zero", want["order"])
            if full_raw(o) != full_raw(ref):
                chk.violation("objlife:set_zero:%s" % kind, "after set_zero the %s object is not the all-zero object with is_physicality_required cleared" % kind, ctx)
                return False
        elif act == "SetOrder":
            ref = build(kind, _sys(), want["val"], want["order"])
            if full_raw(o) != full_raw(ref):
                chk.violation("objlife:set_order:%s" % kind, "set_mode_proj_order(%s) changed more than the order" % arg["order"], ctx)
                return False
        elif act == "Copy":
            m = W[kind]["main"]
            if full_raw(o) != full_raw(m):
                chk.violation("objlife:copy_differs:%s" % kind, "copy() of the %s object differs from its original" % kind, ctx)
                return False
            if any(np.shares_memory(a, b) for a in arrays(o) for b in arrays(m)):
                chk.violation("objlife:copy_shares:%s" % kind, "copy() of the %s object shares memory with its original" % kind, ctx)
                return False
        else:
            t = tr["res"]
            ref = self.fresh(kind, arg["read"], t["val"], t["order"])
            if res != ref:
                chk.violation("objlife:stale:%s:%s:%s" % (kind, arg["read"], t["val"]),
                              "read '%s' of the %s object (value %s, order %s) gives %s; an object constructed with that value gives %s"
                              % (arg["read"], kind, t["val"], t["order"], res, ref), ctx)
                return False
            if bool(o.is_physicality_required) != bool(t["req"]):
                chk.violation("objlife:req:%s" % kind, "is_physicality_required of the %s object is %s, the specification says %s" % (kind, o.is_physicality_required, t["req"]), ctx)
                return False
        return True


def run_part(chk, rng):
    t = chk.tier
    chk.tlc("mc/MC_ObjLife", "mc/MC_ObjLife_%s.cfg" % t, workers=16, label="MC_ObjLife " + t)
    pairs = ["SP", "GM", "LG"] if t == "quick" else ["SP", "GM", "SG", "PM", "SM", "PG", "LG", "LS"]
    total = 0
    for p in pairs:
        r = chk.tlc("mc/MC_ObjLife", "mc/MC_ObjLife_%s_%s_emit.cfg" % (p, t), workers=1, label="MC_ObjLife %s emit %s" % (p, t))
        g = graphwalk.Graph(r.emitted)
        rp = Replayer(chk)
        walks = g.cover_walks(10, rng)
        init = [k for k in g.out if all(v["main"] == {"val": "orig", "order": "eq_ineq"} and v["copy"]["val"] == "none" for v in json.loads(k).values())]
        walks += g.random_walks(60 if t == "quick" else 400, 30, rng, starts=set(init))
        for wk in walks:
            rp.walk(wk)
            chk.replayed += 1
        total += len(r.emitted)
        chk.notes["objlife_%s_walks" % p] = len(walks)
    chk.notes["objlife_transitions"] = total
    chk.sample(dict(part="objlife", walk=[dict(act=x["act"], arg=x["arg"]) for x in walks[-1][:6]]))
