# Harness shim, found through PYTHONPATH (also by loky/joblib worker processes).
# Active only when QUARA_VERIF=1.  Nothing in /repo is edited for this.
import os

if os.environ.get("QUARA_VERIF") == "1":
    try:
        import numpy as _np
        import scipy.linalg as _sl

        # scipy >= 1.15 removed scipy.linalg.kron; quara imports it.  Environment
        # incompatibility, not a property of quara: provide numpy's kron.
        if not hasattr(_sl, "kron"):
            _sl.kron = _np.kron
    except Exception:  # pragma: no cover
        pass
