"""Coordinate maps between the specification's exact H-coordinates and the library's arrays.

An operator X = sum_a x_a H_a (H_a the integer Hermitian basis of QBasis.tla, nu_a = Tr H_a^2) has the
library coordinate c_a = x_a * sqrt(nu_a) in the normalised basis B_a = H_a / sqrt(nu_a).  A
superoperator with H-coordinate matrix G has the library HS matrix S G S^-1, S = diag(sqrt nu)."""
import functools
from fractions import Fraction

import numpy as np

from harness import qobjs

NU1 = {2: [2, 2, 2, 2], 3: [3, 2, 2, 2, 2, 2, 2, 2, 6]}


def nu_of(sys):
    out = [1]
    for d in sys:
        out = [a * b for a in out for b in NU1[d]]
    return np.array(out, dtype=np.float64)


def rat(x):
    """JSON value of the specification ([n, d] pairs, nested sequences) -> floats / numpy arrays."""
    if isinstance(x, list) and len(x) == 2 and all(isinstance(t, int) for t in x):
        return x[0] / x[1]
    raise ValueError("not a rational: %r" % (x,))


def rvec(v):
    return np.array([t[0] / t[1] for t in v], dtype=np.float64)


def rmat(m):
    return np.array([[t[0] / t[1] for t in row] for row in m], dtype=np.float64)


def frac(x):
    return Fraction(x[0], x[1])


@functools.lru_cache(maxsize=None)
def csys_for(sys, ids=None):
    sys = tuple(sys)
    if sys == (2,) and ids is None:
        return qobjs.csys("qubit", 1)
    if sys == (3,) and ids is None:
        return qobjs.csys("qutrit", 1)
    return qobjs.csys_mixed(sys, ids)


def state_from_h(sys, x, ids=None, **kw):
    from quara.objects.state import State
    kw.setdefault("is_physicality_required", False)
    return State(csys_for(tuple(sys), ids), np.asarray(x, dtype=np.float64) * np.sqrt(nu_of(sys)), **kw)


def povm_from_h(sys, ys, ids=None, **kw):
    from quara.objects.povm import Povm
    kw.setdefault("is_physicality_required", False)
    s = np.sqrt(nu_of(sys))
    return Povm(csys_for(tuple(sys), ids), [np.asarray(y, dtype=np.float64) * s for y in ys], **kw)


def hs_from_h(sys, G):
    s = np.sqrt(nu_of(sys))
    return (np.asarray(G, dtype=np.float64) * s[:, None]) / s[None, :]


def gate_from_h(sys, G, ids=None, **kw):
    from quara.objects.gate import Gate
    kw.setdefault("is_physicality_required", False)
    return Gate(csys_for(tuple(sys), ids), hs_from_h(sys, G), **kw)


def mprocess_from_h(sys, Ms, ids=None, shape=None, **kw):
    from quara.objects.mprocess import MProcess
    kw.setdefault("is_physicality_required", False)
    return MProcess(csys_for(tuple(sys), ids), [hs_from_h(sys, M) for M in Ms], shape=shape, **kw)


# inverse maps (library arrays -> H-coordinates)
def h_of_vec(sys, vec):
    return np.asarray(vec, dtype=np.float64) / np.sqrt(nu_of(sys))


def h_of_hs(sys, hs):
    s = np.sqrt(nu_of(sys))
    return (np.asarray(hs, dtype=np.float64) / s[:, None]) * s[None, :]


def var_scale(T, sys, m, para, layout):
    """library variable = scale * H-coordinate variable, per variable position (layout: list of cells)."""
    nu = nu_of(sys)
    out = []
    for (x, r, c) in layout:
        if T in ("state", "povm"):
            out.append(np.sqrt(nu[r]))
        else:
            out.append(np.sqrt(nu[r] / nu[c]))
    return np.array(out)


def var_layout(T, d, m, para):
    """Variable layout of QIndex.tla (validated against the library by C03)."""
    n = d * d
    cells = []
    if T == "state":
        cells = [(0, r, 0) for r in range(n)]
        return cells[1:] if para else cells
    if T == "povm":
        cells = [(x, r, 0) for x in range(m) for r in range(n)]
        return cells[: (m - 1) * n] if para else cells
    if T == "gate":
        cells = [(0, r, c) for r in range(n) for c in range(n)]
        return cells[n:] if para else cells
    cells = [(x, r, c) for x in range(m) for r in range(n) for c in range(n)]
    if para:
        cells = [cl for cl in cells if not (cl[0] == m - 1 and cl[1] == 0)]
    return cells


def close(a, b, tol=1e-9):
    a = np.asarray(a, dtype=np.float64)
    b = np.asarray(b, dtype=np.float64)
    if a.shape != b.shape:
        return False
    return bool(np.all(np.abs(a - b) <= tol * (1 + np.abs(b))))
