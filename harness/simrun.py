"""Simulation-flow drivers for C15: test settings, result tables, real joblib runs and the controlled
executor that replays TLC schedules of QSim.tla through the real flow code.

The controlled executor replaces the name `joblib` inside the two simulation modules (at run time, in
the harness process only).  Every task of the four parallel levels becomes a Python thread; exactly one
thread runs at a time and the controller releases the steps in the order TLC dictates:

    StartS(s)  sample task up to its data-generation pool      RunD(s,r)  one data-generation task
    MidS(s)    sample task between the two pools               StartU(s,c) case task up to its pool
    RunE(s,c,r) linear estimation task (atomic)                SetE / OptE  loss-minimisation task,
    EndU(s,c)  rest of the case task                                        split before algo.optimize
    EndS(s)    rest of the sample task

Process backends copy (pickle) the task at dispatch and its result on return; thread and sequential
backends share the objects - the backend of each level follows QSim!B1..B4."""
import contextlib
import io
import pickle
import threading

import numpy as np

LEVEL_OF = {"execute_simulation_sample_unit": 1, "generate_empi_dists_sequence": 2,
            "execute_simulation_case_unit": 3, "_execute_estimation": 4}
KEY_OF = {1: "per_sample_unit", 2: "per_data_generation", 3: "per_estimator_unit", 4: "per_estimator_execution"}
PAR_OF = {1: "ps", 2: "pd", 3: "pu", 4: "pe"}


def backends(par):
    """transcription of QSim!B1..B4."""
    P = lambda n: n > 1
    b1 = "proc" if P(par["ps"]) else "seq"
    b2 = "seq" if not P(par["pd"]) else ("thread" if P(par["ps"]) else "proc")
    b3 = "seq" if not P(par["pu"]) else ("thread" if P(par["ps"]) else "proc")
    if not P(par["pe"]):
        b4 = "seq"
    elif P(par["ps"]) and P(par["pu"]):
        b4 = "seq"
    elif P(par["ps"]) or P(par["pu"]):
        b4 = "thread"
    else:
        b4 = "proc"
    return {1: b1, 2: b2, 3: b3, 4: b4}


def parallel_mode(par):
    return {KEY_OF[l]: par[PAR_OF[l]] for l in (1, 2, 3, 4)}


# ---------------------------------------------------------------- settings
def csys1():
    from harness import qobjs
    return qobjs.csys("qubit", 1)


# the two thresholds of a case are deliberately different (a stored setting that confuses them re-estimates differently)
EPS_PROJ, EPS_TRUNC = 1e-6, 1e-10


def make_setting(kind="state", noise="depolarized", n_sample=2, n_rep=2, num_data=(20,), cases=("lin", "lsq"),
                 seed_qoperation=888, seed_data=777, rate=0.1):
    """EstimatorTestSetting for 1-qubit tomography of `kind` with the listed estimator cases."""
    from quara.simulation.standard_qtomography_simulation import EstimatorTestSetting, NoiseSetting
    from quara.protocol.qtomography.standard.linear_estimator import LinearEstimator
    from quara.protocol.qtomography.standard.projected_linear_estimator import ProjectedLinearEstimator
    from quara.protocol.qtomography.standard.loss_minimization_estimator import LossMinimizationEstimator
    from quara.loss_function.weighted_probability_based_squared_error import (
        WeightedProbabilityBasedSquaredError, WeightedProbabilityBasedSquaredErrorOption)
    from quara.minimization_algorithm.projected_gradient_descent_backtracking import (
        ProjectedGradientDescentBacktracking, ProjectedGradientDescentBacktrackingOption)
    c = csys1()
    if noise == "depolarized":
        method, para = "depolarized", {"error_rate": rate}
    else:
        method, para = "random_effective_lindbladian", {"lindbladian_base": "identity", "strength_h_part": rate, "strength_k_part": rate}
    st = [("state", n) for n in ("x0", "y0", "z0", "z1")]
    pv = [("povm", n) for n in ("x", "y", "z")]
    true, testers = {
        "state": (("state", "a"), pv),
        "state_z": (("state", "z0"), pv),          # near-pure unknown: zero counts occur at small N
        "povm": (("povm", "z"), st),
        "gate": (("gate", "hadamard"), st + pv),
        "mprocess": (("mprocess", "x-type1"), st + pv),
    }[kind]
    est, algo, loss, para_flags = [], [], [], []
    for cs in cases:
        if cs == "lin":
            est.append(LinearEstimator()); algo.append((None, None)); loss.append((None, None)); para_flags.append(True)
        elif cs == "plin":
            est.append(ProjectedLinearEstimator(mode_proj_order="eq_ineq")); algo.append((None, None)); loss.append((None, None)); para_flags.append(False)
        elif cs == "wlsq":
            # weighted least squares with data-dependent weights (inverse sample covariance)
            est.append(LossMinimizationEstimator())
            algo.append((ProjectedGradientDescentBacktracking(),
                         ProjectedGradientDescentBacktrackingOption(mode_stopping_criterion_gradient_descent="sum_absolute_difference_variable",
                                                                    num_history_stopping_criterion_gradient_descent=1)))
            loss.append((WeightedProbabilityBasedSquaredError(), WeightedProbabilityBasedSquaredErrorOption("inverse_sample_covariance")))
            para_flags.append(True)
        else:
            est.append(LossMinimizationEstimator())
            algo.append((ProjectedGradientDescentBacktracking(),
                         ProjectedGradientDescentBacktrackingOption(mode_stopping_criterion_gradient_descent="sum_absolute_difference_variable",
                                                                    num_history_stopping_criterion_gradient_descent=1)))
            loss.append((WeightedProbabilityBasedSquaredError(), WeightedProbabilityBasedSquaredErrorOption("identity")))
            para_flags.append(True)
    n = len(cases)
    return EstimatorTestSetting(
        true_object=NoiseSetting(qoperation_base=true, method=method, para=para),
        tester_objects=[NoiseSetting(qoperation_base=t, method=method, para=para) for t in testers],
        seed_qoperation=seed_qoperation, seed_data=seed_data, n_sample=n_sample, n_rep=n_rep, num_data=list(num_data),
        schedules="all", case_names=list(cases), estimators=est, eps_proj_physical_list=[EPS_PROJ] * n,
        eps_truncate_imaginary_part_list=[EPS_TRUNC] * n, algo_list=algo, loss_list=loss, parametrizations=para_flags, c_sys=c)


NO_CHECKS = {"consistency": False, "mse_of_estimators": False, "mse_of_empi_dists": False, "physicality_violation": False}


def flat(obj):
    """numeric content of a library object / nested structure as one float vector."""
    if obj is None:
        return np.zeros(0)
    if hasattr(obj, "to_stacked_vector"):
        return np.asarray(obj.to_stacked_vector(), dtype=float).ravel()
    if isinstance(obj, (list, tuple)):
        parts = [flat(o) for o in obj]
        return np.concatenate(parts) if parts else np.zeros(0)
    return np.asarray(obj, dtype=float).ravel()


def table(results):
    """{(sample, case): dict(true=..., testers=..., data=[per rep], est=[per rep])} from flow results."""
    out = {}
    for r in results:
        k = (r.result_index["sample_index"], r.result_index["case_index"])
        ss = r.simulation_setting
        out[k] = dict(true=flat(ss.true_object), testers=flat(list(ss.tester_objects)),
                      data=[np.concatenate([np.concatenate([[float(e[0])], np.asarray(e[1], dtype=float).ravel()]) for step in seq for e in step])
                            for seq in r.empi_dists_sequences],
                      est=[flat(list(er.estimated_var_sequence)) for er in r.estimation_results])
    return out


def diff_tables(a, b):
    """first difference between two result tables, or None."""
    if set(a) != set(b):
        return "different (sample, case) keys: %s vs %s" % (sorted(a), sorted(b))
    for k in sorted(a):
        for f in ("true", "testers"):
            if a[k][f].shape != b[k][f].shape or not np.array_equal(a[k][f], b[k][f]):
                return "%s objects differ for sample %d case %d" % (f, k[0], k[1])
        for f in ("data", "est"):
            if len(a[k][f]) != len(b[k][f]):
                return "%s: repetition count differs for sample %d case %d" % (f, k[0], k[1])
            for i, (x, y) in enumerate(zip(a[k][f], b[k][f])):
                if x.shape != y.shape or not np.array_equal(x, y):
                    dev = float(np.max(np.abs(x - y))) if x.shape == y.shape else float("nan")
                    return "%s differ for sample %d case %d repetition %d (max dev %.3g)" % (
                        {"data": "empirical distributions", "est": "estimates"}[f], k[0], k[1], i, dev)
    return None


@contextlib.contextmanager
def quiet():
    with contextlib.redirect_stdout(io.StringIO()), contextlib.redirect_stderr(io.StringIO()):
        yield


def run_flow(setting, root, par=None, checks=None):
    """the real flow with real joblib."""
    from quara.simulation.standard_qtomography_simulation_flow import execute_simulation_test_settings
    with quiet():
        return execute_simulation_test_settings([setting], str(root), pdf_mode="none",
                                                parallel_mode=parallel_mode(par) if par else None,
                                                exec_sim_check=checks if checks is not None else NO_CHECKS)


# ---------------------------------------------------------------- controlled executor
class ScheduleError(Exception):
    pass


class _Task:
    def __init__(self, tid, fn, args, kwargs, copy):
        self.tid, self.fn, self.args, self.kwargs, self.copy = tid, fn, args, kwargs, copy
        self.go = threading.Event()
        self.thread = None
        self.state = "new"          # new | running | waiting | at_opt | done
        self.result = None
        self.error = None


class Controller:
    def __init__(self, par, loss_cases, algo_cls):
        self.par = par
        self.back = backends(par)
        self.loss_cases = set(loss_cases)      # 1-based case indices
        self.tasks = {}
        self.yielded = threading.Event()
        self.local = threading.local()
        self.n_jobs_seen = []
        self.algo_cls = algo_cls
        self.failure = None

    # ---- task side
    def _yield(self, task, state):
        task.state = state
        self.yielded.set()
        task.go.wait()
        task.go.clear()
        task.state = "running"

    def _body(self, task):
        self.local.task = task
        task.go.wait()
        task.go.clear()
        task.state = "running"
        try:
            task.result = task.fn(*task.args, **task.kwargs)
            if task.copy:
                task.result = pickle.loads(pickle.dumps(task.result))
        except BaseException as e:      # noqa
            task.error = e
        task.state = "done"
        self.yielded.set()

    def parallel(self, n_jobs, calls):
        parent = self.local.task
        level = LEVEL_OF.get(getattr(calls[0][0], "__name__", ""))
        if level is None:
            raise ScheduleError("unknown parallel section: %r" % (calls[0][0],))
        self.n_jobs_seen.append((level, n_jobs))
        copy = self.back[level] == "proc"
        kids = []
        for i, (fn, args, kwargs) in enumerate(calls):
            if level == 1:
                tid = ("S", i + 1)
            elif level == 2:
                tid = ("D", parent.tid[1], i + 1)
            elif level == 3:
                tid = ("U", parent.tid[1], i + 1)
            else:
                tid = ("E", parent.tid[1], parent.tid[2], i + 1)
            if copy:
                fn, args, kwargs = pickle.loads(pickle.dumps((fn, args, kwargs)))
            t = _Task(tid, fn, args, kwargs, copy)
            t.thread = threading.Thread(target=self._body, args=(t,), daemon=True)
            t.thread.start()
            self.tasks[tid] = t
            kids.append(t)
        self._yield(parent, "waiting")
        for k in kids:
            if k.error is not None:
                raise k.error
            if k.state != "done":
                raise ScheduleError("parent %s resumed before child %s finished" % (parent.tid, k.tid))
        return [k.result for k in kids]

    def before_optimize(self):
        task = getattr(self.local, "task", None)
        if task is None or task.tid[0] != "E" or task.tid[2] not in self.loss_cases or getattr(task, "gated", False):
            return
        task.gated = True
        self._yield(task, "at_opt")

    # ---- controller side
    def _release(self, task, expect):
        if task.state not in expect:
            raise ScheduleError("step for task %s in state %s (expected %s)" % (task.tid, task.state, expect))
        self.yielded.clear()
        task.go.set()
        if not self.yielded.wait(timeout=600):
            raise ScheduleError("task %s did not yield" % (task.tid,))

    def run(self, main_fn, schedule):
        main = _Task(("M",), main_fn, (), {}, False)
        main.thread = threading.Thread(target=self._body, args=(main,), daemon=True)
        main.thread.start()
        self.tasks[("M",)] = main
        self._release(main, ("new",))
        for step in schedule:
            name, ids = step[0], tuple(step[1:])
            if name == "StartS":
                self._release(self.tasks[("S",) + ids], ("new",))
            elif name == "RunD":
                self._release(self.tasks[("D",) + ids], ("new",))
            elif name in ("MidS", "EndS"):
                self._release(self.tasks[("S",) + ids], ("waiting",))
            elif name == "StartU":
                self._release(self.tasks[("U",) + ids], ("new",))
            elif name in ("RunE", "SetE"):
                t = self.tasks[("E",) + ids]
                self._release(t, ("new",))
                want = "at_opt" if name == "SetE" else "done"
                if t.state != want and t.error is None:
                    raise ScheduleError("task %s is %s after %s" % (t.tid, t.state, name))
            elif name == "OptE":
                self._release(self.tasks[("E",) + ids], ("at_opt",))
            elif name == "EndU":
                self._release(self.tasks[("U",) + ids], ("waiting",))
            else:
                raise ScheduleError("unknown step %r" % (step,))
        if main.state != "waiting":
            raise ScheduleError("main flow is %s after the schedule" % main.state)
        self._release(main, ("waiting",))
        if main.error is not None:
            raise main.error
        if main.state != "done":
            raise ScheduleError("main flow did not finish")
        return main.result


class _JoblibShim:
    def __init__(self, ctl):
        self.ctl = ctl

    def delayed(self, fn):
        return lambda *a, **k: (fn, a, k)

    def Parallel(self, n_jobs=1, **kw):
        return lambda calls: self.ctl.parallel(n_jobs, list(calls))


def run_controlled(setting, root, par, schedule, loss_cases):
    """replay one TLC schedule through the real flow code; returns (results, n_jobs seen per level)."""
    import quara.simulation.standard_qtomography_simulation as sim
    import quara.simulation.standard_qtomography_simulation_flow as flow
    from quara.minimization_algorithm.projected_gradient_descent_backtracking import ProjectedGradientDescentBacktracking as Algo
    ctl = Controller(par, loss_cases, Algo)
    shim = _JoblibShim(ctl)
    orig = (sim.joblib, flow.joblib, Algo.optimize)

    def optimize(self, *a, **k):
        ctl.before_optimize()
        return orig[2](self, *a, **k)
    sim.joblib, flow.joblib, Algo.optimize = shim, shim, optimize
    try:
        with quiet():
            res = ctl.run(lambda: flow.execute_simulation_test_settings([setting], str(root), pdf_mode="none",
                                                                         parallel_mode=parallel_mode(par), exec_sim_check=NO_CHECKS), schedule)
    finally:
        sim.joblib, flow.joblib, Algo.optimize = orig
    return res, ctl.n_jobs_seen


# ---------------------------------------------------------------- C->S: events of real threaded estimation
def record_threaded_estimation(setting, root, n_threads=4):
    """Runs the real flow with joblib's THREADING backend at the estimation level and records, under a lock,
    the two linearisation points of every loss-minimisation task (configure the loss / start the optimiser).
    Returns the list of events for Trace_C15.tla.  Nothing in /repo is touched: the wrappers live in this process."""
    import hashlib
    import joblib
    import quara.simulation.standard_qtomography_simulation as sim
    import quara.simulation.standard_qtomography_simulation_flow as flow
    from quara.loss_function.probability_based_loss_function import ProbabilityBasedLossFunction as Loss
    from quara.minimization_algorithm.projected_gradient_descent_backtracking import ProjectedGradientDescentBacktracking as Algo
    lock = threading.Lock()
    events, ids, obj_ids = [], {}, {}
    local = threading.local()
    case_ctx = threading.local()

    def dg(dists):
        h = hashlib.sha1()
        for d in dists:
            h.update(np.ascontiguousarray(np.asarray(d, dtype=np.float64)).tobytes())
        return h.hexdigest()[:12]
    orig = dict(exec_est=sim.execute_estimation, task=sim._execute_estimation, setd=Loss.set_from_standard_qtomography_option_data,
                opt=Algo.optimize, case=flow.execute_simulation_case_unit)

    def case_unit(test_setting, true_object, tester_objects, empi_dists_sequences, case_index, sample_index, *a, **k):
        case_ctx.sc = (sample_index + 1, case_index + 1)
        return orig["case"](test_setting, true_object, tester_objects, empi_dists_sequences, case_index, sample_index, *a, **k)

    def exec_est(qtomography, simulation_setting, empi_dists_sequences, n_jobs=1, *a, **k):
        s, c = case_ctx.sc
        with lock:
            for r, seq in enumerate(empi_dists_sequences):
                ids[id(seq)] = (s, c, r + 1)
        with joblib.parallel_backend("threading", n_jobs=n_threads):
            return orig["exec_est"](qtomography, simulation_setting, empi_dists_sequences, n_threads, *a, **k)

    def task(qtomography, empi_dists_seq, *a, **k):
        local.task = ids.get(id(empi_dists_seq))
        local.step = 0
        try:
            return orig["task"](qtomography, empi_dists_seq, *a, **k)
        finally:
            local.task = None

    def setd(self, qtomography, option, data, *a, **k):
        t = getattr(local, "task", None)
        if t is not None and local.step == 0:
            with lock:
                oid = obj_ids.setdefault(id(self), len(obj_ids) + 1)
                events.append(dict(ev="SetE", s=t[0], c=t[1], r=t[2], loss=oid, own=dg([d[1] for d in data])))
            local.step = 1
            local.keep = self          # keep the object alive so that ids stay unique
        return orig["setd"](self, qtomography, option, data, *a, **k)

    def opt(self, loss_function, *a, **k):
        t = getattr(local, "task", None)
        if t is not None and local.step == 1:
            with lock:
                oid = obj_ids.setdefault(id(loss_function), len(obj_ids) + 1)
                events.append(dict(ev="OptE", s=t[0], c=t[1], r=t[2], loss=oid, held=dg(loss_function.prob_dists_q)))
            local.step = 2
        return orig["opt"](self, loss_function, *a, **k)
    keepalive = []
    sim.execute_estimation, sim._execute_estimation = exec_est, task
    Loss.set_from_standard_qtomography_option_data, Algo.optimize = setd, opt
    flow.execute_simulation_case_unit = case_unit
    try:
        with quiet():
            res = flow.execute_simulation_test_settings([setting], str(root), pdf_mode="none", parallel_mode=None, exec_sim_check=NO_CHECKS)
        keepalive.append(res)
    finally:
        sim.execute_estimation, sim._execute_estimation = orig["exec_est"], orig["task"]
        Loss.set_from_standard_qtomography_option_data, Algo.optimize = orig["setd"], orig["opt"]
        flow.execute_simulation_case_unit = orig["case"]
    return events, res
