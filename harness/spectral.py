"""Layer S concretisation: operators given by (frame, spectrum) as library objects.

Unitarily covariant quantities (trace, spectrum, Choi spectrum) are set exactly in spectral
coordinates and rotated by seeded frames (identity, real rotation, generic complex unitary); the
library's coefficient vectors are obtained by expanding in the basis matrices the library reports."""
import functools
import itertools

import numpy as np

from harness import qobjs

SHAPES = {"q": (2,), "t": (3,), "qq": (2, 2), "qt": (2, 3)}


def csys_of(shape):
    sys = SHAPES[shape]
    if sys == (2,):
        return qobjs.csys("qubit", 1)
    if sys == (3,):
        return qobjs.csys("qutrit", 1)
    return qobjs.csys_mixed(sys)


@functools.lru_cache(maxsize=None)
def basis_dense(shape):
    c = csys_of(shape)
    return [np.asarray(b.toarray() if hasattr(b, "toarray") else b, dtype=np.complex128) for b in c.basis()]


def vec_of(shape, X):
    """coefficients of the (Hermitian) matrix X in the library's orthonormal basis."""
    return np.array([np.trace(B.conj().T @ X).real for B in basis_dense(shape)], dtype=np.float64)


def haar(d, rs):
    z = (rs.randn(d, d) + 1j * rs.randn(d, d)) / np.sqrt(2)
    q, r = np.linalg.qr(z)
    ph = np.diag(r) / np.abs(np.diag(r))
    return q * ph


def frame(kind, d, rs):
    if kind == "identity":
        return np.eye(d, dtype=np.complex128)
    if kind == "real":
        q, _ = np.linalg.qr(rs.randn(d, d))
        return q.astype(np.complex128)
    return haar(d, rs)


def local_frame(kind, sys, rs):
    """local unitary W_1 x W_2 x ... (keeps the product / Weyl structure)."""
    out = np.eye(1, dtype=np.complex128)
    for d in sys:
        out = np.kron(out, frame(kind, d, rs))
    return out


# ---------------------------------------------------------------- Weyl (generalised Pauli) unitaries
def weyl1(d):
    w = np.exp(2j * np.pi / d)
    Z = np.diag([w ** k for k in range(d)])
    X = np.roll(np.eye(d), 1, axis=0)
    return [np.linalg.matrix_power(X, a) @ np.linalg.matrix_power(Z, b) for a in range(d) for b in range(d)]


@functools.lru_cache(maxsize=None)
def weyl(sys):
    ops = [np.eye(1, dtype=np.complex128)]
    for d in sys:
        ops = [np.kron(o, w) for o in ops for w in weyl1(d)]
    return ops


def hs_of_map(shape, kraus_weights):
    """HS matrix (library basis) of rho |-> sum_k p_k K_k rho K_k^dagger for [(p_k, K_k)] (p_k may be negative)."""
    B = basis_dense(shape)
    n = len(B)
    hs = np.zeros((n, n))
    for b in range(n):
        img = sum(p * (K @ B[b] @ K.conj().T) for p, K in kraus_weights)
        for a in range(n):
            hs[a, b] = np.trace(B[a].conj().T @ img).real
    return hs


def choi_of_map(kraus_weights):
    """sum_k p_k |K_k>><<K_k| (row-major vectorisation): its spectrum is d * p_k for orthogonal unitaries."""
    return sum(p * np.outer(K.reshape(-1), K.reshape(-1).conj()) for p, K in kraus_weights)
