"""Layer S concretisation: operators given by (frame, spectrum) as library objects.

Unitarily covariant quantities (trace, spectrum, Choi spectrum) are set exactly in spectral
coordinates and rotated by seeded frames (identity, real rotation, generic complex unitary); the
library's coefficient vectors are obtained by expanding in the basis matrices the library reports."""
import functools
import itertools

import numpy as np

from harness import qobjs

SHAPES = {"q": (2,), "t": (3,), "qq": (2, 2), "qt": (2, 3)}


def csys_of(shape):
    sys = SHAPES[shape]
    if sys == (2,):
        return qobjs.csys("qubit", 1)
    if sys == (3,):
        return qobjs.csys("qutrit", 1)
    return qobjs.csys_mixed(sys)


@functools.lru_cache(maxsize=None)
def basis_dense(shape):
    c = csys_of(shape)
    return [np.asarray(b.toarray() if hasattr(b, "toarray") else b, dtype=np.complex128) for b in c.basis()]


def vec_of(shape, X):
    """coefficients of the (Hermitian) matrix X in the library's orthonormal basis."""
    return np.array([np.trace(B.conj().T @ X).real for B in basis_dense(shape)], dtype=np.float64)


def haar(d, rs):
    z = (rs.randn(d, d) + 1j * rs.randn(d, d)) / np.sqrt(2)
    q, r = np.linalg.qr(z)
    ph = np.diag(r) / np.abs(np.diag(r))
    return q * ph


def frame(kind, d, rs):
    if kind == "identity":
        return np.eye(d, dtype=np.complex128)
    if kind == "real":
        q, _ = np.linalg.qr(rs.randn(d, d))
        return q.astype(np.complex128)
    return haar(d, rs)


def local_frame(kind, sys, rs):
    """local unitary W_1 x W_2 x ... (keeps the product / Weyl structure)."""
    out = np.eye(1, dtype=np.complex128)
    for d in sys:
        out = np.kron(out, frame(kind, d, rs))
    return out


# ---------------------------------------------------------------- Weyl (generalised Pauli) unitaries
def weyl1(d):
    w = np.exp(2j * np.pi / d)
    Z = np.diag([w ** k for k in range(d)])
    X = np.roll(np.eye(d), 1, axis=0)
    return [np.linalg.matrix_power(X, a) @ np.linalg.matrix_power(Z, b) for a in range(d) for b in range(d)]


@functools.lru_cache(maxsize=None)
def weyl(sys):
    ops = [np.eye(1, dtype=np.complex128)]
    for d in sys:
        ops = [np.kron(o, w) for o in ops for w in weyl1(d)]
    return ops


def hs_of_map(shape, kraus_weights):
    """HS matrix (library basis) of rho |-> sum_k p_k K_k rho K_k^dagger for [(p_k, K_k)] (p_k may be negative)."""
    B = basis_dense(shape)
    n = len(B)
    hs = np.zeros((n, n))
    for b in range(n):
        img = sum(p * (K @ B[b] @ K.conj().T) for p, K in kraus_weights)
        for a in range(n):
            hs[a, b] = np.trace(B[a].conj().T @ img).real
    return hs


def choi_of_map(kraus_weights):
    """sum_k p_k |K_k>><<K_k| (row-major vectorisation): its spectrum is d * p_k for orthogonal unitaries."""
    return sum(p * np.outer(K.reshape(-1), K.reshape(-1).conj()) for p, K in kraus_weights)


# ---------------------------------------------------------------- objects from spectral vectors (C04, C05)
class Fragment:
    """One covariant fragment: builds a library object from a rational spectral vector u and reads the
    spectral vector of a library object back (plus how far the object is from the fragment)."""

    def __init__(self, typ, shape, n, rs, frame_kind="complex", m=None):
        self.typ, self.shape, self.n = typ, shape, n
        self.sys = SHAPES[shape]
        self.d = int(np.prod(self.sys))
        self.c = csys_of(shape)
        if typ == "state":
            assert n == self.d
            self.U = frame(frame_kind, self.d, rs)
        elif typ == "povm":
            self.m = n
            self.U = frame(frame_kind, self.d, rs)
        else:
            self.W = local_frame(frame_kind, self.sys, rs)
            self.ops = [self.W @ K for K in weyl(self.sys)]
            self.nw = len(self.ops)
            self.m = 1 if typ == "gate" else n // self.nw
            assert self.m * self.nw == n
            self.basis_hs = [hs_of_map(shape, [(1.0, K)]) for K in self.ops]
            self.norm2 = float(np.sum(self.basis_hs[0] ** 2))

    # scale between the Euclidean metric on u and the stacked-parameter metric of the library
    def metric(self):
        return 1.0 if self.typ == "state" else (float(self.d) if self.typ == "povm" else self.norm2)

    def perm(self, u, j):
        return np.roll(np.asarray(u, dtype=float), j)

    def build(self, u, **kw):
        from quara.objects.state import State
        from quara.objects.povm import Povm
        from quara.objects.gate import Gate
        from quara.objects.mprocess import MProcess
        u = np.asarray(u, dtype=np.float64)
        kw.setdefault("is_physicality_required", False)
        if self.typ == "state":
            return State(self.c, vec_of(self.shape, (self.U * u) @ self.U.conj().T), **kw)
        if self.typ == "povm":
            # diagonal position j carries the vector u cyclically shifted by j
            E = np.array([self.perm(u, j) for j in range(self.d)]).T        # E[x, j]
            return Povm(self.c, [vec_of(self.shape, (self.U * E[x]) @ self.U.conj().T) for x in range(self.m)], **kw)
        if self.typ == "gate":
            return Gate(self.c, sum(p * B for p, B in zip(u, self.basis_hs)), **kw)
        hss = [sum(p * B for p, B in zip(u[x * self.nw:(x + 1) * self.nw], self.basis_hs)) for x in range(self.m)]
        return MProcess(self.c, hss, **kw)

    def read(self, obj):
        """(spectral vector, distance of the object from the fragment)."""
        B = basis_dense(self.shape)
        if self.typ == "state":
            X = sum(c * b for c, b in zip(obj.vec, B))
            D = self.U.conj().T @ X @ self.U
            return np.real(np.diag(D)), float(np.linalg.norm(D - np.diag(np.diag(D))))
        if self.typ == "povm":
            cols = []
            off = 0.0
            for v in obj.vecs:
                X = sum(c * b for c, b in zip(v, B))
                D = self.U.conj().T @ X @ self.U
                cols.append(np.real(np.diag(D)))
                off += float(np.linalg.norm(D - np.diag(np.diag(D))))
            E = np.array(cols)                   # E[x, j]
            # position 0 carries u itself; the other positions must be its cyclic shifts
            u = E[:, 0]
            for j in range(1, self.d):
                off += float(np.linalg.norm(E[:, j] - np.roll(u, j)))
            return u, off
        hss = [obj.hs] if self.typ == "gate" else list(obj.hss)
        out = []
        off = 0.0
        for hs in hss:
            w = np.array([float(np.sum(hs * Bk)) / self.norm2 for Bk in self.basis_hs])
            off += float(np.linalg.norm(hs - sum(p * Bk for p, Bk in zip(w, self.basis_hs))))
            out.extend(w)
        return np.array(out), off


def fragments_for(n, rs, tier="quick"):
    """the covariant fragments whose spectral vectors have length n."""
    kinds = ["identity", "real", "complex"]
    out = []
    def add(typ, shape):
        out.append(Fragment(typ, shape, n, rs, kinds[len(out) % 3] if len(out) % 4 else "complex"))
    if n == 2:
        add("state", "q"); add("povm", "q"); add("povm", "t")
    elif n == 3:
        add("state", "t"); add("povm", "q"); add("povm", "t")
    elif n == 4:
        add("state", "qq"); add("gate", "q"); add("povm", "q")
    elif n == 5:
        add("povm", "q")
    elif n == 6:
        add("state", "qt")
    elif n == 8:
        add("mprocess", "q")
    elif n == 9:
        add("gate", "t")
    elif n == 12:
        add("mprocess", "q")          # three outcomes
    return out
