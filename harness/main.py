"""./check <id> [--tier quick|thorough] [--replay <path>] [--selftest]"""
import argparse
import importlib
import os
import sys
import traceback

from harness import core


def main(argv=None):
    ap = argparse.ArgumentParser()
    ap.add_argument("pid")
    ap.add_argument("--tier", default=os.environ.get("VERIF_TIER") or "quick", choices=["quick", "thorough"])
    ap.add_argument("--replay", default=None)
    ap.add_argument("--selftest", action="store_true")
    a = ap.parse_args(argv)
    seed = int(os.environ.get("VERIF_SEED") or 20260927)
    pid = a.pid.upper()
    try:
        mod = importlib.import_module("harness.props." + pid.lower())
    except ImportError:
        traceback.print_exc()
        print("machinery failure: no check module for %s" % pid)
        return 2
    chk = core.Check(pid, a.tier, seed)
    try:
        if a.selftest:
            return mod.selftest(chk)
        if a.replay:
            return mod.replay(chk, a.replay)
        return mod.run(chk)
    except core.MachineryError as e:
        print("machinery failure in %s: %s" % (pid, e))
        return 2
    except Exception as e:
        traceback.print_exc()
        # An exception raised INSIDE the library under test, on inputs every harness takes from the specification (all of them
        # accepted by the unchanged tree), is the library refusing an operation that is defined: a violation, not a failure of
        # the machinery.  Anything raised by the harness itself stays a machinery failure.
        repo = os.path.realpath(os.environ.get("QUARA_REPO") or "/repo")
        libdir = os.path.join(repo, "quara") + os.sep
        here = os.path.dirname(os.path.abspath(__file__)) + os.sep
        tb = traceback.extract_tb(e.__traceback__)
        last_lib = max([i for i, f in enumerate(tb) if os.path.realpath(f.filename).startswith(libdir)], default=-1)
        last_harness = max([i for i, f in enumerate(tb) if os.path.abspath(f.filename).startswith(here)], default=-1)
        if last_lib > last_harness:
            # raised while library code was running (possibly inside numpy / scipy called by it), not by the harness
            where = tb[last_lib]
            at = tb[last_harness] if last_harness >= 0 else where
            chk.violation("library_exception:%s:%s" % (os.path.basename(where.filename), where.name),
                          "%s.%s raised %r on a specification-generated input (called from %s:%d); the check stopped here" % (
                              os.path.basename(where.filename), where.name, e, os.path.basename(at.filename), at.lineno),
                          dict(exception=repr(e), traceback=[(os.path.basename(f.filename), f.lineno, f.name) for f in tb[-8:]]))
            chk.assumptions.append("the run was cut short by an exception inside the library; coverage figures are partial")
            return chk.finish(rule="aborted by a library exception")
        print("machinery failure in %s (unexpected exception)" % pid)
        return 2


if __name__ == "__main__":
    sys.exit(main())
