"""./check <id> [--tier quick|thorough] [--replay <path>] [--selftest]"""
import argparse
import importlib
import os
import sys
import traceback

from harness import core


def main(argv=None):
    ap = argparse.ArgumentParser()
    ap.add_argument("pid")
    ap.add_argument("--tier", default=os.environ.get("VERIF_TIER") or "quick", choices=["quick", "thorough"])
    ap.add_argument("--replay", default=None)
    ap.add_argument("--selftest", action="store_true")
    a = ap.parse_args(argv)
    seed = int(os.environ.get("VERIF_SEED") or 20260927)
    pid = a.pid.upper()
    try:
        mod = importlib.import_module("harness.props." + pid.lower())
    except ImportError:
        traceback.print_exc()
        print("machinery failure: no check module for %s" % pid)
        return 2
    chk = core.Check(pid, a.tier, seed)
    try:
        if a.selftest:
            return mod.selftest(chk)
        if a.replay:
            return mod.replay(chk, a.replay)
        return mod.run(chk)
    except core.MachineryError as e:
        print("machinery failure in %s: %s" % (pid, e))
        return 2
    except Exception:
        traceback.print_exc()
        print("machinery failure in %s (unexpected exception)" % pid)
        return 2


if __name__ == "__main__":
    sys.exit(main())
