"""Harness core: TLC runner, emitted-case parser, trace validation, evidence and findings.

Exit codes of a check: 0 = property held on everything explored (KNOWN-FINDING lines allowed),
1 = violation (a `VIOLATION property=<id> replay=<path>` line was printed), 2 = machinery failure.
"""
import json
import os
import re
import shutil
import subprocess
import sys
import tempfile
import time
import hashlib

VERIF = os.path.dirname(os.path.dirname(os.path.abspath(__file__)))
SPEC = os.path.join(VERIF, "spec")
TLA_CP = "/opt/veriftools/tla/tla2tools.jar:/opt/veriftools/tla/CommunityModules-deps.jar"


class MachineryError(Exception):
    pass


# ----------------------------------------------------------------------------------------------
# TLC
# ----------------------------------------------------------------------------------------------
class TlcResult:
    def __init__(self):
        self.generated = 0
        self.distinct = 0
        self.depth = 0
        self.ok = False
        self.violated = None  # name of violated invariant / property
        self.out = ""
        self.emitted = []  # decoded JSON objects printed with PrintT(ToJson(..))
        self.wall = 0.0
        self.coverage = {}

    def as_dict(self):
        return dict(states=self.distinct, transitions=self.generated, depth=self.depth,
                    wall_s=round(self.wall, 2))


_RE_STATES = re.compile(r"(\d+) states generated, (\d+) distinct states found")
_RE_DEPTH = re.compile(r"The depth of the complete state graph search is (\d+)")
_RE_INV = re.compile(r"Invariant (\S+) is violated")
_RE_PROP = re.compile(r"(Action|Temporal) propert(?:y|ies) (\S*) ?(?:was|were) violated|Action property (\S+) is violated")


def scratch_dir(prefix="qv"):
    base = os.environ.get("TMPDIR", "/tmp")
    return tempfile.mkdtemp(prefix=prefix + "_", dir=base)


def run_tlc(module, cfg, workers=1, env=None, timeout=3000, extra=(), simulate=None,
            deadlock=False, cwd=None, want_emitted=True, heap="8g"):
    """Run TLC on spec/<module>.tla with config <cfg>.  Raises MachineryError on parse errors,
    crashes and timeouts; returns a TlcResult (ok False + violated set when a property fails)."""
    module_path = module if os.path.isabs(module) else os.path.join(SPEC, module)
    cfg_path = cfg if os.path.isabs(cfg) else os.path.join(SPEC, cfg)
    if not module_path.endswith(".tla"):
        module_path += ".tla"
    meta = scratch_dir("tlcmeta")
    cmd = ["java", "-XX:+UseParallelGC", "-Xmx" + heap, "-Xss64m",
           "-DTLA-Library=" + SPEC + os.pathsep + os.path.join(SPEC, "mc") + os.pathsep + os.path.join(SPEC, "trace"),
           "-cp", TLA_CP, "tlc2.TLC",
           "-workers", str(workers), "-metadir", meta, "-noGenerateSpecTE", "-config", cfg_path]
    if not deadlock:
        cmd += ["-deadlock"]  # -deadlock DISABLES deadlock checking
    if simulate:
        cmd += ["-simulate", simulate]
    cmd += list(extra)
    cmd += [module_path]
    e = dict(os.environ)
    if env:
        e.update({k: str(v) for k, v in env.items()})
    t0 = time.time()
    try:
        p = subprocess.run(cmd, cwd=cwd or os.path.dirname(module_path), env=e, capture_output=True,
                           text=True, timeout=timeout)
    except subprocess.TimeoutExpired:
        shutil.rmtree(meta, ignore_errors=True)
        subprocess.run(["pkill", "-f", meta], capture_output=True)
        raise MachineryError("TLC timeout on %s" % module)
    finally:
        shutil.rmtree(meta, ignore_errors=True)
    r = TlcResult()
    r.wall = time.time() - t0
    r.out = p.stdout + p.stderr
    for m in _RE_STATES.finditer(r.out):
        r.generated, r.distinct = int(m.group(1)), int(m.group(2))
    m = _RE_DEPTH.search(r.out)
    if m:
        r.depth = int(m.group(1))
    m = _RE_INV.search(r.out)
    if m:
        r.violated = m.group(1)
    else:
        m = re.search(r"Action property (\S+) is violated", r.out)
        if m:
            r.violated = m.group(1)
        elif "Temporal properties were violated" in r.out:
            r.violated = "temporal"
        elif "The postcondition" in r.out and "violated" in r.out or "Postcondition" in r.out and "violated" in r.out:
            r.violated = "postcondition"
        elif "Deadlock reached" in r.out:
            r.violated = "deadlock"
    finished = ("Model checking completed. No error has been found." in r.out) or \
               ("Finished in" in r.out and r.violated is None and "Error:" not in r.out)
    r.ok = finished and r.violated is None
    if want_emitted:
        r.emitted = parse_emitted(p.stdout)
    if not r.ok and r.violated is None:
        tail = "\n".join(r.out.strip().splitlines()[-40:])
        raise MachineryError("TLC failed on %s (%s):\n%s" % (module, cfg, tail))
    return r


def parse_emitted(stdout):
    """Lines printed by PrintT(ToJson(x)) are TLA+ strings: "...json with \\" escapes..."."""
    out = []
    for line in stdout.splitlines():
        line = line.strip()
        if len(line) >= 2 and line[0] == '"' and line[-1] == '"' and (line[1] in "{["):
            try:
                s = json.loads(line)
                out.append(json.loads(s))
            except Exception:
                # TLC does not escape everything JSON-style; fall back
                try:
                    s = line[1:-1].replace('\\"', '"').replace("\\\\", "\\")
                    out.append(json.loads(s))
                except Exception:
                    raise MachineryError("cannot decode emitted line: %r" % line[:200])
    return out


def sany(module):
    module_path = module if os.path.isabs(module) else os.path.join(SPEC, module)
    p = subprocess.run(["java", "-DTLA-Library=" + SPEC + os.pathsep + os.path.join(SPEC, "mc") + os.pathsep + os.path.join(SPEC, "trace"),
                        "-cp", TLA_CP, "tla2sany.SANY", module_path],
                       capture_output=True, text=True, cwd=os.path.dirname(module_path))
    ok = p.returncode == 0 and "Semantic errors" not in p.stdout and "Parse Error" not in p.stdout \
        and "***Parse Error***" not in p.stdout and "Fatal errors" not in p.stdout
    return ok, p.stdout + p.stderr


def validate_traces(module, cfg, events, workers=1, timeout=3000, env=None, keep=None):
    """Write `events` (list of dicts) as ndjson, run the trace spec (which reads IOEnv.TRACE_FILE),
    return (TlcResult, path).  The trace spec must accept by POSTCONDITION / invariant."""
    d = scratch_dir("trace")
    path = os.path.join(d, "trace.ndjson")
    with open(path, "w") as f:
        for ev in events:
            f.write(json.dumps(ev, separators=(",", ":")) + "\n")
    e = {"TRACE_FILE": path}
    if env:
        e.update(env)
    try:
        r = run_tlc(module, cfg, workers=workers, env=e, timeout=timeout)
    finally:
        if keep:
            os.makedirs(os.path.dirname(keep), exist_ok=True)
            shutil.copy(path, keep)
        shutil.rmtree(d, ignore_errors=True)
    return r


# ----------------------------------------------------------------------------------------------
# Check bookkeeping
# ----------------------------------------------------------------------------------------------
def load_known_findings():
    p = os.path.join(VERIF, "known_findings.json")
    if not os.path.exists(p):
        return []
    with open(p) as f:
        return json.load(f).get("findings", [])


class Check:
    def __init__(self, pid, tier, seed):
        self.pid = pid
        self.tier = tier
        self.seed = seed
        self.t0 = time.time()
        self.states = 0
        self.transitions = 0
        self.tlc_runs = []
        self.replayed = 0          # spec behaviours / cases replayed into the implementation
        self.validated = 0         # implementation traces validated against the spec
        self.evaluations = 0
        self.nontrivial = set()
        self.samples = []
        self.violations = []       # (key, message, replay_path)
        self.known_hits = {}
        self.assumptions = []
        self.notes = {}
        self.known = [k for k in load_known_findings() if k.get("property") == pid]
        # VERIF_OUT redirects evidence / replay files (used when checks are run against a scratch copy of the repo)
        self._out = os.environ.get("VERIF_OUT") or VERIF
        self._replay_dir = os.path.join(self._out, "replays")

    # --- TLC ---
    def tlc(self, module, cfg, **kw):
        label = kw.pop("label", os.path.basename(cfg))
        r = run_tlc(module, cfg, **kw)
        self.states += r.distinct
        self.transitions += r.generated
        d = r.as_dict()
        d["instance"] = label
        d["ok"] = r.ok
        self.tlc_runs.append(d)
        if not r.ok:
            # A violated invariant on the specification itself is a machinery/design error unless
            # the caller expects it (vacuity witnesses call run_tlc directly).
            raise MachineryError("specification instance %s violates %s:\n%s" % (
                label, r.violated, "\n".join(r.out.strip().splitlines()[-30:])))
        return r

    # --- cases ---
    def sample(self, obj, limit=6):
        if len(self.samples) < limit:
            self.samples.append(obj)

    def count(self, n=1, nontrivial_key=None):
        self.evaluations += n
        if nontrivial_key is not None:
            self.nontrivial.add(nontrivial_key)

    def violation(self, key, message, replay=None):
        """key: stable signature of the failing call site / input class (used by known findings)."""
        for k in self.known:
            if k.get("status", "known") == "known" and _match(k["key"], key):
                self.known_hits.setdefault(k["key"], [k, 0])
                self.known_hits[k["key"]][1] += 1
                return False
        path = None
        if replay is not None:
            os.makedirs(self._replay_dir, exist_ok=True)
            h = hashlib.sha1((key + json.dumps(replay, sort_keys=True, default=str)).encode()).hexdigest()[:10]
            path = os.path.join(self._replay_dir, "%s_%s.json" % (self.pid, h))
            with open(path, "w") as f:
                json.dump(dict(property=self.pid, key=key, message=message, case=replay), f, indent=1, default=str)
        self.violations.append((key, message, path))
        return True

    def finish(self, level="model_checking", exhaustive=None, rule=None):
        wall = time.time() - self.t0
        for key, (k, n) in sorted(self.known_hits.items()):
            print("KNOWN-FINDING: property=%s %s [%s] (%d cases)" % (self.pid, k.get("what", ""), key, n))
        seen = set()
        for key, msg, path in self.violations:
            if key in seen:
                continue
            seen.add(key)
            if len(seen) <= 12:
                print("VIOLATION property=%s replay=%s key=%s :: %s" % (self.pid, path or "-", key, msg[:400]))
        if len(seen) > 12:
            print("... %d further distinct violation keys of %s (see evidence file)" % (len(seen) - 12, self.pid))
        cov = dict(
            states=max(self.states, 0),
            transitions=max(self.transitions, 0),
            traces_validated_against_impl=self.validated + self.replayed,
            spec_behaviours_replayed_into_impl=self.replayed,
            impl_traces_validated_by_tlc=self.validated,
            evaluations=self.evaluations,
            distinct_nontrivial=len(self.nontrivial),
            rule=rule or "",
            samples=self.samples or ["(no sample recorded)"],
            tlc_runs=self.tlc_runs,
            known_findings_hit={k: v[1] for k, v in self.known_hits.items()},
            violation_keys=sorted(seen),
        )
        if exhaustive is not None:
            cov["exhaustive"] = bool(exhaustive)
        cov.update(self.notes)
        ev = dict(property_id=self.pid, tier=self.tier, seed=self.seed, level=level, coverage=cov,
                  assumptions=self.assumptions, wall_s=round(wall, 2), violations=len(seen))
        os.makedirs(os.path.join(self._out, "evidence"), exist_ok=True)
        with open(os.path.join(self._out, "evidence", self.pid + ".json"), "w") as f:
            json.dump(ev, f, indent=1, default=str)
        print("%s tier=%s seed=%d states=%d transitions=%d replayed=%d validated=%d evals=%d known=%d violations=%d wall=%.1fs" % (
            self.pid, self.tier, self.seed, self.states, self.transitions, self.replayed, self.validated,
            self.evaluations, len(self.known_hits), len(seen), wall))
        return 1 if seen else 0


def _match(pattern, key):
    if pattern.endswith("*"):
        return key.startswith(pattern[:-1])
    return pattern == key
