"""Real quara objects used by the replay / recording harness (built once per process)."""
import functools


@functools.lru_cache(maxsize=None)
def csys(mode="qubit", num=1, ids=None):
    from quara.objects.composite_system_typical import generate_composite_system
    return generate_composite_system(mode, num, ids_esys=list(ids) if ids else None)


def gen(mode, name, c_sys, ids=None):
    from quara.objects.qoperation_typical import generate_qoperation
    return generate_qoperation(mode=mode, name=name, c_sys=c_sys, ids=ids)


@functools.lru_cache(maxsize=None)
def pool_1qubit():
    c = csys("qubit", 1)
    p = {
        "csys": c,
        "state": [gen("state", n, c) for n in ("z0", "x0", "y0")],
        "povm": [gen("povm", n, c) for n in ("z", "x", "y")],
        "gate": [gen("gate", n, c) for n in ("x90", "hadamard", "y90")],
        "mprocess": [gen("mprocess", n, c) for n in ("z-type1", "x-type2")],
    }
    p["tester_states"] = [gen("state", n, c) for n in ("x0", "y0", "z0", "z1")]
    p["tester_povms"] = [gen("povm", n, c) for n in ("x", "y", "z")]
    return p
