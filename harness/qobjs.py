"""Real quara objects used by the replay / recording harness (built once per process)."""
import functools


@functools.lru_cache(maxsize=None)
def csys(mode="qubit", num=1, ids=None):
    from quara.objects.composite_system_typical import generate_composite_system
    return generate_composite_system(mode, num, ids_esys=list(ids) if ids else None)


def gen(mode, name, c_sys, ids=None):
    from quara.objects.qoperation_typical import generate_qoperation
    return generate_qoperation(mode=mode, name=name, c_sys=c_sys, ids=ids)


@functools.lru_cache(maxsize=None)
def pool_1qubit():
    c = csys("qubit", 1)
    p = {
        "csys": c,
        "state": [gen("state", n, c) for n in ("z0", "x0", "y0")],
        "povm": [gen("povm", n, c) for n in ("z", "x", "y")],
        "gate": [gen("gate", n, c) for n in ("x90", "hadamard", "y90")],
        "mprocess": [gen("mprocess", n, c) for n in ("z-type1", "x-type2")],
    }
    p["tester_states"] = [gen("state", n, c) for n in ("x0", "y0", "z0", "z1")]
    p["tester_povms"] = [gen("povm", n, c) for n in ("x", "y", "z")]
    return p


@functools.lru_cache(maxsize=None)
def csys_mixed(dims, ids=None):
    """Composite system with elemental systems of the given dimensions (2: Pauli, 3: Gell-Mann)."""
    from quara.objects.composite_system import CompositeSystem
    from quara.objects.elemental_system import ElementalSystem
    from quara.objects.matrix_basis import get_normalized_pauli_basis, get_normalized_gell_mann_basis
    ids = ids or tuple(range(len(dims)))
    es = []
    for i, d in zip(ids, dims):
        b = get_normalized_pauli_basis() if d == 2 else get_normalized_gell_mann_basis()
        es.append(ElementalSystem(i, b))
    return CompositeSystem(es)


QUBIT_TESTER_STATES = ("x0", "y0", "z0", "z1")
QUBIT_TESTER_POVMS = ("x", "y", "z")
QUTRIT_TESTER_STATES = ("01z0", "12z0", "02z1", "01x0", "01y0", "12x0", "12y0", "02x0", "02y0")
QUTRIT_TESTER_POVMS = ("01x3", "01y3", "z3", "12x3", "12y3", "02x3", "02y3")


@functools.lru_cache(maxsize=None)
def tester_states(mode="qubit"):
    c = csys(mode, 1)
    names = QUBIT_TESTER_STATES if mode == "qubit" else QUTRIT_TESTER_STATES
    return [gen("state", n, c) for n in names]


@functools.lru_cache(maxsize=None)
def tester_povms(mode="qubit"):
    c = csys(mode, 1)
    names = QUBIT_TESTER_POVMS if mode == "qubit" else QUTRIT_TESTER_POVMS
    return [gen("povm", n, c) for n in names]


@functools.lru_cache(maxsize=None)
def povm3_qubit():
    """{1/2 |0><0|, 1/2 |+><+|, rest}: three outcomes, rank 1 / 1 / 2, non-commuting."""
    import numpy as np
    from quara.objects.povm import Povm
    from harness import spectral
    e1 = 0.5 * np.array([[1, 0], [0, 0]], dtype=complex)
    e2 = 0.25 * np.array([[1, 1], [1, 1]], dtype=complex)
    e3 = np.eye(2) - e1 - e2
    return Povm(csys("qubit", 1), [spectral.vec_of("q", e) for e in (e1, e2, e3)])
