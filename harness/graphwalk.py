"""Walks over a TLC-emitted labelled transition graph.

Each emitted transition is a dict with keys from / act / arg / allowed (or exp) / to.  `cover_walks`
yields walks (lists of transitions) such that every transition is taken at least once, each walk
starting in a state the replay can construct directly (by default: any state), followed by seeded
random walks of a given depth (history sampling)."""
import json
import random
from collections import defaultdict


def key(state):
    return json.dumps(state, sort_keys=True, separators=(",", ":"))


class Graph:
    def __init__(self, transitions):
        self.trans = transitions
        self.out = defaultdict(list)
        for i, t in enumerate(transitions):
            self.out[key(t["from"])].append(i)
        self.nodes = set(self.out)
        for t in transitions:
            self.nodes.add(key(t["to"]))

    def cover_walks(self, depth, rng, starts=None):
        """Greedy edge cover: walks of length <= depth; prefers unvisited edges."""
        unvisited = set(range(len(self.trans)))
        start_nodes = sorted(starts) if starts is not None else sorted(self.out)
        walks = []
        while unvisited:
            i0 = min(unvisited)
            t0 = self.trans[i0]
            node = key(t0["from"])
            if starts is not None and node not in starts:
                # not directly constructible: skip edge cover for it (random walks may reach it)
                unvisited.discard(i0)
                continue
            walk = []
            cur = node
            for _ in range(depth):
                cands = [i for i in self.out.get(cur, []) if i in unvisited]
                if not cands:
                    break
                i = cands[0] if not walk else rng.choice(cands)
                if not walk:
                    i = i0
                unvisited.discard(i)
                walk.append(self.trans[i])
                cur = key(self.trans[i]["to"])
            walks.append(walk)
        return walks

    def random_walks(self, n, depth, rng, starts=None):
        start_nodes = sorted(starts) if starts is not None else sorted(self.out)
        walks = []
        for _ in range(n):
            cur = rng.choice(start_nodes)
            walk = []
            for _ in range(depth):
                outs = self.out.get(cur, [])
                if not outs:
                    break
                i = rng.choice(outs)
                walk.append(self.trans[i])
                cur = key(self.trans[i]["to"])
            if walk:
                walks.append(walk)
        return walks
