#!/bin/sh
# Offline setup: parse every TLA+ module, byte-compile the harness.  Nothing is fetched.
cd "$(dirname "$0")"
fail=0
for f in spec/*.tla spec/mc/*.tla spec/trace/*.tla; do
  [ -f "$f" ] || continue
  out=$(cd "$(dirname "$f")" && java -DTLA-Library=/verif/spec:/verif/spec/mc:/verif/spec/trace -cp /opt/veriftools/tla/tla2tools.jar:/opt/veriftools/tla/CommunityModules-deps.jar tla2sany.SANY "$(basename "$f")" 2>&1)
  if echo "$out" | grep -q -E "Parse Error|Semantic errors|Fatal errors|Could not"; then echo "SANY FAILED: $f"; echo "$out" | tail -15; fail=1; fi
done
PYTHONDONTWRITEBYTECODE=1 /venv/bin/python - <<'PY' || fail=1
import sys, glob
ok = True
for f in glob.glob('harness/**/*.py', recursive=True):
    try:
        compile(open(f).read(), f, 'exec')
    except SyntaxError as e:
        print("syntax error", f, e); ok = False
sys.exit(0 if ok else 1)
PY
[ $fail = 0 ] && echo "setup ok"
exit $fail
