#!/usr/bin/env python3
"""Generates /verif/MANIFEST.json from the table below (single source for the interface)."""
import json, os
V = os.path.dirname(os.path.dirname(os.path.abspath(__file__)))

CHECKS = {}

def check(pid, text, note, technique, ref):
    CHECKS[pid] = dict(text=text, note=note, technique=technique, ref=ref)

check("C20",
      "TLC model-checks the schedule language (declarative rule == automaton, error classes, list rule, tomography shapes) and the Experiment setter machine (stored schedules always acceptable, rejected setters change nothing); the implementation is bound both ways: every word up to length 3 (4 thorough) over 26 concrete item tokens x list-size configurations is fed to Experiment and the four tomography constructors and each observed verdict is validated by TLC against QSchedule (Trace_C20), and every transition of the Experiment machine emitted by TLC is replayed on a real Experiment (edge cover + seeded walks) comparing verdict class and state after the call. Tomography constructors are enumerated over all schedules up to length 4 in both tiers.",
      "Trusted: QSchedule.tla as the reading of the property; the harness' classification of exceptions; numpy integer indices not generated.",
      "TLA+ spec (QSchedule/QExperiment) model-checked with TLC; TLC trace validation of recorded constructor verdicts; replay of TLC-emitted transition graph",
      "DESIGN.md §4 C20")

check("C03",
      "TLC model-checks QIndex for every configuration (type x d x m x parametrisation flag): the variable layout is injective, covers exactly the cells not implied by the equality constraint, preserves the stacked order, the two index maps are mutually inverse, implied cells are affine in non-implied ones, and the total index of an operation set (states, gates, povms, mprocesses) is a bijection; every configuration's layout is printed by TLC and replayed: real State/Povm/Gate/MProcess objects and variable vectors carry distinct labels and to_var, to_stacked_vector, generate_from_var, convert_var_to_stacked_vector, convert_stacked_vector_to_var, all eight convert_*_index_* functions, calc_gradient, SetQOperations total-index functions and the tomography classes' num_variables must reproduce the layout exactly, for every index. Operation sets hold up to three items of one type with different variable lengths.",
      "Trusted: QIndex.tla layouts as the reading of the property; dimensions 2,3,4 (6 in thorough); labels are exactly representable floats so comparison is exact.",
      "TLA+ spec (QIndex) model-checked with TLC; replay of TLC-emitted layouts into the implementation (exhaustive per configuration)",
      "DESIGN.md §4 C03")

check("C16",
      "TLC model-checks QIndex/QProb: serial and multi-index maps mutually inverse and row-major on all shapes with <= 4 variables of 1..5 values; on every weight tensor of a bounded family (zeros and sub-threshold entries included) marginals keep the total, marginal of marginal is the marginal, and joint = marginal x conditional. Binding: every (shape, index) pair is run through index_util and the recorded lines are validated by TLC (Trace_C16); every tensor's exact marginals and conditionals printed by TLC are compared with MultinomialDistribution (constructor thresholding, accessors, marginalize, conditionalize) and validate_prob_dist.",
      "Trusted: QProb.tla definitions; tiny entries concretised as 1e-12; degenerate cases (no retained variable, null conditioning events) unconstrained.",
      "TLA+ spec (QIndex/QProb) model-checked with TLC; TLC trace validation of recorded index_util calls; replay of TLC-emitted tensors",
      "DESIGN.md §4 C16")

check("C14",
      "TLC model-checks the QRandom stream machine over all call histories to the bound (integer-seeded output a function of seed and arguments whatever happened before; generator and global streams advance and are the only ones touched; twin generators agree) and prints its transition graph, which is replayed on fifteen real entry points (data_generator, Experiment, MultinomialDistribution, the four tomography classes): outputs are hashed and must be in bijection with the specification's (stream, history, arguments) tokens, and numpy's global state / each generator's state must change exactly when the specification advances it. TLC also checks exact inverse-CDF sampling on dyadic grids (valid, monotone, exactly 2k grid points per outcome) and prefix-count empirical distributions for every data word and num_sums, and the expected outcome of every uniform / word is compared with the real sampler through a stand-in generator. Postcondition-only probes cover non-dyadic vectors with adversarial uniforms and multinomial-based generation.",
      "Trusted: QRandom/QData as the reading of the property; output hashes; statistical agreement is a fixed-bound sanity check.",
      "TLA+ spec (QRandom, QData) model-checked with TLC; replay of the TLC-emitted transition graph and of exact sampling cases into the implementation",
      "DESIGN.md §4 C14")

check("C13",
      "TLC model-checks QPool: cache tables with their build groups, global tolerance set/restore and one shared loss object / algorithm object re-configured per estimation; invariants: a re-used object equals a freshly configured one (NoResidue), cached extended weights belong to the weights held, pure operations / cache management / tolerance round trips change nothing else; a second instance configured the way the code originally ordered its configuration steps must violate NoResidue (vacuity witness). The transition graphs of the cache projection and of the estimation projection are replayed on one shared pool of real objects (all four types, physical and not, two systems): every call's result hash must equal the hash of the same call in a fresh world, every pool object / argument array / matrix basis / dataset must be byte-identical before and after every call, Delete must drop exactly one table, copies are written to and must not affect originals, matrix bases must refuse writes. Option objects are re-used across the estimations of a world; an estimation mode changes only the algorithm option (constraint flags); the pure actions query both orderings of the computational basis on the shared system.",
      "Trusted: result hashes (values rounded to 1e-10), byte-exact operand snapshots; the spec keeps the cache state exact by dropping tables that pure operations build on the way.",
      "TLA+ spec (QPool) model-checked with TLC incl. as-coded vacuity witness; replay of TLC-emitted transition graphs (edge cover + seeded long walks) into the implementation against a fresh-world oracle",
      "DESIGN.md §4 C13")

check("C08",
      "TLC model-checks QTomo on every configuration (four tomography types x tester sets incl. over-complete, deficient and mixed-outcome-count ones x schedule variants all/subset/permuted-with-repetition x both flags x m): the exact rational forward model (A, b), built from the QIndex layouts, satisfies A v + b = circuit statistics computed independently through the rebuilt object on an affine basis of variable space (origin, origin + e_k, a dense vector) and on the physical catalogue, has one column per variable and is normalised on the constraint. Binding: the testers are concretised from the emitted H-coordinates, the four tomography classes are constructed with the emitted schedules, calc_matA / calc_vecB are compared entry by entry with (A, b), num_variables and is_fullrank_matA with NumVar and the exact rational rank, and generate_prob_dists_sequence / calc_prob_dists / calc_prob_dist on the physical catalogue with the exact distributions per schedule.",
      "Trusted: QObjects catalogue (derived in TLA+ from kets / Kraus operators), coordinate scaling c_a = x_a sqrt(nu_a) in harness/coords.py; 1-qubit configurations (qutrit in thorough).",
      "TLA+ spec (QTomo over exact rationals) model-checked with TLC; replay of TLC-emitted configurations and exact (A, b) into the implementation",
      "DESIGN.md §4 C08")

check("C09",
      "TLC (MC_C09) computes per configuration the exact model, its rank over two prime fields and datasets with the estimate the specification expects: exact data of arbitrary variable vectors and of the physical catalogue, certificate data (exact data plus a null vector of A^T that TLC verifies), and for models up to 8 variables count-like / non-normalised data solved by exact rational Gauss-Jordan elimination; invariants: the expected estimate satisfies the normal equations exactly (residual orthogonal to the model), exact data are inverted, complete tester sets give full rank and deficient ones do not. Binding: LinearEstimator on the concretised testers must return those estimates (estimated_var, estimated_qoperation), sequence = single, independence of attached sample counts, refusal of rank-deficient sets, calc_mse_of_true_estimated = 0 on the catalogue. One estimator object serves many short-lived tomography objects (results must not depend on tomographies seen before); unknowns with two and three outcomes; rank-deficient configurations are outside the property and only recorded.",
      "Trusted: QTomo model (bound to the library by C08), modular rank, tolerance 1e-8 relative on estimates.",
      "TLA+ spec (QTomo + exact rational least squares) model-checked with TLC; replay of TLC-emitted datasets and exact estimates into the implementation",
      "DESIGN.md §4 C09")

check("C12",
      "TLC (MC_C12 over QLoss) computes per configuration, dataset, weighting mode and point the exact squared-error value / gradient / Hessian, the relative-entropy value as a list of coef*log(num/den) terms with per-row gradient and Hessian coefficients, and the exact weights of every mode (inverse sample / unbiased covariance by rational matrix inversion); invariants: exact central differences of the quadratic reproduce gradient and Hessian, weights symmetric, every non-identity mode changes the weights, the inverse-covariance weight inverts the regularised block, Hessian coefficients non-negative and consistent with gradient coefficients. Binding: generic and tomography-specialised losses of both families, configured through set_from_standard_qtomography_option_data, must reproduce value, gradient, Hessian and the weights held after configuration; fast = generic; finite differences of the reported value / gradient match the reported gradient / Hessian.",
      "Trusted: QLoss formulas as the reading of the property; model matrix via C08; dyadic data so that TLC's 32-bit rationals suffice; uniform outcome counts per configuration.",
      "TLA+ spec (QLoss over exact rationals) model-checked with TLC; replay of TLC-emitted exact loss quantities into four loss implementations",
      "DESIGN.md §4 C12")

check("C06",
      "TLC (MC_C06 over QAlgebra) builds every type-valid time-ordered chain up to length 4 (5 thorough) over an exact catalogue of states, gates, measurement processes with 2/3/4 outcomes and POVMs with 2/3/4 outcomes (non-commuting) and checks in every state that EVERY bracketing of the chain gives the value of the sequential application (associativity of the specification's binary Compose on channel-like / state-like / POVM-like / distribution segments), that results are normalised and non-negative, that the outcome shape lists the measuring items in time order, that a measurement process on a state has the statistics of its induced POVM, and that POVM -> measurement process (three back-action modes) induces the POVM back. Binding: every chain is rebuilt from the emitted H-coordinates as real physical objects and every bracketing is evaluated through nested compose_qoperations (plus the n-ary fold and Experiment.calc_prob_dist); results must equal the specification's value in the same serial order with a compatible shape, be physical, and ensembles must index states and probabilities alike. The POVM p5 (an element I/4 with a repeated eigenvalue) is in the exact Lueders catalogue of generate_mprocess.",
      "Trusted: QObjects catalogue and QAlgebra!Compose as the reading of the property; 1-qubit catalogue + multilinearity; a result that merges adjacent outcome axes is accepted.",
      "TLA+ spec (QAlgebra over exact rationals) model-checked with TLC (all bracketings); replay of every chain x bracketing into compose_qoperations",
      "DESIGN.md §4 C06")

check("C19",
      "TLC (MC_C19 over QStats): for every configuration, true object of the physical catalogue and sample-size list, exact multinomial expectations obtained by complete enumeration of count vectors equal the analytic formulas on the specification: normalisation, mean, covariance, MSE of the empirical distributions, MSE of the linear estimate in library coordinates (per-schedule expectation of |P_s(f_s - p_s)|^2 with the exact rational pseudo-inverse), object-mode MSE >= variable-mode MSE with equality iff nothing is implied, 1/N scaling. Binding: calc_covariance_mat_single/_total, calc_covariance_linear_mat_total, calc_mse_linear_analytical (both modes), calc_mse_empi_dists_analytical, calc_fisher_matrix(_total), calc_cramer_rao_bound and the sample-statistics helpers must reproduce the exact values.",
      "Trusted: QStats definitions; enumeration up to 4 samples per schedule (larger sizes through verified 1/N scaling); tester sets whose exact pseudo-inverse fits 32-bit rationals.",
      "TLA+ spec (QStats/QTomo, complete multinomial enumeration) model-checked with TLC; replay of TLC-emitted exact moments into the implementation",
      "DESIGN.md §4 C19")

check("C18",
      "TLC (MC_C18 over QLind) builds, with exact Gaussian-rational arithmetic, the GKSL superoperator of every catalogued (Hermitian H, dissipator matrix K, jump-operator set) combination for one qubit and checks on the specification: action on every catalogue state equals -i[H,rho] + sum c rho c^dagger - 1/2{c^dagger c, rho}; trace annihilation; H / J / K parts sum to the generator; extraction (HFromL, KFromL, J from K) inverts construction; physical verdict iff first row zero and K positive semidefinite (exact principal-minor test). Binding: every emitted generator is replayed into generate_effective_lindbladian_from_h/_hk/_hjk/_k/_jump_operators, calc_h_mat / calc_j_mat / calc_k_mat, calc_h/j/k/d_part in both basis modes, is_tp / is_cp / is_physical and constructor verdicts, calc_proj_eq_constraint (first row only), calc_proj_ineq_constraint (clipped dissipator spectrum, fixed point on physical generators, degenerate spectra in generic eigenframes), to_gate (physicality, exp(0), semigroup law over 4 orders of magnitude of t); qutrit and two-qubit generators through the numpy transcription of QLind!Gksl that is first validated against TLC's exact generators.",
      "Trusted: QLind definitions; the matrix exponential itself is not computed in the specification (relational checks only); one-qubit exact catalogue, larger systems seeded.",
      "TLA+ spec (QLind exact GKSL generators) model-checked with TLC; replay of every TLC-emitted generator into the EffectiveLindbladian implementation",
      "DESIGN.md §4 C18")

check("C17",
      "TLC (MC_C17 over QCatalogue) enumerates the name grammars of all catalogues (states 7/53/345/19/325, POVMs 3/10/27/8/64, gates 15/5/2/18/39204, 13 measurement processes, ensembles) and evaluates the textbook definition of every entry with a rational description exactly (scaled Gaussian-integer vectors and unitaries): norms, purity, Kronecker layout of product names, unitarity, trace preservation, Clifford signed permutations and relations, the named-state action table of every exact gate and role assignment (stabiliser closure; bit semantics of cx / toffoli / fredkin), projector algebra and completeness of POVMs, measurement processes inducing their named POVM, reset semantics of type-2 processes, near-miss names outside the grammar. Binding: library name lists = grammar; every name generated in every listed object form on its system and compared with the exact description (irrational entries: the same formulas in numpy plus relational identities), all forms mutually consistent and physical; Hamiltonian / Lindbladian catalogue exponentiates to the gate catalogue; every emitted action replayed through compose_qoperations; every near-miss name must raise.",
      "Trusted: textbook definitions as written in QCatalogue.tla; numpy evaluation for entries without a rational description; quick tier samples the 2-qutrit gate names (every 6th single name, 90 seeded pairs), thorough enumerates all 39204.",
      "TLA+ spec (QCatalogue grammars and exact textbook definitions) model-checked with TLC; replay of every TLC-emitted catalogue item, action and near-miss name into the name dispatchers",
      "DESIGN.md §4 C17")

check("C15",
      "TLC (MC_C15 over QSim): the simulation flow as a transition system - seed tree (one object stream per sample, one data stream per repetition), task pools at the four nested parallel levels with joblib's backends (processes copy at dispatch, threads share, deeper nesting sequential), loss objects with identity - explored exhaustively over all 16 worker configurations: the final result table equals the schedule-free table, every estimate is computed from its own repetition's data, repetitions / samples use different streams, pool widths respected, termination. Vacuity instances (shared loss objects on threads; integer seed restarted per repetition, QSimSingle) must be refuted. MC_C15_aux: exact depolarising noise on the catalogue ((1-p) ideal + p maximally mixed, equality constraints kept) and the decision table of the built-in physicality check. Binding: TLC-simulated schedules are replayed step by step through the real flow code by a controlled executor (one thread per task released in TLC's order, pickling where the model says process; loss-minimisation tasks split before algo.optimize) and must reproduce the serial result table and pass the configured n_jobs to the right level; real loky / threading runs at every level, repeated runs, re-estimation from stored data and an independent reconstruction of the seed tree must give the same table; single-setting entry point with integer / generator / setting seeds; noise rows and physicality-check rows replayed (fabricated results on either side of the thresholds); random-Lindbladian noise physical and a function of the stream. A flow configuration with data-dependent weights on data with zero counts makes the stored empirical distributions part of the compared table.",
      "Trusted: symbolic random values in QSim (bit-for-bit table comparison in the binding); joblib backend rule as observed with the installed joblib; OS schedules in real parallel runs are sampled, the controlled executor covers QSim's action granularity.",
      "TLA+ spec (QSim task pools / seed tree, QSimSingle, QNoise, QPhysCheck) model-checked with TLC; TLC-simulated schedules replayed through the real flow by a controlled executor; TLC trace validation (Trace_C15) of recorded real threaded runs; real parallel runs compared with the specification's schedule-free table",
      "DESIGN.md §4 C15")

check("C07",
      "TLC (MC_C07 over QIndex) enumerates, for 2-3 subsystems with dimensions in {2,3} (four qubits in the quick tier, four mixed subsystems in thorough), EVERY order of the arguments and EVERY grouping of the pairwise products and checks that folding the tree with the pairwise merge of one-hot objects lands at the canonical Kronecker index (ascending names, row-major radices d^2), that this index map is a bijection and equals the mixed-radix serial index. Binding: for every emitted configuration real factor objects on single named subsystems carry seeded generic entries, the tree is evaluated through pairwise tensor_product calls (and the n-ary call), and every entry of the result must be the product the canonical layout names - states, POVMs (outcome layout by ascending name), gates, measurement processes and mixed gate/measurement-process products (outcome layout as the reported shape says), state ensembles, matrix bases; product statistics (qubit x qubit, qubit x qutrit in both name orders) and the qutrit -> two-qubit embedding (physicality and all statistics) on the library's physical catalogue.",
      "Trusted: QIndex!KronIndex as the canonical layout; HS-matrix kinds restricted to total dimension^2 <= 64 (the library builds dense vec-permutation matrices).",
      "TLA+ spec (QIndex Kronecker layout, all orders x groupings) model-checked with TLC; replay of every configuration into tensor_product with labelled factors",
      "DESIGN.md §4 C07")

check("C01",
      "TLC (MC_C01 over QSpectral) judges abstract objects (type x shape x spectrum class x equality deviation x most negative eigenvalue) at tolerance 10^-k in exact decimal arithmetic with a guard band and checks: physical = eq and ineq; exactly physical objects are physical at every tolerance; gross violations never are; construction succeeds iff physical; and, as an action property over the Loosen step, that a looser tolerance never turns a forced TRUE verdict FALSE. Binding: every emitted case is concretised in seeded frames (identity / real / generic complex) as a State, a Povm with a common eigenframe, and Gates / MProcesses that are Weyl-diagonal maps in a local unitary frame (Choi spectrum = d x weights); the three verdict methods are called with explicit atol and through Settings.set_atol (restored), constructors with is_physicality_required=True must raise exactly on non-physical objects, origin objects must be physical and zero objects zero.",
      "Trusted: QSpectral guard-band reading of 'the absolute tolerance is the only slack'; covariance of spectra under the sampled frames; harness/spectral.py construction of maps from weights.",
      "TLA+ spec (QSpectral decimal verdicts, Loosen action property) model-checked with TLC; replay of TLC-emitted cases concretised in spectral coordinates",
      "DESIGN.md §4 C01")

check("C04",
      "TLC (MC_C04 over QProj): spectral clipping on every grid vector is feasible, idempotent, fixes exactly the feasible points and satisfies the variational inequality <x - Px, z - Px> <= 0 against every feasible grid competitor; the equality projections of the four object types (exact rationals in H-coordinates, a deterministic family of which a third is feasible) are feasible, idempotent, fix exactly the feasible objects and leave a residual orthogonal to every direction of the constraint subspace in the stacked-parameter metric. Binding: each case is concretised (spectral vectors in seeded identity / real / complex frames on every fragment of that size; rational objects through the coordinate maps) and calc_proj_ineq_constraint, calc_proj_eq_constraint, their static *_with_var forms under both flags and the func_calc_proj_* closures must return the exact projection, object-level = variable-level, no argument modified; the variational inequality is also evaluated against seeded non-commuting feasible competitors. Gate fragments (n = 4) are in the quick tier; measurement processes with four outcomes are also laid out as 2 x 2 grids (the outcome layout must not change the projection).",
      "Trusted: QProj definitions; nearest-point-ness against non-commuting competitors rests on the classical theorem plus the sampled inequality; scales by homogeneity.",
      "TLA+ spec (QProj: clipping / affine projections, variational inequality) model-checked with TLC; replay of exact projections into the implementation",
      "DESIGN.md §4 C04")

check("C05",
      "TLC (MC_C05 over QProj) runs the Dykstra-type machine of calc_proj_physical in exact rational arithmetic on spectral coordinates: K sweeps from every grid point and from a list of longer vectors, both projection orders; invariants: the closed form (simplex projection) is physical and nearest (variational inequality against every physical grid point, the vertices and the centre), physical inputs are fixed, conservation x0 = x + p + q, iterates feasible for their constraint, distance to the nearest physical point never increases (action property), err = 0 only at the fixed point. Binding: every behaviour is concretised on each fragment of matching size; the recorded iteration history (x, y, p, q, error_value) must equal the exact iterates sweep by sweep, the returned object must be the closed form to the accuracy its threshold implies (three thresholds, both orders, object- and variable-level under both flags), the stopping rule and termination are checked on the history, physical inputs come back unchanged; for generic non-commuting inputs: feasibility, order independence, object/variable agreement, fixed point, conservation and error-value consistency of the history. A three-outcome measurement-process fragment (n = 12) exercises the implied first row of the built-in parametrisation.",
      "Trusted: the covariant-fragment reduction (twirling argument) and QProj!ProjSimplexV; no closed form for non-commuting POVMs / generic gates (no SDP oracle used); termination observed, not proved.",
      "TLA+ spec (exact Dykstra machine + simplex projection) model-checked with TLC; replay of exact iterates against the recorded iteration history of the implementation",
      "DESIGN.md §4 C05")

check("C10",
      "TLC (MC_C10 over QOpt/QTomo): one-qubit state tomography with the tight tester set (x, y, z), both flags; datasets are Pythagorean directions x radii (the linear estimate then has a rational Bloch length, so the nearest physical state - simplex projection of the spectrum in the estimate's own eigenframe - is exact) and every few-shot count vector; invariants: the exact linear estimate fits the data and has the radius built in, the closed form is a state, fixes physical estimates and satisfies the variational inequality against the catalogue of physical states. Binding: on every emitted dataset the projected linear estimator (both projection orders) and loss minimisation with the three projected-gradient algorithms x both loss families (constraint options on) must return estimates physical to stopping accuracy; projected linear and (tight testers) squared-error backtracking must equal the exact nearest physical state; projected linear = calc_proj_physical(linear estimate) on all data; for POVM / process / measurement-process / qutrit-state tomography exact data of physical objects are returned and few-shot / degenerate data give physical estimates. The projected linear estimate must not depend on the projection order; exact data of a three-outcome measurement process under the built-in parametrisation are part of the exact-data clause.",
      "Trusted: closed form only for one-qubit QST with tight testers and rational Bloch length; tolerances 5e-6 (projection threshold) and 2e-4 (backtracking).",
      "TLA+ spec (QOpt closed-form nearest state + QTomo exact linear estimate) model-checked with TLC; replay of TLC-emitted datasets and exact estimates into all constrained estimators",
      "DESIGN.md §4 C10")

check("C11",
      "TLC (MC_C11 over QOpt) runs the backtracking projected-gradient machine of optimize() in exact rational arithmetic on the classical fragment (one-qubit state tomography, testers x/y/z, mu = 3/4, gamma = 3/10, data symmetric in x and y so that all iterates stay diagonal and the projection is the simplex projection), four stopping modes: the loss never increases (action property), every iterate is feasible, the accepted step satisfies the Armijo inequality, the run stops exactly when the stopping value is within the threshold, fixed points satisfy first-order optimality over the simplex grid, the closed-form optimum is feasible and no worse than any iterate. Binding: (A) every exact run is replayed on LossMinimizationEstimator + backtracking with the generic and the fast squared-error loss: fx, x, alpha, error_values and the stopping index must equal the exact run; (B) runs recorded over state / POVM / process tomography, both loss families, generic and fast, four stopping modes, 10..1e5 shots and exact data are turned into one trace line per iteration (Armijo at the accepted step, previous step rejected, loss not increased, iterate feasible, stop rule) and validated by TLC against the loop structure (Trace_C11); (C) final estimates: exact data of physical objects are returned, no physical competitor (truth, projected linear estimate, seeded physical points, CVXPY/SCS solution) achieves a lower loss, the CVXPY-backed estimator agrees.",
      "Trusted: exact iterates only on the classical one-qubit fragment; elsewhere the optimality inequality against competitors; structural booleans of (B) are computed with the loss's own value / gradient (validated by C12).",
      "TLA+ spec (exact backtracking machine) model-checked with TLC; replay of exact runs; TLC trace validation of recorded optimisation runs",
      "DESIGN.md §4 C11")

check("C02",
      "TLC (MC_C02 over QConv) takes, per system, every element of a complete basis of the input space (one-hot H-coordinate matrices / vectors; qutrit one-hots strided in the quick tier) plus dense small-integer inputs with sigma_y-type components: the Prepare step computes the row-major computational HS matrix from the action of the map on the matrix units; invariants: the algebraic Choi matrix (sum over basis pairs) equals the standard one (sum_kl G(E_kl) (x) E_kl) and the reshuffle of the HS matrix, is Hermitian for real maps, Choi -> HS inverts HS -> Choi, the column-major form is the re-indexed row-major one (spot-checked against the action), vector <-> matrix round trips, and for the exact CP catalogue sum_i K_i (x) conj K_i is the computational HS matrix. Binding: each emitted case goes through EVERY implementation the library offers for that conversion (three HS->Choi, three Choi->HS, Gate / MProcess methods, both computational orders, process matrix, convert_hs, convert_vec, convert_basis, density-matrix / POVM-matrix variants incl. the sparse ones, variable helpers under both flags) and must equal the one exact answer; exceptions are violations; linearity on dyadic combinations; Kraus conversion on the CP catalogue up to the channel generated; truncate_hs around its thresholds. The quick tier adds a two-qubit instance (MC_C02_qq: row- and column-major computational forms of dense and one-hot maps; composite systems take a separate comp_basis branch); measurement processes are converted in both orderings; the sparse inverse conversions are also called on column-major copies and transposed views of their argument.",
      "Trusted: QConv definitions and the coordinate scaling; Kraus conversion (non-linear) only on the catalogue.",
      "TLA+ spec (QConv over Gaussian rationals) model-checked with TLC; replay of TLC-emitted exact representations into every conversion implementation",
      "DESIGN.md §4 C02")

ALL = ["C%02d" % i for i in range(1, 21)]

def main():
    checks = []
    for pid in ALL:
        if pid not in CHECKS:
            continue
        c = CHECKS[pid]
        checks.append(dict(
            property_id=pid,
            quick_cmd="./check %s --tier quick" % pid,
            thorough_cmd="./check %s --tier thorough" % pid,
            evidence_file="/verif/evidence/%s.json" % pid,
            replay_cmd_template="./check %s --replay {path}" % pid,
            engine="tlc+replay",
            level_claimed=dict(category="model_checking", text=c["text"], design_ref=c["ref"]),
            level_note=c["note"],
            technique=c["technique"],
        ))
    na = [dict(property_id=p, reason="check not built yet in this round; planned with the same TLA+ specification (see DESIGN.md §4)")
          for p in ALL if p not in CHECKS]
    m = dict(
        version=1,
        setup_cmd="./setup.sh",
        hooks=dict(
            guard="QUARA_VERIF",
            enable="QUARA_VERIF=1 PYTHONPATH=/verif/harness/site:/verif:/repo (set by ./check; no source hooks in /repo - observation is at public call returns; the site shim only supplies scipy.linalg.kron which scipy 1.18 removed)",
            baseline_off_cmd="cd /repo && /venv/bin/python -m pytest -ra -q -p no:cacheprovider --timeout=900 --continue-on-collection-errors",
            source_commits=[],
            add_only=True,
        ),
        engines=[dict(name="tlc+replay", path="/verif/check", serves_properties=sorted(CHECKS),
                      kind_free_text="explicit TLA+ specification under /verif/spec model-checked by TLC; bound to the implementation by replaying TLC-emitted cases/transition graphs into quara and by TLC validation of traces recorded from quara")],
        checks=checks,
        notes="See DESIGN.md. Known genuine defects are listed in known_findings.json.",
        not_applicable=na,
    )
    with open(os.path.join(V, "MANIFEST.json"), "w") as f:
        json.dump(m, f, indent=1)
    print("MANIFEST.json:", len(checks), "checks;", len(na), "not claimed")

if __name__ == "__main__":
    main()
