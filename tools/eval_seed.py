#!/usr/bin/env python3
"""Confirm a seeded change (patch.diff + demo.py in a sub-agent's worktree) and run checks against it.

usage: tools/eval_seed.py <seed-id> <src-dir> <property> <needs...> -- <check ids...>
Confirms in a scratch worktree: the pinned suite still has 113 passes, the demo FAILs with the change
and PASSes without.  Then applies the patch to /repo, runs the named checks (quick), undoes it, and
stores everything under /verif/seeded/<seed-id>/."""
import json, os, re, shutil, subprocess, sys, time

V = "/verif"
ENV = dict(os.environ, QUARA_VERIF="1", PYTHONHASHSEED="0")


def sh(cmd, cwd=None, env=None, timeout=3600):
    p = subprocess.run(cmd, shell=True, cwd=cwd, env=env or os.environ, capture_output=True, text=True, timeout=timeout)
    return p.returncode, p.stdout + p.stderr


def main():
    sid, src, prop = sys.argv[1], sys.argv[2], sys.argv[3]
    rest = sys.argv[4:]
    k = rest.index("--")
    needs = " ".join(rest[:k])
    checks = rest[k + 1:]
    patch = os.path.join(src, "patch.diff")
    demo = os.path.join(src, "demo.py")
    scratch = "/tmp/ev_" + sid
    sh("git -C /repo worktree remove --force %s" % scratch)
    rc, out = sh("git -C /repo worktree add -q --detach %s HEAD" % scratch)
    meta = dict(id=sid, property=prop, needs=needs, ran=[])
    try:
        rc, out = sh("git apply %s" % patch, cwd=scratch)
        if rc:
            print("patch does not apply:", out)
            return 2
        rc, out = sh("/venv/bin/python -m pytest -q -p no:cacheprovider --timeout=900 --continue-on-collection-errors 2>&1 | tail -1", cwd=scratch)
        m = re.search(r"(\d+) passed", out)
        meta["tests_with_change"] = out.strip()
        tests_ok = bool(m) and int(m.group(1)) == 113
        env = dict(ENV, PYTHONPATH="/tmp/qshim:" + scratch)
        shutil.copy(demo, os.path.join(scratch, "demo.py"))
        rc1, out1 = sh("/venv/bin/python demo.py", cwd=scratch, env=env)
        sh("git apply -R %s" % patch, cwd=scratch)
        rc0, out0 = sh("/venv/bin/python demo.py", cwd=scratch, env=env)
        meta["demo_with_change_exit"] = rc1
        meta["demo_without_change_exit"] = rc0
        meta["confirmed"] = tests_ok and rc1 != 0 and rc0 == 0
        meta["ran"].append("pytest (113 passed: %s); demo.py with change exit %d, without exit %d" % (tests_ok, rc1, rc0))
        print("confirmed=%s tests=%s demo_with=%d demo_without=%d" % (meta["confirmed"], out.strip(), rc1, rc0))
        # run the checks against the scratch copy with the change applied (QUARA_REPO), outputs redirected
        sh("git apply %s" % patch, cwd=scratch)
        out_dir = "/tmp/evout_" + sid
        shutil.rmtree(out_dir, ignore_errors=True)
        os.makedirs(out_dir)
        results = {}
        cenv = dict(os.environ, QUARA_REPO=scratch, VERIF_OUT=out_dir)
        for c in checks:
            t0 = time.time()
            rc, out = sh("./check %s --tier quick" % c, cwd=V, env=cenv, timeout=3000)
            vio = [l[:300] for l in out.splitlines() if l.startswith("VIOLATION")]
            results[c] = dict(exit=rc, violations=len(vio), first=vio[:3], wall=round(time.time() - t0, 1))
            print(c, "exit", rc, "violations", len(vio), (vio[0][:200] if vio else ""))
        shutil.rmtree(out_dir, ignore_errors=True)
    finally:
        sh("git -C /repo worktree remove --force %s" % scratch)
    meta["checks"] = results
    meta["detected_by"] = [c for c, r in results.items() if r["exit"] == 1]
    d = os.path.join(V, "seeded", sid)
    os.makedirs(d, exist_ok=True)
    shutil.copy(patch, os.path.join(d, "patch.diff"))
    shutil.copy(demo, os.path.join(d, "demo.py"))
    with open(os.path.join(d, "meta.json"), "w") as f:
        json.dump(meta, f, indent=1)
    return 0


if __name__ == "__main__":
    sys.exit(main())
