#!/usr/bin/env python3
"""Regenerates the seeded-changes table of DESIGN.md (section 9.5) from /verif/seeded/*/meta.json."""
import json, os, re, sys
V = "/verif"
rows = []
for sid in sorted(os.listdir(os.path.join(V, "seeded"))):
    d = os.path.join(V, "seeded", sid)
    m = json.load(open(os.path.join(d, "meta.json")))
    files = sorted(set(re.findall(r"^\+\+\+ b/(\S+)", open(os.path.join(d, "patch.diff")).read(), re.M)))
    first = ""
    for k in m.get("detected_by", []):
        v = m["checks"][k]
        if v.get("first"):
            mm = re.search(r"key=(\S+)", v["first"][0])
            first = mm.group(1) if mm else ""
            break
    needs = m.get("needs", "").replace("|", "/")
    rows.append("| %s | %s | %s | %s | `%s` |" % (sid, ", ".join(os.path.basename(f) for f in files), needs[:200],
                                                  ", ".join(m.get("detected_by", [])) or "**missed**", first[:70].replace("|", "/")))
table = "| seed | file | needs | caught by | first key |\n|---|---|---|---|---|\n" + "\n".join(rows) + "\n"
p = os.path.join(V, "DESIGN.md")
s = open(p).read()
i = s.index("| seed | file | needs | caught by | first key |")
j = s.index("\n\n", i)
s = s[:i] + table.rstrip("\n") + s[j:]
open(p, "w").write(s)
print(len(rows), "rows")
