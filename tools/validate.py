import json, sys, glob
import jsonschema
ms = json.load(open('/root/.vp/MANIFEST.schema.json'))
es = json.load(open('/root/.vp/EVIDENCE.schema.json'))
ok = True
try:
    m = json.load(open('/verif/MANIFEST.json'))
    jsonschema.validate(m, ms)
    print("MANIFEST ok,", len(m['checks']), "checks,", len(m.get('not_applicable', [])), "n/a")
except Exception as e:
    ok = False; print("MANIFEST invalid:", str(e)[:500])
for f in sorted(glob.glob('/verif/evidence/*.json')):
    try:
        jsonschema.validate(json.load(open(f)), es)
    except Exception as e:
        ok = False; print(f, "INVALID", str(e)[:300])
print("evidence files:", len(glob.glob('/verif/evidence/*.json')))
sys.exit(0 if ok else 1)
