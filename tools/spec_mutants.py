#!/usr/bin/env python3
"""Vacuity guard for the specifications: each entry mutates one definition in a scratch copy of spec/ and TLC must
refute an invariant of the unchanged instance.  Not a property check (nothing here looks at /repo); run by hand:
    python3 tools/spec_mutants.py            -> one line per mutant, exit 0 iff every mutant is killed."""
import os, re, shutil, subprocess, sys, tempfile
V = os.path.dirname(os.path.dirname(os.path.abspath(__file__)))
CP = "/opt/veriftools/tla/tla2tools.jar:/opt/veriftools/tla/CommunityModules-deps.jar"
MUTANTS = [
    # (file, old, new, module (relative to spec/), cfg, why)
    ("QCatalogue.tla", 't = "x90" -> SU(<< <<cO, cJ>>, <<cJ, cO>> >>, 2)', 't = "x90" -> SU(<< <<cO, cI>>, <<cI, cO>> >>, 2)',
     "mc/MC_C17.tla", "mc/MC_C17_quick.cfg", "x90 with the opposite rotation sense"),
    ("QCatalogue.tla", 'tok = "bell_psi_minus" -> SV(<<cZ, cO, cM, cZ>>, 2)', 'tok = "bell_psi_minus" -> SV(<<cZ, cO, cO, cZ>>, 2)',
     "mc/MC_C17.tla", "mc/MC_C17_quick.cfg", "psi_minus equal to psi_plus"),
    ("QSim.tla", 'LossObj(s, c, r) == IF PrivateCopies \\/ B4 = "proc" THEN <<s, c, r>> ELSE <<s, c>>', 'LossObj(s, c, r) == <<s, c>>',
     "mc/MC_C15.tla", "mc/MC_C15_quick.cfg", "estimation tasks share the loss object on every backend"),
    ("QSim.tla", "DStream(r) == <<\"d\", r>>", "DStream(r) == <<\"d\", 1>>",
     "mc/MC_C15.tla", "mc/MC_C15_quick.cfg", "all repetitions draw from the first data stream"),
    ("QNoise.tla", "DepMap(p, G) == MatMul(DepG(p, Len(G)), G)", "DepMap(p, G) == MatMul(G, DepG(p, Len(G)))",
     "mc/MC_C15_aux.tla", "mc/MC_C15_aux.cfg", "noise before the gate instead of after it"),
    ("Quara.tla", "Branch(k) == VScale(RInv(Probs[k]), val.items[k])", "Branch(k) == val.items[k]",
     "mc/MC_Quara.tla", "mc/MC_Quara_quick.cfg", "post-measurement states left unnormalised"),
    ("QIndex.tla", "    ELSE Head(multi) * Prod(Tail(shape)) + Serial(Tail(shape), Tail(multi))", "    ELSE Head(multi) * Prod(Tail(shape)) + Serial(Tail(shape), Tail(multi)) + (IF Len(shape) = 3 THEN 1 ELSE 0)",
     "mc/MC_C16.tla", "mc/MC_C16_quick.cfg", "serial index off by one for three variables"),
    ("QProj.tla", "ProjIneqV(u) == [i \\in 1..Len(u) |-> RMax(u[i], RZero)]", "ProjIneqV(u) == [i \\in 1..Len(u) |-> RAbs(u[i])]",
     "mc/MC_C04.tla", "mc/MC_C04_quick.cfg", "absolute value instead of clipping"),
    # (J is Hermitian, so dropping the adjoint in "J X + X J^dagger" is an equivalent mutant; the factor 1/2 is not)
    ("QLind.tla", "CMatScale(R(1, 2), CAnti(CMatMul(Dagger(cs[i]), cs[i]), X))", "CMatScale(R(1, 1), CAnti(CMatMul(Dagger(cs[i]), cs[i]), X))",
     "mc/MC_C18.tla", "mc/MC_C18_quick.cfg", "anti-commutator of the jump-operator form without the factor 1/2"),
    ("QConv.tla", "    LET p(k) == (IdxCol(d, k)[1] - 1) * d + IdxCol(d, k)[2] IN", "    LET p(k) == (IdxRow(d, k)[1] - 1) * d + IdxRow(d, k)[2] IN",
     "mc/MC_C02.tla", "mc/MC_C02_quick.cfg", "column-major form equal to the row-major form"),
    ("QTester.tla", "TDep(p, x) == [a \\in 1..Len(x) |-> IF a = 1 THEN x[a] ELSE RMul(RSub(ROne, p), x[a])]",
     "TDep(p, x) == [a \\in 1..Len(x) |-> RMul(RSub(ROne, p), x[a])]",
     "mc/MC_QTester.tla", "mc/MC_QTester_quick.cfg", "depolarising channel that also shrinks the identity component (not trace preserving)"),
    ("QTester.tla", "ELSE [o \\in 1..4 |-> KronR(Eff(tp[1], ((o - 1) \\div 2) + 1), Eff(tp[2], ((o - 1) % 2) + 1))]",
     "ELSE [o \\in 1..4 |-> KronR(Eff(tp[1], ((o - 1) \\div 2) + 1), Eff(tp[2], ((o - 1) \\div 2) + 1))]",
     "mc/MC_QTester.tla", "mc/MC_QTester_quick.cfg", "product measurement whose second factor repeats the first outcome index"),
    ("QObjLife.tla", "    /\\ obj' = [obj EXCEPT ![k].copy = obj[k].main]", "    /\\ obj' = [obj EXCEPT ![k].copy = [obj[k].main EXCEPT !.order = \"eq_ineq\"]]",
     "mc/MC_ObjLife.tla", "mc/MC_ObjLife_quick.cfg", "copy() that resets the projection order"),
    ("QInterop.tla", "SwapIdx(d, k) == (IdxRow(d, k)[2] - 1) * d + IdxRow(d, k)[1]", "SwapIdx(d, k) == (IdxRow(d, k)[1] - 1) * d + IdxRow(d, k)[2]",
     "mc/MC_QInterop.tla", "mc/MC_QInterop_quick.cfg", "swap of the two Choi factors that is the identity permutation"),
    ("QInterop.tla", "    [i \\in 1..Len(label) |-> [shots |-> shots[i], dist |-> Slice(flat, SumTo(label, i - 1), SumTo(label, i))]]",
     "    [i \\in 1..Len(label) |-> [shots |-> shots[i], dist |-> Slice(flat, SumTo(label, i - 1), SumTo(label, i - 1) + label[1])]]",
     "mc/MC_QInterop.tla", "mc/MC_QInterop_quick.cfg", "segments of the flat vector all as long as the first one"),
    # QPhysCheck's decision table is definitional (the reading of the property): only the binding can refute it,
    # so it has no spec-level mutant here.
]


def run(mod, cfg, specdir):
    meta = tempfile.mkdtemp(prefix="tlcmeta")
    try:
        p = subprocess.run(["java", "-XX:+UseParallelGC", "-Xmx4g", "-Xss64m",
                            "-DTLA-Library=" + specdir + os.pathsep + os.path.join(specdir, "mc"), "-cp", CP, "tlc2.TLC",
                            "-workers", "8", "-metadir", meta, "-noGenerateSpecTE", "-deadlock", "-config", os.path.join(specdir, cfg),
                            os.path.join(specdir, mod)], capture_output=True, text=True, timeout=1800, cwd=os.path.join(specdir, "mc"))
    finally:
        shutil.rmtree(meta, ignore_errors=True)
    out = p.stdout + p.stderr
    m = re.search(r"Invariant (\S+) is violated", out) or re.search(r"Action property (\S+) is violated", out) or \
        re.search(r"(Temporal properties were violated)", out)
    ok = "No error has been found" in out
    return ok, (m.group(1) if m else None), out


def main():
    alive = 0
    only = sys.argv[1] if len(sys.argv) > 1 else None      # optional: only mutants of this spec file
    for f, old, new, mod, cfg, why in MUTANTS:
        if old is None or (only and f != only):
            continue
        d = tempfile.mkdtemp(prefix="specmut")
        try:
            sd = os.path.join(d, "spec")
            shutil.copytree(os.path.join(V, "spec"), sd)
            p = os.path.join(sd, f)
            s = open(p).read()
            if s.count(old) != 1:
                print("SKIP  %-16s pattern not found exactly once" % f)
                alive += 1
                continue
            open(p, "w").write(s.replace(old, new))
            ok, inv, out = run(mod, cfg, sd)
            if ok or inv is None:
                alive += 1
                print("ALIVE %-16s %s  (%s)" % (f, why or old[:50], "no violation" if ok else "TLC failed otherwise"))
            else:
                print("killed %-15s %-60s by %s" % (f, (why or old[:50])[:60], inv))
        finally:
            shutil.rmtree(d, ignore_errors=True)
    return 1 if alive else 0


if __name__ == "__main__":
    sys.exit(main())
